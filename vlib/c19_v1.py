"""C19, expression_v1 side: generator extensions for the v1-only constructs
(gradients `_,i` / `_;i`, normal `n_i`, dirac `δ_ij` / `$_ij`, stacks
`<a, b>_i`, multi-argument / consuming calls), an index analyser with
*length inference by unification* (the documented "shape is deduced from the
expression"), the numpy meaning of those constructs, tree-level mutations with
a certain classification, lexical rules for string corruptions, the policy for
exception types and the ledger reproducers."""

import re, json
import numpy
from vlib import c19_core as core, c19_gen as gen
from vlib.c19_core import Invalid, Unclassified, PT, GR


# ---------------------------------------------------------------- generator

class GenV1(gen.Gen):

    def factor(self, free, used, depth, grad_ok, smooth, first=False):
        deeper = depth < self.maxdepth and self.budget > 0
        D = self.geom['dim'] if self.geom else None
        r = self.rng.random()
        lens = [self.len[ch] for ch in free]
        if D and self.geom['mode'] == 'boundary' and not smooth and len(free) == 1 and lens[0] == D and r < .5:
            return ['normal', free[0]], set()
        if D and self.geom['mode'] == 'boundary' and not smooth and not free and r < .06:
            return ['normal', str(int(self.rng.integers(D)))], set()
        if len(free) == 2 and lens[0] == lens[1] and r < .4:
            return ['eye', self.pick('δ$'), ''.join(free)], set()
        if D and grad_ok and r < .45 and (D in lens or r < .2):
            return self.gradient(free, used, depth, D)
        st = [ch for ch in free if self.len[ch] in (2, 3)]
        if deeper and st and not smooth and r > .88:
            ch = self.pick(st)
            rest = [c for c in free if c != ch]
            items, new = [], set()
            self.budget -= self.len[ch]
            for _ in range(self.len[ch]):
                e, n = self.expr(rest, used | new, depth + 1, grad_ok, smooth)
                items.append(e)
                new |= n
            self.nops += 1
            return ['stack', items, ch], new
        if deeper and not smooth and .78 < r <= .88:
            self.nops += 1
            if r < .83:
                # mul(e1, e2): free letters split over the arguments, optionally one summed letter in both
                fl = [[], []]
                for ch in free:
                    fl[int(self.rng.integers(2))].append(ch)
                new = set()
                if self.p(.4):
                    ch = self.fresh(used)
                    new.add(ch)
                    fl[0].append(ch)
                    fl[1].append(ch)
                self.budget -= 1
                args = []
                for l in fl:
                    e, n = self.expr(l, used | new, depth + 1, False, smooth)
                    new |= n
                    args.append(e)
                return ['calln', 'mul', '', '', args], new
            ch = self.fresh(used)
            e, n = self.expr(list(free) + [ch], used | {ch}, depth + 1, False, smooth)
            return ['calln', 'sum', '', ch, [e]], n | {ch}
        return super().factor(free, used, depth, grad_ok, smooth, first)

    def gradient(self, free, used, depth, D):
        self.nops += 1
        free = list(free)
        new = set()
        own = [ch for ch in free if self.len[ch] == D]
        r = self.rng.random()
        if own and r < .6:
            g = self.pick(own)
            free.remove(g)
        elif r < .8 and len(free) < 3:
            g = self.fresh(used, D)        # traced with an axis of the differentiated array (divergence-like)
            new.add(g)
            free.append(g)
        else:
            g = str(int(self.rng.integers(D)))
        sep = ';' if self.geom['mode'] == 'boundary' and D >= 2 and self.p(.35) else ','
        if depth < self.maxdepth and self.budget > 0 and self.p(.4):
            inner, n = self.expr(free, used | new, depth + 1, False, True)
            node = ['scope', '(', inner]
        else:
            node, n = self.leaf(free, used | new, True)
            if node[0] != 'var':
                node = ['scope', '(', node] if node[0] != 'scope' else node
        return ['grad', node, g, sep], new | n

    def call(self, free, used, depth, grad_ok, smooth):
        node, new = super().call(free, used, depth, grad_ok, smooth)
        # numerals on generated axes are not part of the documented v1 grammar: replace them by traced letters is not
        # always possible, so regenerate without generated axes
        if any(ch.isdigit() for ch in node[2]):
            inner, n2 = self.expr(list(free), used, depth + 1, grad_ok, smooth)
            return ['call', 'f', '', inner], n2
        return node, new


# ---------------------------------------------------------------- analysis with length unification

class Lengths:
    """Union-find over axis lengths: ints and unknowns (documented: lengths are deduced from the expression)."""

    def __init__(self):
        self.parent = {}
        self.n = 0

    def unknown(self):
        self.n += 1
        u = ('?', self.n)
        self.parent[u] = u
        return u

    def find(self, a):
        if not isinstance(a, tuple):
            return int(a)
        while isinstance(a, tuple) and self.parent[a] != a:
            a = self.parent[a]
        return a

    def link(self, a, b, what=''):
        a, b = self.find(a), self.find(b)
        if a == b:
            return
        if isinstance(a, int) and isinstance(b, int):
            raise Invalid('axes of different lengths {} and {} are linked {}'.format(a, b, what))
        if isinstance(a, int):
            a, b = b, a
        self.parent[a] = b

    def resolved(self, a):
        a = self.find(a)
        return a if isinstance(a, int) else None

    def unresolved(self):
        return [u for u in self.parent if not isinstance(self.find(u), int)]


def _apply_idx(L, prefix, lens, idx, summed, what):
    letters, ll = list(prefix), list(lens[:len(prefix)])
    for ch, n in zip(idx, lens[len(prefix):]):
        if '0' <= ch <= '9':
            m = L.resolved(n)
            if m is None:
                raise Unclassified('numeral on an axis of inferred length in ' + what)
            if int(ch) >= m:
                raise Invalid('numeral {} out of range for axis of length {} in {}'.format(ch, m, what))
        elif 'a' <= ch <= 'z' or 'A' <= ch <= 'Z':
            letters.append(ch)
            ll.append(n)
        else:
            raise Invalid('symbol {!r} used as index in {}'.format(ch, what))
    summed = set(summed)
    for ch in dict.fromkeys(letters):
        pos = [i for i, c in enumerate(letters) if c == ch]
        if len(pos) > 2 or ch in summed:
            raise Invalid('index {} occurs more than twice in {}'.format(ch, what))
        if len(pos) == 2:
            L.link(ll[pos[0]], ll[pos[1]], 'by index ' + ch)
            summed.add(ch)
    out = [(ch, n) for ch, n in zip(letters, ll) if letters.count(ch) == 1]
    return ''.join(ch for ch, n in out), [n for ch, n in out], frozenset(summed)


def analyse(node, R, L, info):
    """(letters, lens, summed); lens may contain unknowns of L; info collects per-node facts for the evaluator."""
    kind = node[0]
    if kind == 'num':
        return '', [], frozenset()
    if kind == 'var':
        name, idx = node[1], node[2]
        if name in R.opaque:
            raise Unclassified(name + ' cannot be evaluated on this sample')
        if name in ('n', 'δ', '$'):
            raise Unclassified('reserved name used as a variable')
        if name not in R.leaf:
            raise Invalid('unknown variable {!r}'.format(name))
        shape = R.shape(name)
        if len(idx) != len(shape):
            raise Invalid('variable {} has {} axes but {} indices'.format(name, len(shape), len(idx)))
        return _apply_idx(L, '', list(shape), idx, (), name + '_' + idx)
    if kind == 'normal':
        if 'n' not in R.leaf:
            raise Unclassified('normal cannot be evaluated on this sample')
        if len(node[1]) != 1:
            raise Invalid('normal takes one index')
        return _apply_idx(L, '', [R.D], node[1], (), 'n_' + node[1])
    if kind == 'eye':
        if len(node[2]) != 2:
            raise Invalid('dirac takes two indices')
        u = L.unknown()
        info.setdefault('eye', []).append((node, u))
        return _apply_idx(L, '', [u, u], node[2], (), node[1] + '_' + node[2])
    if kind == 'grad':
        if R.D is None:
            raise Invalid('gradient without a geometry (unknown variable x)')
        inner = node[1]
        if inner[0] not in ('var', 'scope') or (inner[0] == 'scope' and inner[1] != '('):
            raise Unclassified('gradient of something else than a variable or group')
        l, lens, sm = analyse(inner, R, L, info)
        if len(node[2]) != 1:
            raise Unclassified('repeated gradient')
        return _apply_idx(L, l, lens + [R.D], node[2], sm, 'gradient')
    if kind == 'call':
        fname, genidx, arg = node[1], node[2], node[3]
        l, lens, sm = analyse(arg, R, L, info)
        if fname not in R.funcs or fname in ('opposite',) and R.no_opposite:
            if fname in R.funcs:
                raise Unclassified('opposite on a boundary')
            raise Invalid('unknown function {!r}'.format(fname))
        f = R.funcs[fname]
        if f.get('gradient'):
            raise Unclassified('v2 gradient function in a v1 tree')
        if len(genidx) != len(f['gen']):
            raise Unclassified('function called with a different number of generated axes')   # refused at evaluation (ValueError / TypeError)
        us = [L.unknown() for _ in genidx]
        for u, n in zip(us, f['gen']):
            info.setdefault('gen', []).append((u, n))
        return _apply_idx(L, l, lens + us, genidx, sm, fname + '_' + genidx + '(..)')
    if kind == 'calln':
        fname, genidx, consumes, args = node[1], node[2], node[3], node[4]
        parts = [analyse(a, R, L, info) for a in args]
        if fname == 'mul':
            if consumes or genidx or len(args) < 2:
                raise Unclassified('mul with generated / consumed axes')
            seen = set()
            for l, lens, sm in parts:
                if seen & sm:
                    raise Unclassified('the same index is summed in two arguments')
                seen |= sm
            letters = ''.join(l for l, lens, sm in parts)
            lens = [n for l, ln, sm in parts for n in ln]
            return _apply_idx(L, letters, lens, '', seen, 'mul(..)')
        if fname == 'sum':
            if genidx or len(args) != 1 or not consumes:
                raise Unclassified('sum in an undocumented form')
            l, lens, sm = parts[0]
            if len(set(consumes)) != len(consumes):
                raise Unclassified('axis consumed twice')
            for ch in consumes:
                if ch not in l:
                    raise Invalid('consumed axis {} is not an axis of the argument'.format(ch))
            keep = [(ch, n) for ch, n in zip(l, lens) if ch not in consumes]
            return ''.join(ch for ch, n in keep), [n for ch, n in keep], frozenset(sm | set(consumes))
        raise Invalid('unknown function {!r}'.format(fname))
    if kind == 'stack':
        items, ch = node[1], node[2]
        if not items:
            raise Invalid('empty stack')
        if len(ch) != 1 or not ('a' <= ch <= 'z'):
            raise Invalid('stack needs one non-numeric index')
        parts = [analyse(e, R, L, info) for e in items]
        l0, lens0, sm0 = parts[0]
        summed = set(sm0)
        for l, lens, sm in parts:
            if set(l) != set(l0) or len(l) != len(l0):
                raise Invalid('stacked arrays have different index sets')
            if ch in l or ch in sm:
                raise Invalid('stack index {} is used in a stacked array'.format(ch))
            for c, n in zip(l, lens):
                L.link(lens0[l0.index(c)], n, 'by stacking')
            summed |= sm
        return ch + l0, [len(items)] + lens0, frozenset(summed)
    if kind == 'scope':
        return analyse(node[2], R, L, info)
    if kind == 'pow':
        l, lens, sm = analyse(node[1], R, L, info)
        if node[2][0] == 'int':
            return l, lens, sm
        le, lense, sme = analyse(node[2], R, L, info)
        if le:
            raise Invalid('exponent is not a scalar')
        if sm & sme or set(l) & sme:
            raise Invalid('index occurs more than twice (base and exponent)')
        return l, lens, sm | sme
    if kind == 'prod':
        letters, lens, merged = '', [], set()
        for f in node[1]:
            l, ln, sm = analyse(f, R, L, info)
            if merged & sm:
                raise Invalid('index occurs more than twice (summed in two factors)')
            merged |= sm
            letters += l
            lens += ln
        return _apply_idx(L, letters, lens, '', merged, 'product')
    if kind == 'frac':
        l, lens, sm = analyse(node[1], R, L, info)
        ld, lensd, smd = analyse(node[2], R, L, info)
        if ld:
            raise Invalid('denominator is not a scalar')
        if sm & smd or set(l) & (sm | smd):
            raise Invalid('index occurs more than twice (fraction)')
        return l, lens, sm | smd
    if kind == 'sum':
        l0, lens0, sm0 = analyse(node[1][0][1], R, L, info)
        summed = set(sm0)
        later = set()
        for sign, term in node[1][1:]:
            l, lens, sm = analyse(term, R, L, info)
            if set(l) != set(l0) or len(l) != len(l0):
                raise Invalid('terms have different index sets: {!r} and {!r}'.format(l0, l))
            for ch, n in zip(l, lens):
                L.link(lens0[l0.index(ch)], n, 'by adding terms (index {})'.format(ch))
            later |= sm - sm0
        if info.get('first_only'):
            return l0, lens0, frozenset(sm0)
        return l0, lens0, frozenset(summed | later)
    raise ValueError('unknown node kind {!r}'.format(kind))


def analyse_top(tree, R):
    """Full analysis of a v1 tree: (letters, shape(ints), info) or raises."""
    L, info = Lengths(), {}
    l, lens, sm = analyse(tree, R, L, info)
    if L.unresolved():
        raise Invalid('length of an axis cannot be determined from the expression')
    for u, n in info.get('gen', []):
        if L.resolved(u) != n:
            raise Unclassified('generated axis is linked to a different length than the function returns')   # found at evaluation only
    info['eye_len'] = {id(node): L.resolved(u) for node, u in info.get('eye', [])}
    return l, tuple(L.resolved(n) for n in lens), info


def first_term_only_summed_accepts(tree, R):
    """Would the tree be valid if a sum remembered only the summed indices of its first term? (mechanism predicate)"""
    L, info = Lengths(), {'first_only': True}
    try:
        analyse(tree, R, L, info)
        return not L.unresolved()
    except (Invalid, Unclassified):
        return False


# ---------------------------------------------------------------- numpy meaning of the v1-only constructs

def _eval_grad(node, R, dom, side, want_grad):
    if want_grad:
        raise Unclassified('second derivatives not modelled')
    v, l, g = core.evaluate(node[1], R, dom, side, True)
    if node[3] == ';':
        n = R.leaf['n'][side][0]
        gn = numpy.einsum('p...d,pd->p...', g, n)
        g = g - gn[..., None] * n.reshape((n.shape[0],) + (1,) * (g.ndim - 2) + (n.shape[-1],))
    val, out = core._idx_take(g, l, node[2])
    return dom.see(val), out, None


def _eval_eye(node, R, dom, side, want_grad):
    n = dom.eye_len[id(node)]
    val = numpy.broadcast_to(numpy.eye(n), (R.P, n, n))
    v, out = core._idx_take(val, '', node[2])
    g = numpy.zeros(v.shape + (R.D,)) if want_grad else None
    return v, out, g


def _eval_normal(node, R, dom, side, want_grad):
    if want_grad:
        raise Unclassified('gradient of the normal not modelled')
    v, out = core._idx_take(R.leaf['n'][side][0], '', node[1])
    return v, out, None


def _eval_stack(node, R, dom, side, want_grad):
    parts = [core.evaluate(e, R, dom, side, want_grad) for e in node[1]]
    l0 = parts[0][1]
    vals, grads = [], []
    for v, l, g in parts:
        vals.append(numpy.einsum(PT + l + '->' + PT + l0, v))
        if want_grad:
            grads.append(numpy.einsum(PT + l + GR + '->' + PT + l0 + GR, g))
    val = numpy.stack([v.astype(float) for v in vals], axis=1)
    return val, node[2] + l0, (numpy.stack(grads, axis=1) if want_grad else None)


def _eval_calln(node, R, dom, side, want_grad):
    if want_grad:
        raise Unclassified('gradient through a multi-argument call not modelled')
    parts = [core.evaluate(e, R, dom, side, False) for e in node[4]]
    if node[1] == 'mul':
        letters = ''.join(l for v, l, g in parts)
        # outer product in argument order, then the summation convention on the result
        names = 'ABCDEFGHIJKLMNOPQRSTUVWX'
        subs, k = [], 0
        for v, l, g in parts:
            subs.append(PT + names[k:k + len(l)])
            k += len(l)
        outer = numpy.einsum(','.join(subs) + '->' + PT + names[:k], *[v.astype(float) for v, l, g in parts])
        val, out = core._idx_take(outer, letters, '')
        return dom.see(val), out, None
    v, l, g = parts[0]
    keep = ''.join(ch for ch in l if ch not in node[3])
    return dom.see(numpy.einsum(PT + l + '->' + PT + keep, v)), keep, None


core.EXTRA_EVAL = dict(grad=_eval_grad, eye=_eval_eye, normal=_eval_normal, stack=_eval_stack, calln=_eval_calln)


def reference(tree, info, R, out_letters=None):
    dom = core.Domain()
    dom.eye_len = info['eye_len']
    with numpy.errstate(all='ignore'):
        val, l, _ = core.evaluate(tree, R, dom)
    target = ''.join(sorted(l)) if out_letters is None else out_letters
    return numpy.einsum(PT + l + '->' + PT + target, val), target, dom


# ---------------------------------------------------------------- tree mutations (certain classification)

def _sites(node, out):
    kind = node[0]
    if kind == 'var':
        out.append((node, 2, 'idx'))
        out.append((node, 1, 'name'))
    elif kind == 'call':
        if node[2]:
            out.append((node, 2, 'idx'))
        out.append((node, 1, 'fname'))
        _sites(node[3], out)
    elif kind in ('eye', 'grad'):
        out.append((node, 2, 'idx'))
        if kind == 'grad':
            _sites(node[1], out)
    elif kind == 'normal':
        out.append((node, 1, 'idx'))
    elif kind == 'stack':
        out.append((node, 2, 'idx'))
        for e in node[1]:
            _sites(e, out)
    elif kind == 'calln':
        if node[3]:
            out.append((node, 3, 'idx'))
        for e in node[4]:
            _sites(e, out)
    elif kind == 'scope':
        _sites(node[2], out)
    elif kind == 'pow':
        _sites(node[1], out)
        if node[2][0] != 'int':
            _sites(node[2], out)
    elif kind == 'prod':
        for f in node[1]:
            _sites(f, out)
    elif kind == 'frac':
        _sites(node[1], out)
        _sites(node[2], out)
    elif kind == 'sum':
        for s, t in node[1]:
            _sites(t, out)


def letters_of(tree):
    return sorted(set(ch for ch in re.sub(r'[^a-z]', '', json.dumps([n for n in _all_idx(tree)]))))


def _all_idx(tree):
    out = []
    _sites(tree, out)
    return [node[k] for node, k, what in out if what == 'idx']


def mutate(tree, rng, R):
    """One index / name edit on a deep copy of the tree. Returns (tree, description) or None."""
    t = json.loads(json.dumps(tree))
    sites = []
    _sites(t, sites)
    if not sites:
        return None
    node, k, what = sites[int(rng.integers(len(sites)))]
    old = node[k]
    if what == 'idx':
        if not old:
            return None
        p = int(rng.integers(len(old)))
        pool = letters_of(t) + ['z', '0', '1', '2', '3', '4']
        ch = pool[int(rng.integers(len(pool)))]
        if ch == old[p]:
            return None
        node[k] = old[:p] + ch + old[p + 1:]
    elif what == 'name':
        pool = list(R.leaf) + ['zz']
        new = pool[int(rng.integers(len(pool)))]
        if new == old:
            return None
        node[k] = new
    else:
        pool = ['f', 'g', 'h', 'sin', 'exp', 'foo']
        new = pool[int(rng.integers(len(pool)))]
        if new == old:
            return None
        node[k] = new
    return t, '{} {!r} -> {!r}'.format(what, old, node[k])


# ---------------------------------------------------------------- lexical rules for string corruptions

V1_SYMBOLS = set(' _^+-/|=[]{}()<>,.:;?$δ')
PAIRS = {'(': ')', '[': ']', '{': '}', '<': '>'}
CLOSERS = {v: k for k, v in PAIRS.items()}


def lexical_class(s):
    """('invalid', why) for strings that no reading of the v1 grammar admits; otherwise ('unclassified', why)."""
    for ch in s:
        if not (ch.isalnum() or ch in V1_SYMBOLS or ch.isspace()):
            return 'invalid', 'unknown symbol {!r}'.format(ch)
    if not s.strip():
        return 'invalid', 'empty expression'
    stack = []
    for i, ch in enumerate(s):
        if ch in PAIRS:
            stack.append(ch)
        elif ch in CLOSERS:
            if ch == '>' and i and s[i - 1] == '-':
                pass
            if not stack or stack.pop() != CLOSERS[ch]:
                return 'invalid', 'unbalanced brackets at position {}'.format(i)
    if stack:
        return 'invalid', 'unbalanced brackets: unclosed {!r}'.format(stack[-1])
    return 'unclassified', 'v1 corruption (no full v1 recogniser)'


def first_stray_closer(s):
    stack = []
    for i, ch in enumerate(s):
        if ch in PAIRS:
            stack.append(ch)
        elif ch in CLOSERS:
            if not stack:
                return i
            if stack.pop() != CLOSERS[ch]:
                return None
    return None


_EMPTY_CALL = re.compile(r'[A-Za-zα-ωΑ-Ω0-9]\(\s*\)')
_NUMERAL_GEN = re.compile(r'([A-Za-zα-ωΑ-Ω][A-Za-zα-ωΑ-Ω0-9]*)_[a-zA-Z]*[0-9][a-zA-Z0-9]*(:[a-zA-Z]+)?\(')
_NUMERAL_ARG = re.compile(r'(\?[A-Za-zα-ωΑ-Ω][A-Za-zα-ωΑ-Ω0-9]*|δ|\$)_[a-zA-Z]*[0-9]')
_GRADTOKEN = re.compile(r'_[a-zA-Z0-9]*[,;][a-zA-Z0-9]')


def silent_mechanism(R, s, mode, idx, arr, H):
    """Mechanism tag for an invalid string that nutils evaluated (None if no known mechanism matches)."""
    if _EMPTY_CALL.search(s):
        return 'C19-v1-empty-call-reparse'
    if mode == '@' or (mode == 'set' and not idx):
        # both entry points call parse(..., indices=None), whose omitted-indices attempt returns without checking for EOF
        p = first_stray_closer(s)
        if p is not None and s[:p].strip():
            o = H['run_nutils'](R, s[:p], '@')
            if o[0] == 'accepted' and tuple(o[1].shape) == tuple(arr.shape):
                return 'C19-v1-matmul-trailing-garbage'
    return None


def judge_exception(R, kind, detail, exc, s, wh, in_module):
    """v1 policy for rejections that are not ExpressionSyntaxError."""
    msg = str(exc)
    if kind == 'SyntaxError' and 'no longer supported' in msg:
        return 'ok', 'documented-refusal/SyntaxError'
    if kind in ('NotImplementedError', 'AmbiguousAlignmentError'):
        return 'ok', 'documented-refusal/' + kind
    if kind == 'AttributeError' and wh[1] == '__setattr__':
        return 'ok', 'attribute-error'
    if kind == 'ValueError' and (wh[1] in ('__rmatmul__', '_eval_ast', '_sum_expr', '_norm2_expr', '_J_expr') or not in_module):
        return 'ok', 'documented-refusal/ValueError'
    if kind == 'TypeError' and wh[1] == '_eval_ast' and re.search(r'(unexpected keyword argument|positional argument|multiple values for (keyword )?argument|keyword-only argument)', msg):
        return 'ok', 'function-signature-refusal/TypeError'
    if not in_module:
        return 'ok', 'outside-module/' + kind
    # escapes from inside expression_v1.py: known mechanisms
    if kind == 'KeyError' and wh[1] == '_eval_ast' and exc.args and isinstance(exc.args[0], str):
        name = exc.args[0]
        if name not in R.ns._functions and re.search(re.escape(name) + r'(_[a-zA-Z0-9]*)?(:[a-zA-Z]*)?\(', s):
            return 'violation', 'C19-v1-unknown-function-keyerror'
    if _EMPTY_CALL.search(s):
        return 'violation', ('C19-v1-empty-call-omitted-indices' if kind == 'AttributeError' and '_ArrayOmittedIndices' in msg else 'C19-v1-empty-call-reparse')
    if kind == 'KeyError' and wh[1] == '_replace_lengths' and (_NUMERAL_ARG.search(s) or _NUMERAL_GEN.search(s)):
        return 'violation', 'C19-v1-numeral-on-inferred-axis'
    if kind == 'IndexError' and wh[1] == '_apply_indices' and _NUMERAL_GEN.search(s):
        return 'violation', 'C19-v1-numeral-on-inferred-axis'
    if kind == 'TypeError' and wh[1] == 'wrapper' and 'NoneType' in msg and _GRADTOKEN.search(s):
        return 'violation', 'C19-v1-highlight-typeerror'
    return 'violation', None


# ---------------------------------------------------------------- one base string

def doc_rejection(o):
    """Is the rejection of an invalid v1 string of a documented kind?"""
    return o[1] == 'syntax-error' or (o[1] == 'SyntaxError' and 'no longer supported' in o[2])


def base_v1(R, rng, tier, res, pend, case0, H):
    run_nutils = H['run_nutils']
    tree = None
    for attempt in range(6):
        G = GenV1(rng, R, maxdepth=4, version=1)
        try:
            t, free = G.expression()
            l, shape, info = analyse_top(t, R)
            assert set(l) == set(free) and len(l) == len(free)
            tree = t
            break
        except RuntimeError:
            res.count('generator-discards')
        except Invalid as e:
            res.count('v1/generator-discards-undetermined-length' if 'determined' in str(e) else 'v1/generator-discards-other')
        except Unclassified:
            res.count('v1/generator-discards-other')
    if tree is None:
        return
    s = gen.render(tree, rng)
    case = dict(case0, string=s, kind='generated')
    res.count('evaluations')
    res.count('v1/generated')
    if gen.count_ops(tree) >= 2:
        res.add('distinct', H['sha']('1', s))
    for kd in gen.kinds(tree):
        res.count('constructs/v1/' + kd)
    res.maximum('max-string-length', len(s))
    try:
        ref, out, dom = reference(tree, info, R)
    except Unclassified:
        res.count('generator-discards')
        res.count('v1/generator-discards-unmodelled')
        return
    except Exception as e:
        res.count('harness-selfcheck-failures')
        res.note('v1 reference failed for {!r}: {}: {}'.format(s, type(e).__name__, str(e)[:300]))
        return
    if H['index_sample'](case0):
        res.sample(dict(version=1, geometry=case0['geometry'], string=s, free_indices=out, shape=list(ref.shape[1:]), in_domain=dom.ok))
    # --- oracle 1 through the three documented entry points
    modes = [('eval', out)]
    if len(out) <= 1:
        modes.append(('@', None))
    perm = ''.join(out[i] for i in rng.permutation(len(out))) if out else ''
    modes.append(('set', perm))
    for mode, idx in modes:
        o = run_nutils(R, s, mode, idx)
        res.count('v1/mode/' + mode)
        c = dict(case, mode=mode, attr=idx)
        if o[0] != 'accepted':
            res.violation('valid generated string rejected', c, '{!r} ({} {}): {}'.format(s, mode, idx, o[2]))
            continue
        r = ref if mode != 'set' else numpy.einsum(PT + out + '->' + PT + perm, ref)
        pend.add(o[1], r, dom, c, '{!r} ({} {})'.format(s, mode, idx))
    # --- tree mutations with a certain classification
    nmut = 6 if tier == 'quick' else 10
    for _ in range(nmut):
        m = mutate(tree, rng, R)
        if m is None:
            continue
        check_mutation(R, m[0], m[1], rng, res, pend, dict(case0, base=s), H)
    # --- an index that is already summed inside the expression is used once more outside: documented as invalid
    try:
        L0, info0 = Lengths(), {}
        summed = analyse(tree, R, L0, info0)[2]
    except Exception:
        summed = ()
    for t2 in H['summed_reuse_trees'](tree, summed, G, R, rng):
        check_mutation(R, t2, 'summed index reused outside', rng, res, pend, dict(case0, base=s), H)
    # --- single-character corruptions: lexical classification, exception-type clause
    for c, ckind in H['corrupt'](s, rng, H['NCORR'][tier] // 2, R):
        check_string(R, c, ckind, out, rng, res, dict(case0, string=c, kind='corruption', edit=ckind, base=s), H)


def check_mutation(R, tree, what, rng, res, pend, case0, H):
    s = gen.render(tree)
    res.count('corruptions')
    res.count('v1/tree-mutations')
    try:
        l, shape, info = analyse_top(tree, R)
        ref, out, dom = reference(tree, info, R)
        cls = 'valid'
    except Invalid as e:
        cls, why = 'invalid', str(e)
    except Unclassified as e:
        cls, why = 'unclassified', str(e)
    res.count('v1/class/mutation-' + cls)
    if cls == 'valid':
        idx = out
    else:
        idx = ''.join(sorted(set(ch for ch in ''.join(_all_idx(tree)) if 'a' <= ch <= 'z' and ''.join(_all_idx(tree)).count(ch) == 1)))[:3]
    mode = 'eval' if (len(idx) > 1 or rng.random() < .6) else '@'
    if mode == '@' and '_' not in s and cls == 'invalid':
        # `@` first tries the documented omitted-indices reading (`sum(u)`), under which bare array names are legal
        cls, why = 'unclassified', 'omitted-indices reading applies'
    case = dict(case0, string=s, kind='tree-mutation', edit=what, mode=mode, attr=idx)
    o = H['run_nutils'](R, s, mode, idx)
    outcome = 'accepted' if o[0] == 'accepted' else ('syntax-error' if o[1] == 'syntax-error' else 'other-exception')
    res.count('v1/outcome/mutation-{}/{}'.format(cls, outcome))
    if o[0] == 'rejected':
        verdict, tag = H['judge_exception'](R, o[1], o[2], o[3], s)
        if verdict == 'violation':
            res.violation('undocumented exception type escapes', case, '{!r}: {}'.format(s, o[2]), mechanism=tag)
        elif cls == 'valid':
            res.violation('valid string rejected', case, '{!r} ({}) is valid by the documented grammar but nutils raised: {}'.format(s, what, o[2]))
        elif cls == 'invalid' and not doc_rejection(o):
            res.count('v1/invalid-rejected-with/' + tag)
        else:
            res.count('v1/rejections/' + tag)
        return
    if cls == 'invalid':
        mech = None
        if 'more than twice' in why and first_term_only_summed_accepts(tree, R):
            mech = 'C19-v1-sum-forgets-summed-indices'
        try:
            val = str(R.evaluate_nutils([o[1]])[0].tolist())[:200]
        except Exception as e:
            val = 'evaluation raised ' + type(e).__name__
        res.violation('invalid string silently evaluated', case, '{!r} violates a documented rule ({}) but nutils returned an array of shape {} = {}'.format(
            s, why, tuple(o[1].shape), val), mechanism=mech)
    elif cls == 'valid':
        pend.add(o[1], ref, dom, case, '{!r} ({} {})'.format(s, mode, idx))


def check_string(R, c, ckind, out, rng, res, case, H):
    cls, why = lexical_class(c)
    res.count('corruptions')
    res.count('v1/corruptions')
    res.count('v1/corruptions/' + ckind)
    res.count('v1/class/' + cls)
    r = rng.random()
    if r < .4:
        mode, idx = '@', None
    elif r < .8:
        mode, idx = 'eval', out
    else:
        mode, idx = 'set', out
    case = dict(case, mode=mode, attr=idx)
    o = H['run_nutils'](R, c, mode, idx)
    outcome = 'accepted' if o[0] == 'accepted' else ('syntax-error' if o[1] == 'syntax-error' else 'other-exception')
    res.count('v1/outcome/{}/{}'.format(cls, outcome))
    if o[0] == 'rejected':
        verdict, tag = H['judge_exception'](R, o[1], o[2], o[3], c)
        if verdict == 'violation':
            res.violation('undocumented exception type escapes', case, '{!r}: {}'.format(c, o[2]), mechanism=tag)
        else:
            res.count('v1/rejections/' + tag)
        return
    if cls == 'invalid':
        mech = silent_mechanism(R, c, mode, idx, o[1], H)
        try:
            val = str(R.evaluate_nutils([o[1]])[0].tolist())[:200]
        except Exception as e:
            val = 'evaluation raised ' + type(e).__name__
        res.violation('invalid string silently evaluated', case, '{!r} violates a documented rule ({}) but nutils ({}) returned an array of shape {} = {}'.format(
            c, why, mode, tuple(o[1].shape), val), mechanism=mech)


# ---------------------------------------------------------------- ledger reproducers

def _ns():
    from nutils import expression_v1
    ns = expression_v1.Namespace(functions=dict(f=lambda u: u**2, g=lambda u, generates=0: u[..., None] * numpy.array([1., 2., 3.])))
    ns.a = numpy.array([1., 2., 3.])
    ns.b = 2.
    return ns, expression_v1


def _outcome(fn, ok_types):
    try:
        r = fn()
    except ok_types as e:
        return False, 'rejected with {}'.format(type(e).__name__)
    except Exception as e:
        return True, 'raised {}: {}'.format(type(e).__name__, str(e).split('\n')[0][:120])
    from nutils import function
    return True, 'evaluated to {}'.format(numpy.asarray(function.eval(r)).tolist())


def repro_trailing():
    ns, m = _ns()
    fails, what = _outcome(lambda: 'b ) b' @ ns, (m.ExpressionSyntaxError,))
    return fails, "v1: 'b ) b' @ ns " + what


def repro_empty_call():
    ns, m = _ns()
    fails, what = _outcome(lambda: ns.eval_('f()b)'), (m.ExpressionSyntaxError,))
    return fails, "v1: ns.eval_('f()b)') " + what


def repro_empty_call_omitted():
    ns, m = _ns()
    fails, what = _outcome(lambda: 'f()-b)^2' @ ns, (m.ExpressionSyntaxError,))
    return fails, "v1: 'f()-b)^2' @ ns " + what


def repro_unknown_function():
    ns, m = _ns()
    fails, what = _outcome(lambda: ns.eval_('foo(b)'), (m.ExpressionSyntaxError,))
    return fails, "v1: ns.eval_('foo(b)') " + what


def repro_numeral_inferred():
    ns, m = _ns()
    f1, w1 = _outcome(lambda: ns.eval_('g_0(b)'), (m.ExpressionSyntaxError,))
    f2, w2 = _outcome(lambda: ns.eval_('?t_0 b'), (m.ExpressionSyntaxError,))
    return (f1 or f2), "v1: ns.eval_('g_0(b)') {}; ns.eval_('?t_0 b') {}".format(w1, w2)


def repro_highlight():
    ns, m = _ns()
    fails, what = _outcome(lambda: ns.eval_('b^_,i'), (m.ExpressionSyntaxError,))
    return fails, "v1: ns.eval_('b^_,i') " + what


def repro_sum_summed():
    ns, m = _ns()
    f1, w1 = _outcome(lambda: ns.eval_i('(b + a_i a_i) a_i'), (m.ExpressionSyntaxError,))
    f2, w2 = _outcome(lambda: ns.eval_i('(a_i a_i + b) a_i'), (m.ExpressionSyntaxError,))
    return f1, "v1: ns.eval_i('(b + a_i a_i) a_i') {} while ns.eval_i('(a_i a_i + b) a_i') {}".format(w1, w2)


REPRODUCERS = {'C19-v1-matmul-trailing-garbage': repro_trailing, 'C19-v1-empty-call-reparse': repro_empty_call,
               'C19-v1-empty-call-omitted-indices': repro_empty_call_omitted,
               'C19-v1-unknown-function-keyerror': repro_unknown_function, 'C19-v1-numeral-on-inferred-axis': repro_numeral_inferred,
               'C19-v1-highlight-typeerror': repro_highlight, 'C19-v1-sum-forgets-summed-indices': repro_sum_summed}
