"""C14 monitors: recording post-condition wrappers on the REAL nutils solver entry points.

Every wrapper calls the original function unchanged, lets its result or
exception through unchanged (monitors never alter control flow of the code
under test) and records into the module state ``S``:

* what happened (returned / accepted refusal MatrixError|SolverError / other
  exception type),
* whether the returned value meets what the call requested, recomputed
  independently with dense numpy from the call arguments and the matrix'
  ``export('dense')`` (C15 checks that export separately): finiteness,
  bit-equality of constrained entries, residual of the free rows against the
  REQUESTED tolerance.

Residual bands (``band``): with ``mag`` an upper estimate of the magnitude of
the terms that cancel in the residual, a result passes if ``r <= tol*(1+1e-9)
+ 1e-13*mag`` (about 30x the rounding error of a length-12 dot product), is a
violation if ``r > tol*1.001 + 1e-11*mag`` and is *marginal* (counted, never
reported) in between.  ``tol == 0`` ("machine precision", no number promised):
only finiteness and constraints are demanded, the backward error is recorded.
"""

import functools
import re
import signal
import numpy

EPS = float(numpy.finfo(float).eps)
MULTIRHS_CONS_FINDING = 'C14-multirhs-float-constrain-broadcast'
STEP_FINDING = 'C14-step-bisection-time-offset'


class WallWatchdog(BaseException):
    """raised by the SIGALRM handler; BaseException so that nutils' ``except Exception`` blocks do not swallow it"""


class RecLog:
    """treelog logger that only counts (and remembers the last few) warnings"""

    def __init__(self):
        self.nwarn = 0
        self.last = []

    def pushcontext(self, title):
        pass

    def popcontext(self):
        pass

    def recontext(self, title):
        pass

    def write(self, msg, level):
        if getattr(level, 'value', 0) >= 3:
            self.nwarn += 1
            self.last = (self.last + [str(msg)[:120]])[-5:]


class State:
    def __init__(self):
        self.res = None          # vlib.runner.Result of the worker
        self.pending = []        # (monitor, detail, mechanism) found while the current case runs
        self.oracle = None       # independent model of the System under test (see checks/c14.py)
        self.log = RecLog()
        self.depth = {}
        self.installed = False
        self.events = []         # short trace of monitored calls of the current case (for replay files)

    def begin(self):
        self.pending = []
        self.oracle = None
        self.depth = {}
        self.events = []

    def count(self, name, n=1):
        if self.res is not None:
            self.res.count(name, n)

    def maximum(self, name, v):
        if self.res is not None and numpy.isfinite(v):
            self.res.maximum(name, float(v))

    def add(self, name, item):
        if self.res is not None:
            self.res.add(name, item)

    def violate(self, monitor, detail, mechanism=None):
        self.count('violations_raw/' + monitor)
        if len(self.pending) < 8 and not any(m == monitor and k == mechanism for m, _, k in self.pending):
            self.pending.append((monitor, str(detail)[:1500], mechanism))

    def event(self, text):
        if len(self.events) < 40:
            self.events.append(text)


S = State()


def _alarm(signum, frame):
    raise WallWatchdog()


def arm(cpu_seconds, wall_seconds=None):
    """per-case watchdog: a CPU-time timer (SIGPROF, independent of machine load) plus a generous wall-clock alarm (SIGALRM) as backstop"""
    signal.signal(signal.SIGALRM, _alarm)
    signal.signal(signal.SIGPROF, _alarm)
    signal.setitimer(signal.ITIMER_PROF, float(cpu_seconds))
    signal.alarm(int(wall_seconds or 10 * cpu_seconds))


def disarm():
    signal.setitimer(signal.ITIMER_PROF, 0.)
    signal.alarm(0)


# ------------------------------------------------------------------ helpers

def band(r, tol, mag):
    """'pass' | 'marginal' | 'violation' for residual norm r against requested tol"""
    if not numpy.isfinite(r):
        return 'violation'
    if r <= tol * (1 + 1e-9) + 1e-13 * mag:
        return 'pass'
    if r > tol * 1.001 + 1e-11 * mag:
        return 'violation'
    return 'marginal'


def bits_equal(a, b):
    a = numpy.ascontiguousarray(a)
    b = numpy.ascontiguousarray(numpy.asarray(b).astype(a.dtype))
    return a.shape == b.shape and a.tobytes() == b.tobytes()


def colnorm(v):
    """max over columns of the 2-norm along axis 0 (what Matrix._solver uses)"""
    v = numpy.asarray(v)
    if v.size == 0:
        return 0.
    with numpy.errstate(all='ignore'):
        return float(numpy.max(numpy.linalg.norm(v, axis=0)))


def amax(v):
    v = numpy.asarray(v)
    if v.size == 0:
        return 0.
    with numpy.errstate(all='ignore'):
        return float(numpy.max(numpy.abs(v)))


def classify(e):
    """('accepted'|'other', label) for an exception escaping a solver entry point"""
    from nutils import matrix, solver
    name = type(e).__name__
    if isinstance(e, (matrix.MatrixError, solver.SolverError)):
        return 'accepted', name
    return 'other', name


def record_exception(where, e):
    kind, name = classify(e)
    if kind == 'accepted':
        S.count(f'{where}/refused/{name}')
        S.add('accepted_refusal_messages', f'{name}: ' + re.sub(r'[0-9]+', '#', str(e)[:60]))
    else:
        S.count(f'{where}/other-refusal/{name}')
        S.add('other_refusals', f'{where}: {name}: ' + re.sub(r'[0-9]+', '#', str(e)[:90]))
    S.event(f'{where} raised {name}: {str(e)[:80]}')


def guarded(where, fn, *args, **kw):
    """run a post-condition; an exception of the MONITOR itself must neither disturb the code under test nor go unnoticed"""
    try:
        return fn(*args, **kw)
    except WallWatchdog:
        raise
    except Exception:
        import traceback
        S.count('monitor_exceptions')
        if S.res is not None:
            S.res.note(f'monitor exception in {where}: ' + traceback.format_exc()[-380:])
        return None


def dense(M):
    return numpy.array(M.export('dense'))


# ------------------------------------------------------------------ Matrix.solve / _solver / solve_leniently

def solve_spec(M, rhs, lhs0, constrain, rconstrain, atol, rtol):
    """Independent restatement of what Matrix.solve is asked to do.

    Returns None if the call lies outside the monitored domain (non-finite
    input, shapes the documentation does not cover); otherwise a dict with the
    dense matrix, rhs, the start vector with constraints applied, free column
    mask J, free row mask I, requested tolerance."""
    A = dense(M)
    nrows, ncols = A.shape
    b = numpy.zeros(nrows, A.dtype) if rhs is None else numpy.asarray(rhs)
    if b.ndim not in (1, 2) or b.shape[0] != nrows or b.dtype.kind not in 'fc':
        return None
    tail = b.shape[1:]
    dtype = numpy.result_type(A.dtype, b.dtype)
    x0 = numpy.zeros((ncols,) + tail, dtype=dtype)
    if lhs0 is not None:
        l = numpy.asarray(lhs0)
        if l.ndim == 1 and tail:
            l = numpy.repeat(l[:, None], tail[0], axis=1)
        if l.shape != x0.shape or l.dtype.kind not in 'fc':
            return None
        x0 = l.astype(dtype)
    if constrain is None:
        J = numpy.ones(ncols, dtype=bool)
    else:
        c = numpy.asarray(constrain)
        if c.shape != (ncols,):
            return None
        if c.dtype == bool:
            J = ~c
        elif c.dtype.kind in 'fc':
            J = numpy.isnan(c)
            x0[~J] = c[~J].reshape((-1,) + (1,) * len(tail))
        else:
            return None
    if rconstrain is None:
        if nrows != ncols:
            return None
        I = J
    else:
        r = numpy.asarray(rconstrain)
        if r.shape != (nrows,) or r.dtype != bool or constrain is None or numpy.asarray(constrain).dtype != bool:
            return None
        I = ~r
    if not numpy.isfinite(x0).all():
        return None
    if not (numpy.isfinite(atol) and numpy.isfinite(rtol) and atol >= 0 and rtol >= 0):
        return None
    multi_float = bool(tail) and constrain is not None and numpy.asarray(constrain).dtype != bool and bool((~J).any())
    with numpy.errstate(all='ignore'):
        bred = (b - A @ x0)[I]
        bn = colnorm(bred)
    if not (numpy.isfinite(A).all() and numpy.isfinite(b).all() and numpy.isfinite(bred).all() and numpy.isfinite(bn)):
        # non-finite matrix/rhs, or norms that overflow: no residual statement, but a RETURNED vector must still be finite and honour the constraints
        return dict(A=A, b=b, x0=x0, J=J, I=I, tol=0., bred=bred, multi_float=multi_float, finite_only=True)
    tol = max(float(atol), float(rtol) * bn)
    return dict(A=A, b=b, x0=x0, J=J, I=I, tol=tol, bred=bred, multi_float=multi_float, finite_only=False)


def check_solve_result(where, spec, x, warned=None):
    """post-condition of Matrix.solve / solve_leniently for a returned x.  warned: None for solve;
    for solve_leniently True/False = a warning was emitted during the call."""
    A, b, x0, J, I, tol = spec['A'], spec['b'], spec['x0'], spec['J'], spec['I'], spec['tol']
    x = numpy.asarray(x)
    if x.shape != x0.shape:
        S.violate(where + ':shape', f'returned shape {x.shape}, expected {x0.shape}')
        return
    S.count(where + '/checked')
    if not numpy.isfinite(x).all():
        S.violate(where + ':non-finite', f'returned vector has non-finite entries: {x.tolist()}')
        return
    if (~J).any():
        S.count(where + '/constraint-checks')
        if not bits_equal(x[~J], x0[~J]):
            # known mechanism: NaN-float constraints combined with a multi-column rhs (values broadcast along the wrong axis)
            S.violate(where + ':constraint', f'constrained entries {x[~J].tolist()} != prescribed {x0[~J].tolist()}', MULTIRHS_CONS_FINDING if spec.get('multi_float') else None)
    if spec.get('finite_only'):
        S.count(where + '/nonfinite-input-finiteness-only')
        return
    with numpy.errstate(all='ignore'):
        r = colnorm((b - A @ x)[I])
    mag = A.shape[1] * amax(A) * (amax(x) + amax(x0)) + amax(b)
    if tol > 0:
        v = band(r, tol, mag)
        S.count(f'{where}/residual-{v}' if not (v == 'violation' and warned) else f'{where}/residual-above-tol-but-warned')
        if v == 'violation':
            if warned is None:
                S.violate(where + ':residual', f'returned with free-row residual {r:.3e} > requested tolerance {tol:.3e} (mag {mag:.1e})')
            elif not warned:
                S.violate(where + ':silent', f'returned without warning with free-row residual {r:.3e} > requested tolerance {tol:.3e}')
    else:
        S.count(where + '/machine-precision-requested')
        if mag > 0:
            S.maximum('backward_error_at_tol0', r / mag)
    return r


def wrap_matrix_solve(orig):
    @functools.wraps(orig)
    def solve(self, rhs=None, *, lhs0=None, constrain=None, rconstrain=None, solver='arnoldi', atol=0., rtol=0., **solverargs):
        where = 'Matrix.solve'
        try:
            spec = solve_spec(self, rhs, lhs0, constrain, rconstrain, atol, rtol)
        except Exception:
            spec = None
        S.count(where + '/calls')
        try:
            x = orig(self, rhs, lhs0=lhs0, constrain=constrain, rconstrain=rconstrain, solver=solver, atol=atol, rtol=rtol, **solverargs)
        except Exception as e:
            record_exception(where, e)
            if spec is not None and type(e).__name__ == 'ToleranceNotReached':
                best = getattr(e, 'best', None)
                # .best "carries the non-conforming solution": same shape, constraints applied
                if best is not None and numpy.shape(best) == spec['x0'].shape and (~spec['J']).any():
                    S.count(where + '/best-constraint-checks')
                    if numpy.isfinite(best).all() and not bits_equal(numpy.asarray(best)[~spec['J']], spec['x0'][~spec['J']]):
                        S.violate(where + ':best-constraint', 'ToleranceNotReached.best violates the constraints', MULTIRHS_CONS_FINDING if spec.get('multi_float') else None)
            raise
        S.count(where + '/returned')
        if spec is None:
            S.count(where + '/outside-domain')
        else:
            guarded(where, check_solve_result, where, spec, x)
        return x
    solve._c14_wrapped = True
    return solve


def wrap_matrix_solve_leniently(orig):
    @functools.wraps(orig)
    def solve_leniently(self, *args, **kwargs):
        where = 'Matrix.solve_leniently'
        S.count(where + '/calls')
        try:
            spec = solve_spec(self, args[0] if args else kwargs.get('rhs'), kwargs.get('lhs0'), kwargs.get('constrain'), kwargs.get('rconstrain'),
                              kwargs.get('atol', 0.), kwargs.get('rtol', 0.)) if len(args) <= 1 else None
        except Exception:
            spec = None
        before = S.log.nwarn
        try:
            x = orig(self, *args, **kwargs)
        except Exception as e:
            record_exception(where, e)
            if type(e).__name__ == 'ToleranceNotReached':
                S.violate(where + ':raised', 'solve_leniently raised ToleranceNotReached instead of warning')
            raise
        warned = S.log.nwarn > before
        S.count(where + '/returned')
        if warned:
            S.count(where + '/warned')
        if spec is None:
            S.count(where + '/outside-domain')
        else:
            guarded(where, check_solve_result, where, spec, x, warned=warned)
        return x
    solve_leniently._c14_wrapped = True
    return solve_leniently


def check_solver_result(where, M, rhs, solver, atol, rtol, solverargs, x):
    A = dense(M)
    b = numpy.asarray(rhs)
    if b.ndim not in (1, 2):
        S.count(where + '/outside-domain')
        return
    if not (numpy.isfinite(A).all() and numpy.isfinite(b).all() and numpy.isfinite(atol) and numpy.isfinite(rtol) and numpy.isfinite(colnorm(b))):
        # garbage in: the only thing still demanded of a RETURNED vector is finiteness
        S.count(where + '/nonfinite-input-finiteness-only')
        if numpy.shape(x) == b.shape and not numpy.isfinite(x).all():
            S.violate(where + ':non-finite', 'returned non-finite left hand side (non-finite input)')
        return
    S.count(where + '/checked')
    S.add('linear_solvers_returned', f'{type(M).__name__}:{solver if isinstance(solver, str) else "callable"}:{solverargs.get("precon", "-")}')
    xa = numpy.asarray(x)
    if xa.shape != b.shape:
        S.violate(where + ':shape', f'returned shape {xa.shape} for rhs shape {b.shape}')
        return
    if not numpy.isfinite(xa).all():
        S.violate(where + ':non-finite', 'returned non-finite left hand side')
        return
    bn = colnorm(b)
    tol = max(float(atol), float(rtol) * bn)
    if not numpy.isfinite(tol):
        S.count(where + '/outside-domain')
        return
    with numpy.errstate(all='ignore'):
        r = colnorm(b - A @ xa)
    mag = A.shape[1] * amax(A) * amax(xa) + amax(b)
    if bn <= tol:
        S.count(where + '/rhs-within-tolerance' + ('-zero' if bn == 0 else '-nonzero'))
    if tol > 0:
        v = band(r, tol, mag)
        S.count(f'{where}/residual-{v}')
        if v == 'violation':
            S.violate(where + ':residual', f'returned with residual {r:.3e} > max(atol, rtol*|b|) = {tol:.3e} (solver {solver!r}, args {sorted(solverargs)})')
    else:
        S.count(where + '/machine-precision-requested')
        if mag > 0:
            S.maximum('backward_error_at_tol0', r / mag)


def wrap_matrix_solver(orig):
    @functools.wraps(orig)
    def _solver(self, rhs, solver, *, atol, rtol, **solverargs):
        where = 'Matrix._solver'
        S.count(where + '/calls')
        try:
            x = orig(self, rhs, solver, atol=atol, rtol=rtol, **solverargs)
        except Exception as e:
            record_exception(where, e)
            raise
        S.count(where + '/returned')
        guarded(where, check_solver_result, where, self, rhs, solver, atol, rtol, solverargs, x)
        return x
    _solver._c14_wrapped = True
    return _solver


# ------------------------------------------------------------------ System level

def system_free_and_prescribed(system, arguments, constrain):
    """Mirror of the documented meaning of arguments/constrain: per trial a boolean mask of constrained
    entries and their prescribed values.  Returns dict trial -> (mask, values) or None if outside domain."""
    out = {}
    for t, shape in zip(system.trials, system.trial_shapes):
        shape = tuple(int(n) for n in shape)
        a = arguments.get(t)
        c = constrain.get(t)
        if a is not None:
            a = numpy.asarray(a)
            if a.shape != shape:
                return None
        if c is None:
            mask = numpy.zeros(shape, dtype=bool)
            vals = numpy.zeros(0)
        else:
            c = numpy.asarray(c)
            if c.shape != shape:
                return None
            if c.dtype == bool:
                mask = c
                vals = a[c] if a is not None else numpy.zeros(int(c.sum()))
            elif c.dtype.kind == 'f':
                mask = ~numpy.isnan(c)
                vals = c[mask]
            else:
                return None
        out[t] = (mask, vals)
    return out


def check_system_result(where, system, out, arguments, constrain, tol, oracle_key='residual'):
    """post-condition for a returned argument dict of a System solve"""
    pres = system_free_and_prescribed(system, arguments, constrain)
    if pres is None:
        S.count(where + '/outside-domain')
        return
    S.count(where + '/checked')
    free = []
    for t, shape in zip(system.trials, system.trial_shapes):
        if t not in out:
            S.violate(where + ':missing', f'trial argument {t!r} missing from the returned arguments')
            return
        v = numpy.asarray(out[t])
        if v.shape != tuple(int(n) for n in shape):
            S.violate(where + ':shape', f'{t}: shape {v.shape} != {tuple(shape)}')
            return
        if not numpy.isfinite(v).all():
            S.violate(where + ':non-finite', f'{t} has non-finite entries: {v.tolist()}')
            return
        mask, vals = pres[t]
        if mask.any():
            S.count(where + '/constraint-checks')
            if not bits_equal(v[mask], vals):
                S.violate(where + ':constraint', f'{t}: constrained entries {v[mask].tolist()} != prescribed {numpy.asarray(vals).tolist()}')
        free.append(~mask.ravel())
    free = numpy.concatenate(free) if free else numpy.zeros(0, bool)
    orc = S.oracle
    if not orc or tuple(orc['trials']) != tuple(system.trials) or oracle_key not in orc:
        S.count(where + '/no-oracle')
        return
    with numpy.errstate(all='ignore'):
        rvec, mag = orc[oracle_key](out)
        if len(rvec) != len(free):
            S.count(where + '/no-oracle')
            return
        rn = float(numpy.linalg.norm(numpy.asarray(rvec)[free])) if free.any() else 0.
    S.count(where + '/oracle-evaluated')
    if tol > 0:
        v = band(rn, tol, mag)
        S.count(f'{where}/residual-{v}')
        if v == 'violation':
            mech = 'C14-nan-residual-returns-guess' if numpy.isnan(rn) else None
            S.violate(where + ':residual', f'returned with free residual norm {rn:.3e} > requested tol {tol:.3e}; returned {({t: numpy.asarray(out[t]).tolist() for t in system.trials})}', mech)
    else:
        S.count(where + '/machine-precision-requested')
        if mag > 0:
            S.maximum('system_backward_error_at_tol0', rn / mag)
    return rn


def wrap_system_solve(orig):
    @functools.wraps(orig)
    def solve(self, **kw):
        where = 'System.solve'
        S.count(where + '/calls')
        S.add('methods', str(kw.get('method')) if kw.get('method') is not None else 'default')
        try:
            out = orig(self, **kw)
        except Exception as e:
            record_exception(where, e)
            raise
        S.count(where + '/returned')
        guarded(where, check_system_result, where, self, out, kw.get('arguments', {}), kw.get('constrain', {}), float(kw.get('tol', 0.)))
        return out
    solve._c14_wrapped = True
    return solve


def wrap_system_step(orig):
    @functools.wraps(orig)
    def step(self, **kw):
        where = 'System.step'
        stack = S.depth.setdefault('stepstack', [])
        d = len(stack)
        S.count(where + ('/calls' if d == 0 else '/bisection-substeps'))
        S.maximum('step_bisection_depth', d)
        if d == 0:
            S.depth['bisect_sum'] = 0.
            S.depth['bisected'] = 0
        else:
            S.depth['bisected'] = S.depth.get('bisected', 0) + 1
            if not stack[-1]['marked']:    # the enclosing step failed and is retrying with half its timestep
                stack[-1]['marked'] = True
                S.depth['bisect_sum'] = S.depth.get('bisect_sum', 0.) + float(stack[-1]['timestep'] or 0.)
        stack.append(dict(timestep=kw.get('timestep'), marked=False))
        try:
            out = orig(self, **kw)
        except Exception as e:
            if d == 0:
                record_exception(where, e)
            raise
        finally:
            stack.pop()
        if d == 0:
            S.count(where + '/returned')
            guarded(where, check_step_result, where, kw, out)
        return out
    step._c14_wrapped = True
    return step


def check_step_result(where, kw, out):
    timearg, timestep = kw.get('timearg'), kw.get('timestep')
    if not timearg or timestep is None:
        return
    t0 = float(numpy.asarray(kw.get('arguments', {}).get(timearg, 0.)))
    t1 = float(numpy.asarray(out.get(timearg, numpy.nan)))
    S.count(where + '/time-checks')
    scale = max(1., abs(t0), abs(timestep))
    if not abs(t1 - (t0 + timestep)) <= 1e-9 * scale:
        # known mechanism: every retry after a failed (sub)step starts from the already advanced time, so the final time
        # overshoots by exactly the sum of the time steps of the failed (sub)steps
        known = S.depth.get('bisected') and abs(t1 - (t0 + timestep + S.depth.get('bisect_sum', 0.))) <= 1e-9 * scale
        S.violate(where + ':time', f'{timearg} advanced from {t0} to {t1}, requested step {timestep} ({S.depth.get("bisected", 0)} bisection sub-steps, '
                  f'failed steps sum to {S.depth.get("bisect_sum", 0.)})', STEP_FINDING if known else None)


def constraints_expectation(system, arguments, constrain, droptol, orc):
    """Dense recomputation of what System.solve_constraints documents: among the free entries, NaN exactly
    where the column of the free-free jacobian block has no entry exceeding droptol in absolute value."""
    pres = system_free_and_prescribed(system, arguments, constrain)
    if pres is None:
        return None
    A, b = orc['linear']
    free = numpy.concatenate([~pres[t][0].ravel() for t in system.trials])
    Aff = A[numpy.ix_(free, free)]
    colmax = numpy.abs(Aff).max(axis=0) if Aff.shape[0] else numpy.zeros(Aff.shape[1])
    marginal = bool(numpy.any(numpy.abs(numpy.abs(Aff) - droptol) <= 1e-9 * max(droptol, 1e-300))) if droptol > 0 else False
    nanfree = colmax <= droptol
    expect_nan = numpy.zeros(len(free), dtype=bool)
    expect_nan[free] = nanfree
    return dict(pres=pres, free=free, expect_nan=expect_nan, marginal=marginal, A=A, b=b)


def check_constraints_result(where, self, kw, out):
    orc = S.oracle
    if not orc or 'linear' not in orc or tuple(orc['trials']) != tuple(self.trials):
        S.count(where + '/no-oracle')
        return
    arguments, constrain, droptol = kw.get('arguments', {}), kw.get('constrain', {}), kw['droptol']
    linargs = kw.get('linargs', {})
    exp = constraints_expectation(self, arguments, constrain, float(droptol), orc)
    if exp is None:
        S.count(where + '/outside-domain')
        return
    S.count(where + '/checked')
    got = numpy.concatenate([numpy.asarray(out[t], dtype=float).ravel() for t in self.trials])
    gotnan = numpy.isnan(got)
    if exp['marginal']:
        S.count(where + '/droptol-marginal')
    elif (gotnan != exp['expect_nan']).any():
        S.violate(where + ':nan-pattern', f'NaN pattern {gotnan.astype(int).tolist()} != expected {exp["expect_nan"].astype(int).tolist()} (droptol {droptol})')
        return
    else:
        S.count(where + '/nan-pattern-ok')
        if gotnan.any() and not gotnan.all():
            S.count(where + '/nan-pattern-nontrivial')
    if not numpy.isfinite(got[~gotnan]).all():
        S.violate(where + ':non-finite', f'non-NaN entries are not finite: {got.tolist()}')
        return
    ofs = 0
    x_init = []
    for t, shape in zip(self.trials, self.trial_shapes):
        mask, vals = exp['pres'][t]
        v = numpy.asarray(out[t])
        if mask.any():
            S.count(where + '/constraint-checks')
            if not bits_equal(v[mask], vals):
                S.violate(where + ':constraint', f'{t}: constrained entries {v[mask].tolist()} != prescribed {numpy.asarray(vals).tolist()}')
        a = arguments.get(t)
        x_init.append(numpy.zeros(mask.size) if a is None else numpy.asarray(a, dtype=float).ravel())
    x_init = numpy.concatenate(x_init)
    # residual of the retained rows, dropped entries held at their initial value
    x = numpy.where(gotnan, x_init, got)
    xstart = x_init.copy()
    fixed = ~exp['free']
    xstart[fixed] = got[fixed]
    rows = exp['free'] & ~gotnan
    A, b = exp['A'], exp['b']
    with numpy.errstate(all='ignore'):
        r = float(numpy.linalg.norm((A @ x - b)[rows])) if rows.any() else 0.
        bred = float(numpy.linalg.norm((A @ xstart - b)[rows])) if rows.any() else 0.
    tol = max(float(linargs.get('atol', 0.)), float(linargs.get('rtol', 0.)) * bred)
    mag = len(x) * amax(A) * (amax(x) + amax(xstart)) + amax(b)
    if tol > 0:
        v = band(r, tol, mag)
        S.count(f'{where}/residual-{v}')
        if v == 'violation':
            S.violate(where + ':residual', f'retained-row residual {r:.3e} > requested {tol:.3e}')
    elif mag > 0:
        S.maximum('constraints_backward_error_at_tol0', r / mag)
    return

def wrap_system_solve_constraints(orig):
    @functools.wraps(orig)
    def solve_constraints(self, **kw):
        where = 'System.solve_constraints'
        S.count(where + '/calls')
        try:
            out = orig(self, **kw)
        except Exception as e:
            record_exception(where, e)
            raise
        S.count(where + '/returned')
        guarded(where, check_constraints_result, where, self, kw, out)
        return out
    solve_constraints._c14_wrapped = True
    return solve_constraints


def wrap_solve_withinfo(orig):
    @functools.wraps(orig)
    def solve_withinfo(self, tol, maxiter=float('inf'), miniter=0):
        where = 'legacy.solve_withinfo'
        S.count(where + '/calls')
        S.add('methods', 'legacy:' + str(self.method))
        try:
            lhs, info = orig(self, tol, maxiter, miniter)
        except Exception as e:
            record_exception(where, e)
            raise
        S.count(where + '/returned')
        out = lhs if self.item is None else {**{k: v for k, v in self.arguments.items()}, self.item: lhs}
        if self.item is not None and len(self.system.trials) != 1:
            S.count(where + '/outside-domain')
            return lhs, info
        guarded(where, check_system_result, where, self.system, out, self.arguments, self.constrain, float(tol))
        return lhs, info
    solve_withinfo._c14_wrapped = True
    return solve_withinfo


def install():
    """rebind the real entry points to recording wrappers (idempotent); no repository edit"""
    if S.installed:
        return
    from nutils import matrix, solver
    M = matrix.Matrix
    M.solve = wrap_matrix_solve(M.__dict__['solve'])
    M.solve_leniently = wrap_matrix_solve_leniently(M.__dict__['solve_leniently'])
    M._solver = wrap_matrix_solver(M.__dict__['_solver'])
    Sy = solver.System
    Sy.solve = wrap_system_solve(Sy.__dict__['solve'])
    Sy.step = wrap_system_step(Sy.__dict__['step'])
    Sy.solve_constraints = wrap_system_solve_constraints(Sy.__dict__['solve_constraints'])
    W = solver._with_solve
    W.solve_withinfo = wrap_solve_withinfo(W.__dict__['solve_withinfo'])
    S.installed = True
