#!/bin/sh
# Offline setup: third-party tools from the wheelhouse into the git-ignored .deps.
set -e
cd "$(dirname "$0")"
if [ ! -d .deps/jsonschema ] || [ ! -d .deps/icontract ] || [ ! -d .deps/scipy ]; then
  rm -rf .deps
  PIP_NO_INDEX=1 /venv/bin/pip install -q --no-index --find-links /opt/veriftools/wheels --target .deps icontract deal jsonschema
  PIP_NO_INDEX=1 /venv/bin/pip install -q --no-index --find-links /opt/veriftools/wheels --target .deps --no-deps scipy
fi
mkdir -p evidence replays
/venv/bin/python - <<'PY'
import sys
sys.path.append('.deps')
import numpy, jsonschema, icontract, scipy
print('setup ok: numpy', numpy.__version__, 'scipy', scipy.__version__, 'icontract', icontract.__version__)
PY
