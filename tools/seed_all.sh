#!/bin/bash
# evaluate every seeded change against its own property's check and the extra checks listed in seeded/<id>/also (if any)
cd /verif
for d in seeded/*/; do
  id=$(basename $d); prop=${id%%-*}
  extra=""; [ -f $d/also ] && extra=$(cat $d/also)
  echo "== $id"; tools/seed_eval.py $d $prop $extra
done
