#!/venv/bin/python
"""Apply one planted break (old -> new in a file) to the scratch worktree, run a check against it, revert.
usage: tools/planted.py <worktree> <CHECK> <file> <<< JSON [{"old":..., "new":...}]   (reads a JSON list of breaks from stdin)"""
import sys, json, subprocess, os
wt, check = sys.argv[1], sys.argv[2]
breaks = json.load(sys.stdin)
env = dict(os.environ, VERIF_REPO=wt, VERIF_SCALE=os.environ.get('VERIF_SCALE', '0.25'))
for b in breaks:
    path = os.path.join(wt, b['file'])
    s = open(path).read()
    if s.count(b['old']) != 1:
        print('SKIP (pattern count %d): %s' % (s.count(b['old']), b['name']))
        continue
    open(path, 'w').write(s.replace(b['old'], b['new']))
    try:
        r = subprocess.run(['./check', check, '--tier', 'quick', '--no-evidence', '--workers', os.environ.get('PB_WORKERS', '8')], cwd='/verif', env=env, capture_output=True, text=True, timeout=1500)
        out = r.stdout
        nviol = out.count('VIOLATION property=')
        mons = sorted({l.split('monitor=')[1].split(' mechanism')[0] for l in out.splitlines() if 'monitor=' in l})
        print(f"{b['name']}: exit={r.returncode} violations={nviol} monitors={mons[:3]}")
        if r.returncode not in (1,):
            print('   ', out.strip().splitlines()[-1][:300] if out.strip() else r.stderr[-300:])
    finally:
        subprocess.run(['git', '-C', wt, 'checkout', '--', b['file']])
