#!/venv/bin/python
"""Evaluate one seeded change: tools/seed_eval.py <seeded-dir> CHECK [CHECK...]
Applies <dir>/patch.diff to /repo, runs <dir>/demo.py (must exit 1), runs the given checks (quick tier, no evidence),
reverts /repo, runs demo.py again (must exit 0).  Prints one line per check.
With SEED_WORKTREE=1 the patch is applied to a throw-away git worktree of /repo's HEAD (under /var/tmp) and the checks are
pointed at it with VERIF_REPO, so that /repo is never touched (for use while other runs read /repo)."""
import sys, os, subprocess, json, time
d = os.path.abspath(sys.argv[1])
checks = sys.argv[2:]
tier = os.environ.get('SEED_TIER', 'quick')
def sh(cmd, **kw):
    return subprocess.run(cmd, shell=True, capture_output=True, text=True, **kw)
RESULTS = {}
WT = os.environ.get('SEED_WORKTREE') and f'/var/tmp/wt_seed_{os.getpid()}'
TARGET = WT or '/repo'
if WT:
    assert sh(f'git -C /repo worktree add -q --detach {WT} HEAD').returncode == 0
else:
    assert sh('git -C /repo status --porcelain').stdout.strip() == '', '/repo not clean'
r = sh(f'git -C {TARGET} apply {d}/patch.diff')
if r.returncode:
    print('PATCH DOES NOT APPLY:', r.stderr[-300:]); sys.exit(2)
try:
    dm = sh(f'NUTILS_SRC={TARGET}/src PYTHONDONTWRITEBYTECODE=1 PYTHONPYCACHEPREFIX=/var/tmp/seedpyc OMP_NUM_THREADS=1 timeout 600 /venv/bin/python {d}/demo.py')
    print(f'demo with change: exit={dm.returncode} {(dm.stdout.strip().splitlines() or [""])[-1][:200]}')
    for c in checks:
        t0 = time.time()
        r = sh(f'cd /verif && VERIF_REPO={TARGET} timeout 3000 ./check {c} --tier {tier} --no-evidence' + (f' --workers {os.environ["SEED_WORKERS"]}' if os.environ.get('SEED_WORKERS') else ''))
        out = r.stdout
        mons = sorted({l.split('monitor=')[1].split(' mechanism')[0] for l in out.splitlines() if 'monitor=' in l})
        verdict = [l for l in out.splitlines() if l.startswith(('HELD', 'INCONCLUSIVE', 'HARNESS'))]
        print(f'{c}: exit={r.returncode} violations={out.count("VIOLATION property=")} wall={time.time()-t0:.0f}s monitors={mons[:4]} {verdict[:1]}')
        RESULTS[c] = dict(tier=tier, exit=r.returncode, violations=out.count('VIOLATION property='), monitors=mons[:6], caught=r.returncode == 1)
finally:
    if WT:
        sh(f'git -C /repo worktree remove --force {WT}; git -C /repo worktree prune')
    else:
        sh('git -C /repo checkout -- .')
try:
    ev = json.load(open(d + '/eval.json'))
except Exception:
    ev = {}
ev.setdefault('repo_head', sh('git -C /repo log --format=%h -1').stdout.strip())
ev['demo_with_change_exit'] = dm.returncode
ev.setdefault('checks', {}).update(RESULTS)
dm2 = sh(f'NUTILS_SRC=/repo/src PYTHONDONTWRITEBYTECODE=1 PYTHONPYCACHEPREFIX=/var/tmp/seedpyc OMP_NUM_THREADS=1 timeout 600 /venv/bin/python {d}/demo.py')
print(f'demo without change: exit={dm2.returncode}')
ev['demo_without_change_exit'] = dm2.returncode
json.dump(ev, open(d + '/eval.json', 'w'), indent=1)
