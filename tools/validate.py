#!/venv/bin/python
"""Validate MANIFEST.json and every evidence file against the harness schemas."""
import json, sys, os, glob
here = os.path.dirname(os.path.dirname(os.path.abspath(__file__)))
sys.path.append(os.path.join(here, '.deps'))
import jsonschema
m = json.load(open(os.path.join(here, 'MANIFEST.json')))
jsonschema.validate(m, json.load(open('/root/.vp/MANIFEST.schema.json')))
props = [json.loads(l)['id'] for l in open(os.path.join(here, 'properties.jsonl'))]
claimed = [c['property_id'] for c in m['checks']]
na = [c['property_id'] for c in m.get('not_applicable', [])]
assert sorted(claimed + na) == sorted(props), (sorted(claimed + na), props)
es = json.load(open('/root/.vp/EVIDENCE.schema.json'))
for c in m['checks']:
    f = c['evidence_file']
    if os.path.exists(f):
        jsonschema.validate(json.load(open(f)), es)
        print('evidence ok', f)
    else:
        print('evidence MISSING', f)
print('manifest ok:', len(claimed), 'claimed,', len(na), 'not claimed')
