#!/venv/bin/python
"""Regenerate MANIFEST.json from the table below (claimed checks) — everything not listed is put under not_applicable
with the reason given in PENDING."""
import json, os, subprocess, sys
here = os.path.dirname(os.path.dirname(os.path.abspath(__file__)))
props = [json.loads(l) for l in open(os.path.join(here, 'properties.jsonl'))]

GEV_NOTE = ('trusted base: the shadow numpy interpreter of vlib/evgen.py (self-tested against plain numpy, cross-checked on every case by the '
            'un-simplified evaluation), numpy itself, nutils_poly for polynomial evaluation; programs are sampled, argument values are sampled; '
            'float bands 1e-9 pass / 1e-5 violation relative to the largest intermediate')

CHECKS = {
 'C01': dict(level='exploration',
   text='Held on N random typed expression DAGs (about 45 operator kinds incl. loops, scatter/gather, diagonals, powers, FEM-assembly composites, bool/int/float/complex, shared subterms) plus all operator pairs (thorough: triples), Op(balanced sums of arrays scattered by shared index maps) also under a loop sum, and sibling pairs f(K1(x), K2(y)): the real simplifier is run under a rewrite-step counter (5e4 steps nominate, a second run with 1e6 steps convicts; wall clock only nominates, a line clock confirms) and its result, compiled with no further pass, is compared with an independent numpy shadow of the generating recipe at k in-domain argument assignments; thorough additionally re-evaluates sampled single rewrite steps on both sides. Exploration by sampling is the right level: the property quantifies over an unbounded program space and only executions can refute it; termination is restated as bounded progress.',
   note=GEV_NOTE + '; a line-budget overrun without cycle evidence is an unresolved suspect (counted, never a verdict); one open ledger mechanism (Diagonalize/Inflate rewrite cycle) is recognised by its call-site signature',
   technique='reference-model monitor (shadow numpy interpreter) + rewrite-step counter / line clock (logical budgets) + per-step rewrite monitor + rule-firing coverage counters', ref='DESIGN.md §3 C01, §7'),
 'C02': dict(level='exploration',
   text='Held on N random programs (tuples of expressions with nested/adjacent/fusable loops, shared subterms, scatter chains) each compiled and run under up to 12 compile configurations (_simplify x _optimize x cache_const_intermediates x stats x maxprocs x nutils evalf assertions, and a cached function whose first calls failed for lack of an argument), every output compared in structure, shape, dtype kind and value with the numpy shadow; loop-free intermediates of the raw compile are compared too through the NUTILS_VERIF observer hook; generated scripts are captured and the code shapes exercised (in-place add, add.at, loops, locks, first_run) are reported and required.',
   note=GEV_NOTE + '; programs whose simplification does not terminate are C01 events and skipped; maxprocs>1 only for programs with an outer loop, sampled',
   technique='differential translation monitoring: compiled function vs shadow interpreter across the configuration matrix + observer hook on intermediates + script capture', ref='DESIGN.md §3 C02'),
 'C03': dict(level='exploration',
   text='Held on N call histories (3-8 calls: identical dict, equal copy, one/all arguments changed, caller mutates an argument in place, extra arguments, list/0-d forms, revisit) on ONE compiled function with constant-intermediate caching, each call compared with the shadow for the current argument contents (and with a fresh compile on mismatch); arguments are passed read-only or byte-snapshotted; every writable array returned earlier is poisoned before the next call; library scenarios drive System/Basis tables/locate/integrals/trim-with-arguments repeatedly.',
   note=GEV_NOTE + '; returned arrays that share memory with a caller-owned argument are not poisoned',
   technique='history monitor against an executable model (fresh compile + shadow) + argument sanitizer (read-only / snapshots) + result poisoning', ref='DESIGN.md §3 C03'),
 'C04': dict(level='exploration',
   text='Held on N (expression, argument) pairs: the real evaluable.derivative is evaluated raw and through the default pipeline and compared with the Jacobian of the numpy shadow obtained by 6th-order central differences at two step sizes that must agree; stencils that leave the domain or cross a kink (branch trace of the shadow) are skipped and counted; shape = expr.shape+arg.shape and identically zero derivatives of int/bool expressions are asserted; thorough adds second derivatives as derivatives of the verified first derivative; a function.Custom family checks user-defined operations against the numerical Jacobian of their numpy meaning.',
   note='reference = finite differences of the shadow (independent of nutils evaluation); pass 1e-6 / violation 1e-4 relative; one open ledger mechanism (determinant derivative NaN at singular matrices); function.derivative plumbing is covered by C13',
   technique='numerical-Jacobian oracle on an independent shadow interpreter, with kink/domain tracing', ref='DESIGN.md §3 C04'),
 'C05': dict(level='exploration',
   text='Held on N programs with a sparsity profile plus FEM integrals on small meshes: the tuples returned by the real assparse / as_csr / function.as_coo / as_csr are checked against a contract (indices in range, strictly lexicographic, CSR pointer monotone with right ends, strictly increasing columns, dtype, 0-d form), scattering them must reproduce the dense shadow value (or dense evaluation for FEM integrals), the un-merged chunk form must add up to the same array, and matrix.assemble_csr must accept the CSR data.',
   note=GEV_NOTE, technique='contract monitor on the returned COO/CSR tuples + dense reference model', ref='DESIGN.md §3 C05'),
 'C06': dict(level='exploration',
   text='Held on a systematic integer-pair family (9 binary integer operations x 10 x 10 operand archetypes with tight ranges) and N integer-heavy and general programs: for every array that materialises in generated code (observer hook, every loop iteration, raw and default pipelines, nutils evalf assertions on) and for every distinct sub-node of the raw/simplified/optimised DAG evaluated stand-alone with loop indices bound, the announced ndim, shape (constant or computed), dtype and inferred integer range are compared with the evaluated value of that same node; outputs are re-evaluated with exactly the announced arguments and with the others perturbed.',
   note='self-consistency monitor: the oracle is the announced metadata itself; integer ranges are checked on sampled values, half of them at the extremes of their declared ranges',
   technique='invariant at a hook (NUTILS_VERIF observer in generated code) + stand-alone node walk + argument-dependence experiments', ref='DESIGN.md §3 C06'),
 'C11': dict(level='exploration',
   text="Held on N construction histories (11 mesh kinds x <=4 topology operations) whose transforms/opposites/boundary/interfaces sequences, slices, masks, reorders, refined()/edges() derivations and chainings are compared with a plain list model (len/iter/getitem; index/index_with_tail/contains of sampled elements with random child/edge tails <=4 in literal, canonical, uppermost and promoted form, re-created and pickled items, GC between construction and lookup, chains not in the sequence); a recording post-condition on every index_with_tail implementation (also on nutils' own calls); f_index/f_coords against the sample's own element numbers and points on own, boundary, interface (both sides) and refined samples; zero jump of continuous fields across interfaces; canonical/uppermost/promote compared by numpy evaluation on random chains <=6 over 11 references plus exhaustive depth <=3 enumeration; locate() in input order within tolerance for inside targets, LocateError/skip_missing for outside targets, on affine, diagonal, argument-dependent and curved polynomial geometries over the structured-affine, Newton, subset and manifold paths. Sampling, not proof.",
   note="Oracles: list(seq), numpy composition of item.linear/offset, sample points, sample.eval(geom). Membership of foreign chains in sequences with fromdims<todims is judged only by soundness of positive answers. Element-boundary targets are demanded only with eps>0 and without subset post-processing. Off-manifold targets are asserted only for tol-only requests. maxprocs=1 (parallel is C16). Product topologies and gmsh are not covered. One open ledger entry, C11-locate-manifold-eps-corner.",
   technique='reference-model monitor (tuple model) + recording contract on index_with_tail via class-attribute rebinding + metamorphic affine-map equality + round-trip locate oracle + exhaustive small-scope swap enumeration', ref='DESIGN.md §3 C11'),
 'C14': dict(level='exploration',
   text='Held on N random small linear and nonlinear problems (five generator families, every solver x preconditioner name of the numpy and scipy backends, all System methods and legacy wrappers, time stepping with bisection, boundary projection): every call that returned was re-checked with dense numpy for finiteness, bit-exact constraints, free-row residual against the requested tolerance, NaN pattern against droptol and, for linear problems, independence of the initial guess; refusals were classified by exception type. Sampling with a dense reference, not proof - the right level for an input-quantified numerical post-condition.',
   note='dense numpy recomputation as reference; scipy from the offline wheelhouse as second backend, MKL not covered; at atol=rtol=0 only finiteness, constraints and initial-guess independence (cond*eps for factorisations, cond^2*eps for inexact-preconditioned arnoldi) are demanded; termination not judged (solves bounded by maxiter, per-case CPU-time watchdog => inconclusive for that case)',
   technique='recording post-condition wrappers on the real Matrix.solve/_solver/solve_leniently, System.solve/step/solve_constraints, _with_solve.solve_withinfo + independent numpy oracle of each generated residual + two-initial-guess differential + deterministic ledger reproducers', ref='DESIGN.md §3 C14'),
 'C15': dict(level='exploration',
   text='Held on N random matrices x all available backends x random operation sequences, each step compared entry-wise with a dense numpy model, plus single-fault mutations of valid CSR input that must be rejected; sampling, not proof: the right level for an input-quantified data-structure contract.',
   note='numpy dense arithmetic as reference; scipy from the offline wheelhouse as second backend; MKL not covered',
   technique='reference-model monitor (dense numpy) in lock-step over random operation sequences + backend differential + rejection monitor', ref='DESIGN.md §3 C15'),
 'C16': dict(level='exploration',
   text='Held on N traced fork-parallel evaluations - random evaluable programs with 1-3 outer loops (loop_sum/loop_concatenate over Inflate, Diagonalize, outer products, transposes, several loops added into one output, nested inner loops, loops reading an earlier loop\'s shared result, run-time loop lengths 0-7, int and float) and topology integrate / sample.eval / as_coo / as_csr / locate calls, each under maxprocs(n), n in {2,3,5,8}, x >= 5 schedule perturbations - whose value equals the maxprocs(1) value, whose claim log shows every iteration claimed exactly once, whose every write to a shared array and to the claim counter happened under a common traced lock (Eraser lockset), whose shared arrays are mmap-backed and whose workers were all joined; plus K single-victim fault injections (exception, SIGKILL before/after a claim, exception in the parent) that all made the call raise. Exploration of the interleavings actually produced under perturbation (counted and reported), not a proof over all schedules.',
   note='Lockset results generalise over schedules only for the writes observed; workers are killed only at claim boundaries where no nutils lock is held, and a hang is reported as inconclusive (bounded progress), never as a violation; Linux fork + anonymous mmap only',
   technique='event-log runtime monitoring (traced shared ndarray subclass, traced Lock/RawValue proxies, wrapped parallel.range) + offline checkers (exactly-once, lockset, ownership, visibility, join) + serial-vs-parallel differential under schedule perturbation + subprocess-isolated fault injection', ref='DESIGN.md §3 C16'),
}
EXTRA = os.path.join(here, 'tools', 'manifest_extra.json')
if os.path.exists(EXTRA):
    CHECKS.update(json.load(open(EXTRA)))

hooks_commit = subprocess.run(['git', '-C', '/repo', 'log', '--format=%h', '--grep=verif hook', '-1'], capture_output=True, text=True).stdout.strip() or 'ebd646e'
m = {"version": 1, "setup_cmd": "./setup.sh",
     "hooks": {"guard": "NUTILS_VERIF", "enable": "pure Python: checks export NUTILS_VERIF=1 before importing nutils from /repo/src (no build step)",
               "baseline_off_cmd": "cd /repo && env -u NUTILS_VERIF /venv/bin/python -m pytest -ra -q -p no:cacheprovider --timeout=900 --continue-on-collection-errors",
               "source_commits": [hooks_commit], "add_only": True},
     "engines": [{"name": "vlib.runner", "path": "vlib/runner.py", "serves_properties": sorted(CHECKS),
                  "kind_free_text": "sharded subprocess driver: runs the real nutils code under generated workloads with monitors attached, merges observations, applies known_findings.json, writes evidence"},
                 {"name": "vlib.evgen", "path": "vlib/evgen.py", "serves_properties": ["C01", "C02", "C03", "C04", "C05", "C06"],
                  "kind_free_text": "typed random evaluable-DAG generator with an independent numpy shadow interpreter"}],
     "checks": [], "notes": "Family: runtime monitoring. exit 0 held / 1 VIOLATION / 2 INCONCLUSIVE / 3 HARNESS-ERROR. Known findings: known_findings.json (read-only at run time). See DESIGN.md.",
     "not_applicable": []}
for p in props:
    pid = p['id']
    if pid in CHECKS:
        c = CHECKS[pid]
        m['checks'].append({"property_id": pid, "quick_cmd": f"./check {pid} --tier quick", "thorough_cmd": f"./check {pid} --tier thorough",
                            "evidence_file": f"/verif/evidence/{pid}.json", "replay_cmd_template": f"./check {pid} --replay {{path}}", "engine": "vlib.runner",
                            "level_claimed": {"category": c['level'], "text": c['text'], "design_ref": c['ref']}, "level_note": c['note'], "technique": c['technique']})
    else:
        m['not_applicable'].append({"property_id": pid, "reason": "check under construction in this session (not yet registered); runtime monitoring does apply, see DESIGN.md"})
json.dump(m, open(os.path.join(here, 'MANIFEST.json'), 'w'), indent=1)
print('claimed', sorted(CHECKS), 'pending', [e['property_id'] for e in m['not_applicable']])
