#!/venv/bin/python
"""shrink the case in a replay file: tools/shrink.py C01 replays/x.json"""
import sys, json, os
sys.path.insert(0, '/verif')
os.environ.setdefault('NUTILS_VERIF', '1')
from vlib import runner
runner.setup_paths()
from vlib import evgen, shrink
import importlib
prop, path = sys.argv[1], sys.argv[2]
mod = importlib.import_module('checks.' + prop.lower())
rep = json.load(open(path))
v0 = rep['violation']
mon0 = v0['monitor']
def pred(case):
    vs = mod.replay(dict(case=case))
    return any(v['monitor'] == mon0 for v in vs)
small = shrink.shrink(v0['case']['case'], pred)
print(evgen.describe(small))
vs = mod.replay(dict(case=small))
for v in vs[:1]:
    print(v['monitor'], '|', v['detail'][:400])
json.dump(small, open(path.replace('.json', '.min.json'), 'w'))
