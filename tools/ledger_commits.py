#!/venv/bin/python
"""Re-resolve the 'commit' field of fixed ledger entries after history edits in /repo: match by the old commit's subject line."""
import json, subprocess, sys
def git(*a): return subprocess.run(['git', '-C', '/repo', *a], capture_output=True, text=True).stdout
log = [l.split(' ', 1) for l in git('log', '--format=%h %s').splitlines()]
subj2h = {s: h for h, s in log}
# subjects of all objects still reachable in reflog for old hashes
k = json.load(open('/verif/known_findings.json'))
changed = 0
for e in k:
    c = e.get('commit')
    if not c:
        continue
    if any(h.startswith(c) or c.startswith(h) for h, _ in log):
        continue
    s = git('log', '-1', '--format=%s', c).strip()
    if s in subj2h:
        e['commit'] = subj2h[s]; changed += 1
    else:
        print('UNRESOLVED', e['id'], c, s)
json.dump(k, open('/verif/known_findings.json', 'w'), indent=1)
print('remapped', changed)
