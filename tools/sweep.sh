#!/bin/bash
# tools/sweep.sh <tier> <seed> ID...   sequential runs with default settings; one summary line each
tier=$1; seed=$2; shift 2
for id in "$@"; do
  t0=$(date +%s)
  out=$(VERIF_SEED=$seed timeout 3600 ./check $id --tier $tier 2>&1)
  rc=$?
  t1=$(date +%s)
  last=$(echo "$out" | grep -E "^(HELD|VIOLATION|INCONCLUSIVE|HARNESS)" | head -1 | cut -c1-220)
  nk=$(echo "$out" | grep -c "^KNOWN-FINDING")
  echo "$id tier=$tier seed=$seed rc=$rc wall=$((t1-t0))s known=$nk | $last"
done
