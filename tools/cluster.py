#!/venv/bin/python
"""cluster replay files of a property by monitor + simplified-top + short skeleton"""
import json, sys, glob, collections
prop = sys.argv[1]
cl = collections.defaultdict(list)
for f in sorted(glob.glob(f'/verif/replays/{prop}-*.json')):
    r = json.load(open(f))
    v = r['violation']
    key = (v['monitor'][:50], v.get('mechanism'), v['detail'][:90])
    cl[key].append(f)
for k, fs in sorted(cl.items(), key=lambda kv: -len(kv[1])):
    print(len(fs), k, fs[0])
