"""C20 — Physical dimensions are tracked soundly (nutils.SI, nutils.unit).

Monitor shape: an executable reference model of dimensional analysis (exponent vectors of Fractions over the base symbols,
an independently typed SI table; vlib/c20_model.py) is advanced in lock-step with real SI.Quantity objects through random
compositions of every operator / NumPy function / nutils function in Quantity's dispatch table.  Deciding observations:
type(result) against the model vector (name read back independently + class identity registry), the payload against the
same computation on plain numbers, exceptions on mismatched dimensions, parse/format of generated unit strings, Dimension
algebra laws, nutils.unit parse and the Units collision rule.
"""

import hashlib, json, traceback
from vlib.runner import Result, rng_for

PROPERTY = 'C20'
LEVEL = 'exploration'
RULE = ('np/fn programs: pools of quantities created through generated unit strings (all prefixes x units, integer and fractional powers, '
        'products/quotients) are advanced through 12-14 random calls, every second call cycling systematically through all dispatch keys '
        '(scalars, numpy arrays, function arrays on 1-3D meshes evaluated per point), with ~38% of add/compare/stack/assign/interp/locate '
        'calls presented with DIFFERENT dimensions; plus generated unit strings, the exhaustive 701-entry unit table, Dimension algebra '
        'instances, random nutils.unit systems and Units definition sequences. non-trivial = a program with >=3 verified results on '
        'dimensional operands / a string with >=2 factors or a power / a definition sequence of >=3 names; distinct = hash of the '
        'sequence of (key, operand exponent vectors, ranks) resp. of the string / system / exponent pair')
ASSUMPTIONS = ['reference units are the coherent SI units (kg m s A K mol cd); the model SI table is typed from the SI brochure, the dalton '
               'with its CODATA-2014 value as carried by the module',
               'a plain number is dimensionless: mixing it with a dimensional quantity in add/compare/stack/assign must be rejected',
               'exceptions of type NotImplementedError/TypeError/ValueError on dimensionally valid calls are documented refusals (counted)',
               'function-array values: the unwrapped function array evaluated at the same sample points is the plain-number computation '
               '(NumPy semantics of function arrays are C07)']
BUDGET_S = {'quick': 90, 'thorough': 860}
GRACE_S = 60

SIZES = {
    'quick': dict(np=1400, fn=140, str=5000, alg=2000, unitpy=1000, useq=1200, np_steps=14, fn_steps=11),
    'thorough': dict(np=30000, fn=2200, str=80000, alg=30000, unitpy=20000, useq=20000, np_steps=16, fn_steps=12),
}
CHUNK = dict(np=100, fn=10, str=500, alg=250, unitpy=100, useq=150)


def plan(tier, seed):
    z = SIZES[tier]
    units = [dict(family='table'), dict(family='unitpy_prefixes')]
    # cheap families first (a deadline under heavy machine load then cuts the expensive programs, which finalize reports)
    for fam in ('alg', 'unitpy', 'useq', 'str', 'np', 'fn'):
        n, c = z[fam], CHUNK[fam] * (4 if tier == 'thorough' else 1)
        units += [dict(family=fam, start=i, stop=min(n, i + c)) for i in range(0, n, c)]
    units.append(dict(family='extension'))
    return units


_ENV = None


def env():
    global _ENV
    if _ENV is None:
        from vlib import c20_model as M
        from vlib.c20_core import Env
        M.selftest()
        _ENV = Env()
    return _ENV


def run_program(e, res, seed, fam, index, nsteps, upto=None):
    """One np/fn program; returns the case dict."""
    from vlib.c20_core import Monitor, execute, RULES, Opd, Call
    from vlib.c20_gen import Gen, NP_KEYS, np_call, protocol_checks
    from vlib.c20_fn import FnCtx, FN_KEYS, fn_call, run_locate
    from vlib import c20_model as M
    rng = rng_for(seed, 'c20', fam, index)
    case = dict(family=fam, seed=seed, index=index, nsteps=nsteps)
    mon = Monitor(e, res, case)
    res.count('evaluations')
    res.count('programs/' + fam)
    try:
        ctx = FnCtx(e, rng) if fam == 'fn' else None
    except Exception as ex:
        res.count('fn_context_failed')
        res.note(f'fn context: {type(ex).__name__}: {ex}')
        return case
    G = Gen(e, mon, rng, ctx)
    G.evalprob = .6 if ctx is None or ctx.d < 3 else .35     # compiling a 3-D evaluation costs ~10x a 2-D one
    observe = ctx.observe(G) if ctx else None
    if ctx:
        case['mesh'] = dict(d=ctx.d, kind=ctx.kind, where=ctx.where)
        res.count(f'fn_where/{ctx.where}')
        res.count(f'fn_dim/{ctx.d}')
    keys = NP_KEYS if fam == 'np' else FN_KEYS
    program = []
    for step in range(nsteps):
        if step % 2 == 0:
            key = keys[(index * ((nsteps + 1) // 2) + step // 2) % len(keys)]
        elif fam == 'fn' and rng.random() < .45:
            key = NP_KEYS[int(rng.integers(0, len(NP_KEYS)))]
        else:
            key = keys[int(rng.integers(0, len(keys)))]
        if fam == 'fn' and ctx.d == 3 and step == 1:
            key = 'function.curl'     # only defined in 3-D: make sure every 3-D program presents it once
        if key == 'operator.setitem' and fam == 'fn':
            continue
        try:
            built = fn_call(G, key) if key in FN_KEYS else np_call(G, key)
        except Exception as ex:
            # generator trouble is a harness matter, never a verdict on nutils
            res.count('generator_errors')
            res.note(f'generator {key}: {type(ex).__name__}: {ex} {traceback.format_exc()[-300:]}')
            continue
        if built is None or built is False:
            res.count('skipped/no_operands')
            continue
        outs = []
        try:
            if isinstance(built, tuple) and built[0] == 'locate':
                program.append('locate')
                run_locate(G, step)
            elif isinstance(built, tuple) and built[0] == 'evaluate':
                items = []
                for it in built[1]:
                    if isinstance(it, tuple):
                        program.append(it[1].describe())
                        b = execute(mon, it[1], None, step)
                        if b is None:
                            items = None
                            break
                        items.append(b)
                    elif it is None:
                        items = None
                        break
                    else:
                        items.append(it)
                if items:
                    c = Call('function.evaluate', e.function.evaluate, items, dict(arguments=ctx.arguments))
                    program.append(c.describe())
                    r = execute(mon, c, None, step)
                    for o in (r or []):
                        res.count('fn_evaluations')
                        if o.vec and rng.random() < .3:
                            G.readback(o, step=step)
            else:
                seq = built if isinstance(built, list) else [built]
                prev = None
                for c in seq:
                    if isinstance(c, tuple) and c[0] == 'then':
                        if prev is None:
                            break
                        c = c[1](prev)
                    program.append(c.describe())
                    prev = execute(mon, c, observe, step)
                    if prev is None:
                        break
                    if isinstance(prev, Opd):
                        inc = dict(grad=1, div=1, curl=1, surfgrad=1, laplace=2, curvature=2, normal=1, jacobian=1).get(c.key.split('.')[-1], 0) if c.key.startswith('function.') else 0
                        prev.dlevel = max([o.dlevel for o in c.opds()] + [0]) + inc
                        if c.key.startswith('function.') and c.key.split('.')[1] in ('grad', 'div', 'curl', 'laplace', 'surfgrad', 'derivative', 'linearize', 'replace_arguments', 'jump', 'opposite', 'scatter', 'kronecker'):
                            prev.role = 'derived'
                        outs.append(prev)
        except Exception as ex:
            res.count('harness_step_errors')
            res.note(f'step {key}: {type(ex).__name__}: {ex} {traceback.format_exc()[-400:]}')
            continue
        for o in outs:
            if not isinstance(o.plain, dict) and o.evaluable:
                G.pool.append(o)
            if o.vec and not o.isfn and o.evaluable and rng.random() < .35:
                G.readback(o, step=step)
            if o.vec and not o.isfn and rng.random() < .1:
                protocol_checks(G, o, step)
        if len(G.pool) > 14:
            del G.pool[:len(G.pool) - 14]
        if upto is not None and step >= upto:
            break
    case['program'] = program[-40:]
    nontrivial = sum(1 for s in mon.ok_sigs if '^' in s) >= 3
    if nontrivial:
        res.add('distinct', hashlib.sha1(json.dumps(mon.ok_sigs).encode()).hexdigest()[:12])
    return case


def run_units(units, ctx):
    res = Result()
    e = env()
    from vlib import c20_misc as X
    z = SIZES[ctx.tier]
    res.add('dispatch_keys', ','.join(sorted(e.tablekeys)))
    units = sorted(units, key=lambda u: u['family'] == 'extension')   # the global-table extension runs last in its worker
    import time
    tstart = time.time()
    for u in units:
        fam = u['family']
        t0 = time.time()
        res.maximum('worker_wall_s', round(t0 - tstart, 1))
        if ctx.expired() and fam not in ('table', 'unitpy_prefixes', 'extension'):    # the three sweeps are bounded (< 1 s each)
            res.count('units_skipped_deadline')
            res.count(f'skipped_deadline/{fam}')
            continue
        try:
            if fam in ('np', 'fn'):
                for i in range(u['start'], u['stop']):
                    if ctx.expired():
                        res.count(f'skipped_deadline/{fam}')
                        continue
                    try:
                        case = run_program(e, res, ctx.seed, fam, i, z[fam + '_steps'])
                    except AssertionError as ex:
                        res.count('harness_assertions')
                        res.note(f'{fam} {i}: harness assertion {ex} {traceback.format_exc()[-400:]}')
                        continue
                    except Exception as ex:
                        res.count('harness_case_errors')
                        res.note(f'{fam} {i}: {type(ex).__name__}: {ex} {traceback.format_exc()[-400:]}')
                        continue
                    if i % 211 == 0:
                        res.sample(dict(case, program=case.get('program', [])[:6]))
            elif fam in ('str', 'alg', 'unitpy', 'useq'):
                f = dict(str=X.run_string_case, alg=X.run_algebra_case, unitpy=X.run_unitpy_case, useq=X.run_useq_case)[fam]
                for i in range(u['start'], u['stop']):
                    if ctx.expired():
                        res.count(f'skipped_deadline/{fam}')
                        continue
                    try:
                        f(e, res, ctx.seed, i)
                    except AssertionError as ex:
                        res.count('harness_assertions')
                        res.note(f'{fam} {i}: harness assertion {ex} {traceback.format_exc()[-400:]}')
                        continue
                    except Exception as ex:
                        res.count('harness_case_errors')
                        res.note(f'{fam} {i}: {type(ex).__name__}: {ex} {traceback.format_exc()[-400:]}')
            elif fam == 'table':
                X.run_table(e, res, ctx.seed)
            elif fam == 'unitpy_prefixes':
                X.run_unitpy_prefix_sweep(e, res, ctx.seed)
            elif fam == 'extension':
                X.run_extension(e, res, ctx.seed)
        except AssertionError as ex:
            # generator / model self-consistency failures are harness matters
            res.count('harness_assertions')
            res.note(f'{fam}: harness assertion {ex} {traceback.format_exc()[-500:]}')
        res.count(f'wall_ms/{fam}', int(1000 * (time.time() - t0)))
    res.maximum('worker_wall_s', round(time.time() - tstart, 1))
    res.maximum('worker_cpu_s', round(time.process_time(), 1))
    return res


def replay(case):
    res = Result()
    e = env()
    from vlib import c20_misc as X
    fam, seed, index = case['family'], case['seed'], case.get('index', 0)
    if fam in ('np', 'fn'):
        run_program(e, res, seed, fam, index, case['nsteps'])
    elif fam == 'str':
        X.run_string_case(e, res, seed, index)
    elif fam == 'alg':
        X.run_algebra_case(e, res, seed, index)
    elif fam == 'unitpy':
        X.run_unitpy_case(e, res, seed, index)
    elif fam == 'useq':
        X.run_useq_case(e, res, seed, index)
    elif fam == 'table':
        X.run_table(e, res, seed)
    elif fam == 'unitpy_prefixes':
        X.run_unitpy_prefix_sweep(e, res, seed)
    elif fam == 'extension':
        X.run_extension(e, res, seed)
    return res.violations


# ---- ledger reproducers

def repro_curvature():
    e = env()
    SI, function, mesh = e.SI, e.function, e.mesh
    topo, geom = mesh.rectilinear([2, 2])
    try:
        k = function.curvature(geom * SI.parse('m'))
    except RecursionError:
        return True, "function.curvature(geom * SI.parse('m')) raises RecursionError (dispatch entry re-dispatches on the wrapped argument)"
    except Exception as ex:
        return None, f'other exception {type(ex).__name__}: {ex}'
    ok = type(k) is SI.Length ** -1
    return (not ok), f'function.curvature(geom*m) has type {type(k).__name__}'


REPRODUCERS = {'C20-curvature-recursion': repro_curvature}


def finalize(m, tier, seed):
    from vlib.c20_core import RULES
    from vlib import c20_model as M
    c = m.counters
    z = SIZES[tier]

    def sub(prefix):
        return {k[len(prefix):]: v for k, v in sorted(c.items()) if k.startswith(prefix)}
    tablekeys = sorted(set(','.join(m.sets.get('dispatch_keys', ())).split(',')) - {''})
    ok, disc, rej, pres, refused = sub('ok/'), sub('discriminating/'), sub('rejected/'), sub('mismatch_presented/'), sub('refused/')
    uncovered = [k for k in tablekeys if k not in RULES]
    rejecting = [k for k in tablekeys if k in RULES and RULES[k][0] in ('add-like', 'comparison', 'stack-like', 'setitem')] + \
        [k for k in ('numpy.interp', 'topology.Topology.locate') if k in tablekeys]
    never_verified = [k for k in tablekeys if k in RULES and not disc.get(k)]
    never_rejected = [k for k in rejecting if not rej.get(k)]
    per_key = {k: dict(rule=RULES[k][0] if k in RULES else None, ok=ok.get(k, 0), discriminating=disc.get(k, 0), mismatches_presented=pres.get(k, 0),
                       rejected=rej.get(k, 0), refused=refused.get(k, 0)) for k in tablekeys}
    cov = dict(
        evaluations=c.get('evaluations', 0), distinct_nontrivial=len(m.sets.get('distinct', ())), rule=RULE, samples=m.samples[:3],
        operations=c.get('calls', 0), results_verified=c.get('ok_results', 0), leaves=c.get('leaves', 0), leaf_modes=sub('leafmode/'),
        programs_by_family=sub('programs/'), fn_evaluations=c.get('fn_evaluations', 0), fn_unevaluated=c.get('fn_unevaluated', 0), fn_where=sub('fn_where/'),
        fn_mesh_dims=sub('fn_dim/'), readbacks=c.get('readbacks', 0), readbacks_via_dispatch=c.get('readbacks_dispatch', 0),
        format_roundtrips=c.get('format_roundtrips', 0), protocol_checks=c.get('protocol_checks', 0),
        dispatch_keys=len(tablekeys), dispatch_keys_with_rule=len(tablekeys) - len(uncovered), uncovered=uncovered,
        keys_never_verified_discriminatingly=never_verified, rejecting_keys_never_rejected=never_rejected, per_key=per_key,
        mismatches=dict(presented=sum(pres.values()), rejected_dimension_error=c.get('rejected_dimension_mismatch', 0),
                        rejected_by_inequality=c.get('rejected_by_inequality', 0), rejected_other_exception=c.get('rejected_other_exception', 0),
                        other_exception_types=sorted(m.sets.get('rejected_other_exception_types', ()))[:20]),
        meaningless_ops=dict(presented=sum(sub('invalid_presented/').values()), refused=c.get('invalid_refused', 0),
                             types=sorted(m.sets.get('invalid_refused_types', ()))[:20]),
        refusals=dict(total=c.get('refusals', 0), kinds=sorted(m.sets.get('refusal_kinds', ()))[:40]),
        skipped=sub('skipped/'), marginal=c.get('marginal', 0),
        strings=dict(generated=c.get('strings', 0), parsed_ok=c.get('strings_parsed_ok', 0), dimensionless=c.get('strings_dimensionless', 0),
                     fractional_power=c.get('strings_with_fractional_power', 0), mul_after_div=c.get('strings_with_mul_after_div', 0),
                     by_factors=sub('string_factors/'), typed_ok=c.get('typed_constructor_ok', 0),
                     typed_mismatch_presented=c.get('typed_constructor_mismatch_presented', 0), typed_mismatch_rejected=c.get('typed_constructor_mismatch_rejected', 0), stringly_roundtrips=c.get('stringly_roundtrips', 0),
                     divisions=c.get('string_divisions', 0), invalid_presented=c.get('invalid_strings_presented', 0),
                     invalid_rejected=c.get('invalid_strings_rejected', 0), invalid_kinds=sub('invalid_kind/')),
        unit_table=dict(entries_checked=c.get('table_entries_checked', 0), strings_checked=c.get('table_strings_checked', 0),
                        named_dimensions_checked=c.get('named_dimensions_checked', 0), named_missing=sorted(m.sets.get('named_dimensions_missing', ())), named_anomalies=sorted(m.sets.get('named_dimension_anomalies', ())),
                        extension_strings=c.get('extension_strings', 0), extension_rejections=c.get('extension_rejections_ok', 0),
                        dalton_vs_codata2018_rel=abs(M.UNITS['Da'][0] - M.DALTON_CODATA2018) / M.DALTON_CODATA2018),
        algebra=dict(cases=c.get('algebra_cases', 0), laws_checked=c.get('laws_checked', 0), class_pickles=c.get('class_pickles', 0), laws=sub('law/')),
        unitpy=dict(systems=c.get('unitpy_systems', 0), strings=c.get('unitpy_strings', 0), ambiguous_words=c.get('unitpy_ambiguous_words', 0),
                    bound_same=c.get('unitpy_bound_same', 0), wrong_unit_presented=c.get('unitpy_wrong_unit_presented', 0),
                    wrong_unit_rejected=c.get('unitpy_wrong_unit_rejected', 0), stringly_roundtrips=c.get('unitpy_stringly_roundtrips', 0),
                    prefix_entries=c.get('unitpy_prefix_entries', 0)),
        units_sequences=dict(sequences=c.get('units_sequences', 0), definitions=c.get('units_definitions', 0),
                             collisions_presented=c.get('units_collisions_presented', 0), collisions_rejected=c.get('units_collisions_rejected', 0)),
        locate=dict(cases=sub('locate_case/'), verified=c.get('locate_verified', 0)),
        timing=dict(slowest_worker_wall_s=m.maxima.get('worker_wall_s'), max_worker_cpu_s=m.maxima.get('worker_cpu_s'), wall_ms_by_family=sub('wall_ms/')),
        harness=dict(case_errors=c.get('harness_case_errors', 0), generator_errors=c.get('generator_errors', 0), step_errors=c.get('harness_step_errors', 0), assertions=c.get('harness_assertions', 0),
                     fn_context_failed=c.get('fn_context_failed', 0), skipped_deadline=sub('skipped_deadline/')),
    )
    inc = []
    planned = sum(z[f] for f in ('np', 'fn', 'str', 'alg', 'unitpy', 'useq'))
    if cov['evaluations'] < .8 * planned:
        inc.append(f"only {cov['evaluations']} of {planned} cases ran before the deadline")
    if not tablekeys:
        inc.append('dispatch table not found')
    elif len(uncovered) > .2 * len(tablekeys):
        inc.append(f'{len(uncovered)} of {len(tablekeys)} dispatch keys have no model rule: {uncovered[:8]}')
    nv = [k for k in never_verified if k not in uncovered]
    if nv:
        inc.append(f'dispatch keys never verified on discriminating operands: {nv[:8]}')
    if never_rejected:
        inc.append(f'keys that must reject mismatched dimensions were never seen rejecting: {never_rejected[:8]}')
    if cov['unit_table']['entries_checked'] < 600:
        inc.append('unit table monitor not reached')
    if cov['strings']['parsed_ok'] < .5 * z['str'] or cov['strings']['mul_after_div'] < 20 or cov['strings']['fractional_power'] < 20:
        inc.append('string monitor barely reached')
    if cov['format_roundtrips'] < 100:
        inc.append('format round trip barely reached')
    if cov['algebra']['laws_checked'] < 1000 or cov['algebra']['class_pickles'] < 100:
        inc.append('algebra monitor barely reached')
    if cov['unitpy']['strings'] < 500 or cov['unitpy']['wrong_unit_rejected'] < 50 or cov['unitpy']['ambiguous_words'] < 5 or cov['unitpy']['prefix_entries'] < 100:
        inc.append('nutils.unit monitor barely reached')
    if cov['units_sequences']['collisions_rejected'] < 50 or cov['unit_table']['extension_rejections'] < 5:
        inc.append('collision monitor barely reached')
    if cov['fn_evaluations'] < 200:
        inc.append('function-array evaluations barely reached')
    if cov['harness']['assertions'] > .0005 * max(1, cov['evaluations']) or cov['harness']['case_errors'] > .002 * max(1, cov['evaluations']) or cov['harness']['generator_errors'] > .02 * max(1, cov['operations']) or cov['harness']['step_errors'] > .02 * max(1, cov['operations']):
        inc.append(f"harness trouble: {cov['harness']}")
    if cov['marginal'] > .005 * max(1, cov['results_verified']):
        inc.append(f"{cov['marginal']} marginal float comparisons")
    return dict(coverage=cov, inconclusive='; '.join(inc) or None)
