"""C06 — Static array metadata is sound.

Self-consistency monitor: whatever a node announces before evaluation (ndim,
shape, dtype, integer range, arguments, isconstant) is compared with what the
evaluation of that same node object delivers.  Values are observed
(a) by the NUTILS_VERIF observer hook inside the generated code: every
    materialised array, every loop iteration, raw and default pipelines;
(b) by a stand-alone walk over every distinct sub-node of the raw, simplified
    and optimised DAG with loop indices bound to each iteration value, which
    reaches nodes that are compiled in place and never materialise;
(c) by argument-dependence experiments on the outputs (omit / perturb
    arguments that are not announced);
(d) by nutils' own off-by-default assertions (debug_flags.evalf).
"""

import traceback, warnings, itertools
import numpy
from vlib.runner import Result, rng_for, scaled
from vlib import tolerance, evgen, evmon, evfind

PROPERTY = 'C06'
LEVEL = 'exploration'
RULE = ('systematic integer pairs f(A,B), f in mod/floordiv/min/max/mul/add/sub/greater/equal, A,B in 12 operand archetypes (incl. sign(x)*x in both factor orders) with tight ranges; G-ev programs with an integer-heavy profile (FloorDivide/Mod with mixed signs, Minimum/Maximum/Absolute/Sign/Negative chains, Take from '
        'integer tables, RavelIndex, NormDim, InRange, Range+offset, loop indices, products/sums/powers of ints) plus the general profile; '
        'an observation = one (node object, evaluated value) pair; non-trivial case = >=3 inner nodes; distinct = operator skeleton')
ASSUMPTIONS = ['metadata is compared with the evaluation of the same node object (self-consistency), not with the shadow',
               'integer ranges are checked on sampled argument values, drawn at the extremes of their declared ranges half of the time',
               'shape entries that depend on a loop index are checked after binding the index']
BUDGET_S = {'quick': 120, 'thorough': 1600}
NCASES = {'quick': 1600, 'thorough': 50000}
CHUNK = 40
KINDCHAR = {bool: 'b', int: 'i', float: 'f', complex: 'c'}


def plan(tier, seed):
    n = scaled(NCASES[tier])
    units = [dict(start=i, stop=min(n, i + CHUNK)) for i in range(0, n, CHUNK)]
    # systematic integer-range mixer: f(archetype A, archetype B) [consumed by a second range-sensitive operation]
    combos = [(f, a, b, None) for f in evgen.INT_BINOPS for a in evgen.INT_ARCHETYPES for b in evgen.INT_ARCHETYPES]
    if tier == 'thorough':
        combos += [(f, a, b, t) for f in evgen.INT_BINOPS[:7] for a in evgen.INT_ARCHETYPES for b in evgen.INT_ARCHETYPES for t in ('mod', 'floordiv', 'max', 'mul')]
    for j in range(0, len(combos), 60):
        units.append(dict(intpairs=combos[j:j + 60], reps=4 if tier == 'quick' else 12))
    return units


def setup():
    import treelog
    treelog.set(treelog.NullLog()).__enter__()
    evmon.install_step_counter()
    warnings.simplefilter('ignore')


OBSERVED = []


def _observer(e, v):
    OBSERVED.append((e, numpy.array(v, copy=True)))


def check_meta(e, v, res, how, shape_env=None):
    """Compare announced metadata of node e with its evaluated value v.  Returns problem string or None."""
    from nutils import evaluable as ev
    v = numpy.asarray(v)
    cls = type(e).__name__
    res.count('obs/' + how)
    res.count('class/' + cls)
    if v.ndim != e.ndim:
        return f'{cls}: value.ndim={v.ndim} but announced ndim={e.ndim}'
    k = {'b': 'b', 'i': 'i', 'u': 'i', 'f': 'f', 'c': 'c'}.get(v.dtype.kind)
    if k != KINDCHAR[e.dtype]:
        return f'{cls}: value dtype {v.dtype} but announced {e.dtype.__name__}'
    for i, n in enumerate(e.shape):
        if isinstance(n, ev.Constant):
            res.count('shape_entries_constant')
            if int(n.value) != v.shape[i]:
                return f'{cls}: value.shape[{i}]={v.shape[i]} but announced constant {int(n.value)}'
        elif shape_env is not None:
            try:
                nv = shape_env(n)
            except Exception:
                res.count('shape_entries_not_evaluable')
                continue
            res.count('shape_entries_computed')
            if int(nv) != v.shape[i]:
                return f'{cls}: value.shape[{i}]={v.shape[i]} but announced (computed) {int(nv)}'
    if e.dtype == int and v.size:
        try:
            lo, hi = e._intbounds
        except Exception as ex:
            return f'{cls}: integer range inference raised {type(ex).__name__}: {str(ex)[:100]}'
        res.count('intbounds_checked')
        if numpy.isfinite(lo) or numpy.isfinite(hi):
            res.count('intbounds_finite')
        if lo == hi:
            res.count('intbounds_tight')
        if v.min() < lo or v.max() > hi:
            return f'{cls}: integer value range [{v.min()},{v.max()}] outside the inferred range [{lo},{hi}]'
    return None


def walk_nodes(roots, limit):
    from nutils import evaluable as ev
    seen, out, stack = set(), [], list(roots)
    while stack and len(out) < limit:
        e = stack.pop()
        if id(e) in seen:
            continue
        seen.add(id(e))
        if isinstance(e, ev.Array) and not isinstance(e, ev._LoopIndex):
            out.append(e)
        if isinstance(e, ev.Evaluable):
            stack.extend(e.dependencies)
    return out


def bindings(e, maxcombos=4, rng=None):
    from nutils import evaluable as ev
    free = sorted((a for a in e.arguments if isinstance(a, ev._LoopIndex)), key=lambda a: str(a.loop_id))
    if any(not isinstance(i.length, ev.Constant) for i in free):
        return None
    if free and any(loop.index in free for loop in e._loops):
        # an inner loop re-binds the same index (legal: nested loops over one id); substituting a constant would also hit the inner body
        return None
    ranges = [range(int(i.length.value)) for i in free]
    combos = list(itertools.islice(itertools.product(*ranges), 0, 64))
    if len(combos) > maxcombos:
        # always include the extremes
        combos = [combos[0], combos[-1]] + [combos[int(j)] for j in rng.choice(len(combos), size=maxcombos - 2, replace=False)]
    return free, combos


def bind(x, free, combo):
    from nutils import evaluable as ev, _util as util
    if not free:
        return x
    m = {i: ev.constant(k) for i, k in zip(free, combo)}
    return util.shallow_replace(lambda o: m.get(o) if isinstance(o, ev._LoopIndex) else None, x)


def check_case(case, seed_key, res, tier, _recheck=True):
    nv = len(res.violations)
    _check_case(case, seed_key, res, tier)
    if _recheck and len(res.violations) > nv:
        again = _dump_flaky(case, seed_key, res.violations[nv], res)
        res.count('violations_reproduced_in_process' if again else 'violations_not_reproduced_in_process')
        if not again:
            # not reproducible on an immediate second run of the same case in the same process: recorded, not alarmed
            v = res.violations.pop()
            res.count('nonreproducible')
            res.note('NON-REPRODUCIBLE: ' + v['monitor'] + ' | ' + v['detail'][:300])


def _check_case(case, seed_key, res, tier):
    from nutils import evaluable as ev, debug_flags
    res.count('evaluations')
    evmon.reset_steps()
    try:
        with evmon.wall(30):
            built, outs = evgen.build(case)
            simp = tuple(o.simplified for o in outs)
            opt = tuple(s._optimized_for_numpy1 for s in simp)
    except (AssertionError, ValueError, TypeError, IndexError):
        res.count('rejected_constructions')
        return
    except (evmon.StepBudget, evmon.WallNominate, RecursionError, Exception):
        res.count('skipped_c01_event')
        return
    rng = rng_for(*seed_key, 'args')
    if evgen.ninner(case) >= 3:
        res.add('distinct', evgen.skeleton(case))
    for a in range(2):
        av = None
        for t in range(10):
            cand = evgen.draw_args(case, rng, 'extreme' if (a == 1 and t < 5) else None)
            try:
                evgen.shadow(case, cand)
                av = cand
                break
            except evgen.OutOfDomain:
                continue
        if av is None:
            res.count('out_of_domain')
            continue
        res.count('assignments')
        # ---- (a) observer hook in generated code + (d) nutils' own assertions
        for name, simplify, optimize, debug in (('raw', False, False, False), ('default', True, True, True)):
            del OBSERVED[:]
            ev._verif_observers.append(_observer)
            old = debug_flags.evalf
            debug_flags.evalf = debug
            try:
                with evmon.wall(60):
                    evmon.evaluate(outs, av, simplify=simplify, optimize=optimize)
            except evmon.WallNominate:
                res.count('inconclusive_wall')
                continue
            except AssertionError as e:
                tb = traceback.format_exc()
                if 'compiled' in tb and 'assert ' in tb:
                    res.violation('nutils evalf assertion failed in generated code', pack(case, av), tb[-600:])
                    return
                res.count('other_exception_in_pipeline')
                continue
            except Exception as e:
                res.count('other_exception_in_pipeline')   # C02's business
                continue
            finally:
                debug_flags.evalf = old
                ev._verif_observers.remove(_observer)
            for e, v in OBSERVED:
                def shape_env(n, _av=av):
                    if any(isinstance(x, ev._LoopIndex) for x in n.arguments):
                        raise ValueError
                    return ev.eval_once(n, _simplify=False, _optimize=False, arguments=_av)
                p = check_meta(e, v, res, 'hook-' + name, shape_env)
                if p:
                    try:
                        p += ' | node: ' + e.asciitree().replace('\n', ' // ')[:1500]
                    except Exception:
                        pass
                    res.violation('announced metadata differs from the evaluated array (observer hook)', pack(case, av), f'pipeline {name}: {p}',
                                  mechanism=evfind.classify_c06(e, p))
                    return
        # ---- (b) stand-alone walk
        if a == 0:
            for form, roots in (('raw', outs), ('simplified', simp), ('optimized', opt)):
                for e in walk_nodes(roots, 50 if tier == 'quick' else 120):
                    b = bindings(e, rng=rng)
                    if b is None:
                        res.count('walk_unbindable')
                        continue
                    free, combos = b
                    for combo in combos:
                        eb = bind(e, free, combo)
                        try:
                            with numpy.errstate(all='ignore'):
                                v = evmon.evaluate(eb, av, simplify=False, optimize=False)
                        except Exception:
                            res.count('walk_not_evaluable')
                            continue
                        # metadata of the ORIGINAL node, shape entries bound the same way
                        def shape_env(n, _free=free, _combo=combo, _av=av):
                            return evmon.evaluate(bind(n, _free, _combo), _av, simplify=False, optimize=False)
                        p = check_meta(e, v, res, 'walk-' + form, shape_env)
                        if p:
                            res.violation('announced metadata differs from the evaluated array (stand-alone walk)', pack(case, av),
                                          f'{form} form, loop binding {dict(zip([str(i.loop_id) for i in free], combo))}: {p}', mechanism=evfind.classify_c06(e, p))
                            return
        # ---- (c) argument dependence of the outputs
        if a == 0:
            try:
                full = evmon.evaluate(outs, av, simplify=True, optimize=True)
            except Exception:
                continue
            for j, o in enumerate(outs):
                announced = {x.name for x in o.arguments if isinstance(x, ev.Argument)}
                allnames = set(av)
                res.count('argument_experiments')
                only = {k: v for k, v in av.items() if k in announced}
                try:
                    r1 = evmon.evaluate(o, only, simplify=True, optimize=True)
                    r2 = evmon.evaluate(o, only, simplify=False, optimize=False)
                except Exception as e:
                    res.violation('evaluation needs an argument that is not announced', pack(case, av), f'output {j} announces {sorted(announced)}; with exactly those: {type(e).__name__}: {str(e)[:200]}')
                    return
                for r in (r1, r2):
                    if tolerance.compare(r, full[j], 1.)[0] == tolerance.VIOLATION:
                        res.violation('value depends on an argument that is not announced', pack(case, av), f'output {j} announces {sorted(announced)}')
                        return
                if o.isconstant and o.arguments:      # (Guard & co. deliberately announce isconstant=False without arguments)
                    res.violation('isconstant inconsistent with arguments', pack(case, av), f'output {j}: isconstant={o.isconstant}, arguments={sorted(announced)}')
                    return
                # perturb the non-announced arguments
                other = allnames - announced
                if other:
                    av2 = dict(av)
                    for k in other:
                        av2[k] = av[k] * 0 if av[k].dtype.kind != 'b' else ~av[k]
                    try:
                        r3 = evmon.evaluate(o, av2, simplify=True, optimize=True)
                        if tolerance.compare(r3, full[j], 1.)[0] == tolerance.VIOLATION:
                            res.violation('value depends on an argument that is not announced', pack(case, av), f'output {j}: changing {sorted(other)} changed the value')
                            return
                    except Exception:
                        res.count('perturbed_evaluation_failed')


def pack(case, av):
    return dict(case=case, args={k: evgen.encode(v) for k, v in av.items()}, desc=evgen.describe(case))


def gen_case(seed, i):
    rng = rng_for(seed, 'c06', i)
    profile = str(rng.choice(['int', 'int', 'all']))
    return evgen.generate(rng, size=int(rng.integers(4, 22)), profile=profile)


def _dump_flaky(case, seed_key, v1, res):
    """a violation was seen: run the same case again immediately in this process and record both outcomes for study"""
    import os, json, time
    r2 = Result()
    try:
        check_case(case, seed_key, r2, 'quick', _recheck=False)
    except Exception as e:
        r2.note(f'recheck raised {type(e).__name__}: {e}')
    os.makedirs('/var/tmp/flaky', exist_ok=True)
    with open(f'/var/tmp/flaky/C06-{os.getpid()}-{int(time.time()*1000)}.json', 'w') as f:
        json.dump(dict(seed_key=list(seed_key), first=v1, second=r2.violations[:1], desc=evgen.describe(case)), f, indent=1, default=str)
    return bool(r2.violations)


def run_units(units, ctx):
    evgen.self_test()
    setup()
    from nutils import evaluable as ev
    res = Result()
    if ev._verif_observers is None:
        res.note('NUTILS_VERIF observer hook unavailable')
        return res
    for u in units:
        for f, a, b, t in u.get('intpairs', ()):
            for rep in range(u['reps']):
                if ctx.expired():
                    res.count('skipped_deadline')
                    continue
                key = (ctx.seed, 'c06pair', f, a, b, str(t), rep)
                try:
                    case = evgen.intpair(rng_for(*key), f, a, b, t)
                except evgen.Reject:
                    res.count('intpair_not_constructible')
                    continue
                res.add('intpairs', f'{f}/{a}/{b}/{t}')
                check_case(case, key, res, ctx.tier)
        for i in range(u.get('start', 0), u.get('stop', 0)):
            if ctx.expired():
                res.count('skipped_deadline')
                continue
            case = gen_case(ctx.seed, i)
            check_case(case, (ctx.seed, 'c06', i), res, ctx.tier)
            if i % 399 == 0:
                res.sample(dict(index=i, desc=evgen.describe(case)))
    return res


def replay(case):
    evgen.self_test()
    setup()
    res = Result()
    if 'reproducer' in case:
        return []
    check_case(case['case'], (0, 'replay', 0), res, 'thorough')
    return res.violations


REPRODUCERS = evfind.C06_REPRODUCERS


def finalize(m, tier, seed):
    c = m.counters
    obs = {k[4:]: v for k, v in c.items() if k.startswith('obs/')}
    classes = {k[6:]: v for k, v in c.items() if k.startswith('class/')}
    cov = dict(evaluations=c.get('evaluations', 0), distinct_nontrivial=len(m.sets.get('distinct', ())), rule=RULE, samples=m.samples[:4],
               observations=obs, observations_total=sum(obs.values()), node_classes_observed=len(classes),
               observations_per_class=dict(sorted(classes.items(), key=lambda kv: -kv[1])[:80]),
               intbounds_checked=c.get('intbounds_checked', 0), intbounds_finite=c.get('intbounds_finite', 0), intbounds_tight=c.get('intbounds_tight', 0),
               shape_entries=dict(constant=c.get('shape_entries_constant', 0), computed=c.get('shape_entries_computed', 0), not_evaluable=c.get('shape_entries_not_evaluable', 0)),
               integer_pair_combinations=len(m.sets.get('intpairs', ())), argument_experiments=c.get('argument_experiments', 0), assignments=c.get('assignments', 0), out_of_domain=c.get('out_of_domain', 0),
               skipped_c01_event=c.get('skipped_c01_event', 0), other_exception_in_pipeline=c.get('other_exception_in_pipeline', 0),
               walk_not_evaluable=c.get('walk_not_evaluable', 0), skipped_deadline=c.get('skipped_deadline', 0), nonreproducible=c.get('nonreproducible', 0))
    inc = None
    if cov['evaluations'] < 0.5 * scaled(NCASES[tier]):
        inc = f"only {cov['evaluations']} programs ran before the deadline"
    elif not obs.get('hook-raw') or not obs.get('hook-default'):
        inc = 'observer hook never fired'
    elif cov['intbounds_checked'] < 1000:
        inc = 'too few integer range observations'
    elif cov['nonreproducible']:
        inc = f"{cov['nonreproducible']} violation(s) did not reproduce on an immediate second run in the same process (see notes)"
    elif cov['argument_experiments'] < 100:
        inc = 'too few argument experiments'
    return dict(coverage=cov, inconclusive=inc)
