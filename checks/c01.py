"""C01 — Simplification terminates and preserves the value of every expression.

Monitors (all on the real nutils.evaluable from the working tree):
* termination: rewrite-step counter on the simplification driver with a logical
  budget, a wall-clock nominator and a line-clock confirmation;
* value/shape/dtype preservation: the simplified form, compiled with no further
  passes, against an independent shadow numpy interpreter of the generating
  recipe (three-way with the un-simplified evaluation so a generator bug cannot
  masquerade as a simplifier bug);
* per-step monitor (sampled): a single rewrite step obj -> retval is evaluated
  on both sides with free loop indices bound to every value.
"""

import json, traceback, warnings, time
import numpy
from vlib.runner import Result, rng_for
from vlib import tolerance, evgen, evmon, evfind

PROPERTY = 'C01'
LEVEL = 'exploration'
RULE = ('typed random evaluable DAGs (G-ev: ~45 operator kinds incl. loops, scatter/gather, diagonals, powers, bool/int/float/complex, '
        'shared subterms, 1-3 outputs) plus systematic operator pairs/triples Outer(Middle(Inner(leaf))) and Op(balanced sum of arrays scattered by shared index maps), also under a loop sum, and sibling pairs f(K1(x), K2(y)); k in-domain argument '
        'assignments each; non-trivial = >=3 inner nodes and the simplifier changed the expression; distinct = operator skeleton')
ASSUMPTIONS = ['shadow numpy interpreter (vlib/evgen.py) is the reference; it is self-tested against plain numpy and cross-checked by the un-simplified evaluation on every case',
               'termination is a bounded-progress claim: <= 1e6 rewrite steps on generator-sized DAGs (5e4 nominates, a second run with 1e6 convicts); a line-budget overrun without cycle evidence is an unresolved suspect',
               'float comparison bands 1e-9 (pass) / 1e-5 (violation) relative to the largest intermediate magnitude']
BUDGET_S = {'quick': 110, 'thorough': 1500}
NCASES = {'quick': 3800, 'thorough': 160000}
NASSIGN = {'quick': 2, 'thorough': 3}
CHUNK = 50
WALL_NOMINATE_S = 8
LINE_BUDGET = 3 * 10**7


def plan(tier, seed):
    from vlib.runner import scaled
    n = scaled(NCASES[tier])
    units = [dict(kind='random', start=i, stop=min(n, i + CHUNK)) for i in range(0, n, CHUNK)]
    ops = evgen.chain_kinds()
    pairs = [(a, b) for a in ops for b in ops]
    reps = 2 if tier == 'quick' else 5
    for j in range(0, len(pairs), 40):
        units.append(dict(kind='chain', chains=pairs[j:j + 40], reps=reps))
    # scatter-sum sources: Op(sum of arrays scattered by shared maps), also inside a loop sum
    sc = [(k, inloop) for inloop in (False, True) for k in [''] + ops]
    for j in range(0, len(sc), 50):
        units.append(dict(kind='scatter', chains=sc[j:j + 50], reps=2 if tier == 'quick' else 12))
    # sibling pairs: f(K1(x), K2(y)) with independently drawn parameters (binary rewrite rules between two results of the same / of different operations)
    sib = [(k, k) for k in ops] + [(a, b) for a in evgen.CHAINABLE for b in evgen.CHAINABLE if a != b]
    sib = [(a, b, f) for a, b in sib for f in (('mul', 'add') if tier == 'quick' else ('mul', 'add', 'sub', 'max', 'div'))]
    for j in range(0, len(sib), 80):
        units.append(dict(kind='siblings', chains=sib[j:j + 80], reps=2 if tier == 'quick' else 6))
    if tier == 'thorough':
        ops3 = evgen.CHAINABLE
        triples = [(a, b, c) for a in ops3 for b in ops3 for c in ops3]
        for j in range(0, len(triples), 60):
            units.append(dict(kind='chain', chains=triples[j:j + 60], reps=1))
    return units


def setup():
    import treelog
    treelog.set(treelog.NullLog()).__enter__()
    evmon.install_step_counter()
    evmon.install_rule_counters()
    warnings.simplefilter('ignore')


CONFIRM_STEPS = 10**6


def confirm_budget(case):
    """the 5e4-step budget was exceeded: run again with 1e6 steps (wall-capped) before convicting; a large but terminating
    simplification (e.g. 50 835 steps for a 3x3x9 block structure of concatenations) is not a termination failure"""
    old = evmon.BUDGET['steps']
    evmon.BUDGET['steps'] = CONFIRM_STEPS
    evmon.reset_steps()
    try:
        with evmon.wall(150):
            built, outs = evgen.build(case)
            simp = tuple(o.simplified for o in outs)
        return 'terminates', (outs, simp), evmon.STEPS['simplified']
    except evmon.StepBudget as e:
        return 'budget', str(e), evmon.STEPS['simplified']
    except evmon.WallNominate:
        return 'wall', None, evmon.STEPS['simplified']
    except RecursionError:
        return 'raised', 'RecursionError', evmon.STEPS['simplified']
    except Exception as e:
        return 'raised', f'{type(e).__name__}: {str(e)[:300]}', evmon.STEPS['simplified']
    finally:
        evmon.BUDGET['steps'] = old


def check_case(case, seed_key, res, tier, nassign=None, stepmon=False):
    """Run all C01 monitors on one case.  Violations are recorded in res."""
    from nutils import evaluable as ev
    res.count('evaluations')
    evmon.reset_steps()
    evmon.STEP_SAMPLING.update(p=0.)
    try:
        with evmon.wall(WALL_NOMINATE_S * 4):
            built, outs = evgen.build(case)
    except (AssertionError, ValueError, TypeError, IndexError) as e:
        res.count('rejected_constructions')
        res.add('rejected_kinds', f'{type(e).__name__}')
        return
    except (evmon.StepBudget, evmon.WallNominate, RecursionError, Exception) as e:
        # constructors consult .simplified (iszero, equality tests): a divergent rewrite can surface here already
        detail = f'{type(e).__name__}: {str(e)[:200]} (during construction) | hot rules: ' + ','.join(evmon.hot_rules())
        if isinstance(e, evmon.WallNominate):
            res.count('inconclusive_wall')
            return
        mode = 'step-budget' if isinstance(e, evmon.StepBudget) else 'exception'
        if mode == 'exception' and not ('caught in a loop' in str(e) or isinstance(e, RecursionError)):
            res.count('rejected_constructions')
            res.add('rejected_kinds', f'{type(e).__name__}')
            return
        if mode == 'step-budget' and not evfind.classify_c01(case, mode, detail):
            status, r, steps = confirm_budget(case)
            res.maximum('max_rewrite_steps', steps)
            if status == 'terminates':
                res.count('slow_but_terminating')
                return     # (construction consulted .simplified: value checks of such cases are left to the smaller ones)
            if status == 'wall':
                res.count('slow_suspect_unresolved')
                res.note('unresolved slow suspect (step budget exceeded, confirmation run hit the wall): ' + evgen.skeleton(case)[:300])
                return
            detail = f'{r} (confirmation run) | ' + detail
        res.violation('simplification does not terminate normally: ' + mode, dict(case=case, desc=evgen.describe(case)), detail, mechanism=evfind.classify_c01(case, mode, detail))
        return
    rng = rng_for(*seed_key, 'args')
    # ---- termination monitor
    evmon.reset_steps()
    if stepmon:
        evmon.STEP_SAMPLING.update(p=.15, rng=rng_for(*seed_key, 'steps'))
    else:
        evmon.STEP_SAMPLING.update(p=0.)
    simp = None
    fail = None
    try:
        with evmon.wall(WALL_NOMINATE_S):
            simp = tuple(o.simplified for o in outs)
    except evmon.StepBudget as e:
        fail = ('step-budget', str(e))
    except evmon.WallNominate:
        # nominate only; the logical line clock convicts
        res.count('wall_nominated')
        status, r, lines = evmon.line_clock(lambda: tuple(o.simplified for o in evgen.build(case)[1]), LINE_BUDGET, wall_s=60)
        if status == 'budget':
            # A step that is still running after the line budget is either divergent or merely explosive (e.g.
            # ((a|a|a)**4)*2 needs ~1e4 rewrite steps with ever larger constant index tables but terminates).  No finite
            # run tells these apart, so only the known call-site signature is classified; the rest is an unresolved suspect.
            detail = f'simplification still running after {lines} executed lines | hot rules: ' + ','.join(evmon.hot_rules())
            mech = evfind.classify_c01(case, 'line-budget', detail)
            if mech:
                res.violation('simplification does not terminate normally: line-budget', dict(case=case, desc=evgen.describe(case)), detail, mechanism=mech)
            else:
                res.count('slow_suspect_unresolved')
                res.note('unresolved slow suspect (line budget exceeded, no cycle evidence): ' + evgen.skeleton(case)[:300])
            return
        elif status == 'raised' and isinstance(r, evmon.StepBudget):
            fail = ('step-budget', str(r))
        elif status == 'raised':
            fail = ('exception', f'{type(r).__name__}: {r}')
        elif status == 'wall':
            res.count('inconclusive_wall')
            res.note('wall watchdog fired before the line budget: ' + evgen.skeleton(case)[:200])
            return
        else:
            res.count('slow_but_terminating')
            built, outs = evgen.build(case)
            simp = tuple(o.simplified for o in outs)
    except RecursionError as e:
        fail = ('exception', 'RecursionError')
    except Exception as e:
        fail = ('exception', f'{type(e).__name__}: {str(e)[:300]}')
        tb = traceback.format_exc()
    steps = evmon.STEPS['simplified']
    res.maximum('max_rewrite_steps', steps)
    res.count('rewrite_steps_total', steps)
    if fail:
        fail = (fail[0], fail[1] + ' | hot rules: ' + ','.join(evmon.hot_rules()))
        mech = evfind.classify_c01(case, fail[0], fail[1])
        if fail[0] == 'step-budget' and not mech:
            status, r, steps = confirm_budget(case)
            res.maximum('max_rewrite_steps', steps)
            if status == 'terminates':
                res.count('slow_but_terminating')
                outs, simp = r
                fail = None
            elif status == 'wall':
                res.count('slow_suspect_unresolved')
                res.note('unresolved slow suspect (step budget exceeded, confirmation run hit the wall): ' + evgen.skeleton(case)[:300])
                return
            else:
                fail = ('step-budget' if status == 'budget' else 'exception', f'{r} (confirmation run with {CONFIRM_STEPS} steps) | ' + fail[1])
    if fail:
        res.violation('simplification does not terminate normally: ' + fail[0], dict(case=case, desc=evgen.describe(case)), fail[1], mechanism=mech)
        return
    changed = any(s is not o for s, o in zip(simp, outs))
    nontrivial = evgen.ninner(case) >= 3 and changed
    if nontrivial:
        res.add('distinct', evgen.skeleton(case))
    for d in case['nodes']:
        res.count('op/' + (d['op'] + (':' + d['p']['f'] if 'f' in d['p'] else '')))
    # ---- static preservation: dtype and (constant) shape
    for o, s, oi in zip(outs, simp, case['outputs']):
        if s.dtype != o.dtype or s.ndim != o.ndim:
            res.violation('simplified form changes dtype/ndim', dict(case=case, desc=evgen.describe(case)), f'{o.dtype}/{o.ndim} -> {s.dtype}/{s.ndim}')
            return
    # ---- value preservation
    k = nassign or NASSIGN[tier]
    for a in range(k):
        r = evgen.in_domain_args(case, rng)
        if r is None:
            res.count('out_of_domain')
            continue
        av, ref, scale = r
        res.count('assignments')
        try:
            e1 = evmon.evaluate(simp, av, simplify=False, optimize=False)
        except Exception as e:
            detail = f'evaluating the simplified form raised {type(e).__name__}: {str(e)[:300]}'
            # does the original evaluate?
            try:
                e0 = evmon.evaluate(outs, av, simplify=False, optimize=False)
                mech = evfind.classify_c01(case, 'eval-exception', detail)
                res.violation('simplified form fails to evaluate', dict(case=case, args=enc_args(av), desc=evgen.describe(case)), detail, mechanism=mech)
            except Exception as e2:
                res.count('original_fails_to_evaluate')
                res.note(f'original fails to evaluate ({type(e2).__name__}: {str(e2)[:120]}): {evgen.skeleton(case)[:160]}')
            return
        bad = None
        for j, (g, rf) in enumerate(zip(e1, ref)):
            v, det = tolerance.compare(g, rf, scale)
            res.count('compare/' + v)
            if v == tolerance.VIOLATION:
                bad = (j, det)
                break
        if bad:
            # three-way: is the un-simplified evaluation right?
            try:
                e0 = evmon.evaluate(outs, av, simplify=False, optimize=False)
                ok0 = all(tolerance.compare(g, rf, scale)[0] != tolerance.VIOLATION for g, rf in zip(e0, ref))
            except Exception:
                ok0 = False
            if not ok0:
                res.count('shadow_or_translation_suspect')
                res.note('un-simplified evaluation also disagrees with the shadow (routed to C02/harness): ' + evgen.skeleton(case)[:200])
                return
            mech = evfind.classify_c01(case, 'wrong-value', bad[1])
            res.violation('simplified form evaluates to a different value', dict(case=case, args=enc_args(av), desc=evgen.describe(case)),
                          f'output {bad[0]}: {bad[1]}; simplified={simp[bad[0]]}', mechanism=mech)
            return
        # ---- per-step monitor
        if stepmon and a == 0 and evmon.SAMPLED_STEPS:
            step_monitor(av, case, res)
    res.sample_case = case


def step_monitor(av, case, res):
    from nutils import evaluable as ev, _util as util
    pairs = list(evmon.SAMPLED_STEPS)
    evmon.SAMPLED_STEPS.clear()
    evmon.STEP_SAMPLING['p'] = 0.
    for obj, ret in pairs:
        free = [a for a in obj.arguments if isinstance(a, ev._LoopIndex)]
        if any(not isinstance(i.length, ev.Constant) for i in free) or len(free) > 2:
            continue
        if free and any(loop.index in free for x in (obj, ret) for loop in getattr(x, '_loops', ())):
            continue   # an inner loop re-binds the same index: substituting a constant would also hit the inner body
        envs = [{}]
        for i in free:
            envs = [{**e, id(i): (i, k)} for e in envs for k in range(int(i.length.value))]
        for env in envs[:6]:
            def bind(x):
                if env:
                    m = {i: ev.constant(k) for i, k in env.values()}
                    return util.shallow_replace(lambda o: m.get(o) if isinstance(o, ev._LoopIndex) else None, x)
                return x
            try:
                with numpy.errstate(all='ignore'):
                    a = evmon.evaluate(bind(obj), av, simplify=False, optimize=False)
            except Exception:
                res.count('stepmon/lhs_not_evaluable')
                continue
            if not numpy.isfinite(numpy.asarray(a, dtype=complex) if numpy.asarray(a).dtype.kind in 'fc' else 0).all():
                res.count('stepmon/lhs_nonfinite')
                continue
            try:
                b = evmon.evaluate(bind(ret), av, simplify=False, optimize=False)
            except Exception as e:
                res.violation('rewrite step result fails to evaluate', dict(case=case, desc=evgen.describe(case)), f'{type(obj).__name__} -> {type(ret).__name__}: {type(e).__name__}: {str(e)[:200]}',
                              mechanism=evfind.classify_c01(case, 'eval-exception', str(e)))
                return
            scale = max(1., float(numpy.abs(a).max()) if numpy.asarray(a).size and numpy.asarray(a).dtype.kind in 'fc' else 1.)
            v, det = tolerance.compare(b, a, scale)
            res.count('stepmon/' + v)
            res.add('stepmon_rules', f'{type(obj).__name__}->{type(ret).__name__}')
            if v == tolerance.VIOLATION and not numpy.isfinite(numpy.asarray(b, dtype=complex) if numpy.asarray(b).dtype.kind in 'fc' else 0).all():
                # a non-finite right-hand side with a finite left-hand side: if some SUB-TERM of the left-hand side is already non-finite at
                # this assignment (e.g. a NaN loop-invariant body of a zero-length loop sum, rewritten to body*0) the point is outside
                # the domain of the expression and the step is not judged
                from nutils import evaluable as ev_
                stack, seen, dirty = [obj], set(), False
                while stack and len(seen) < 80 and not dirty:
                    x = stack.pop()
                    if id(x) in seen or not isinstance(x, ev_.Array) or isinstance(x, ev_._LoopIndex):
                        continue
                    seen.add(id(x))
                    stack.extend(x.dependencies)
                    if x.dtype in (float, complex) and not any(isinstance(q, ev_._LoopIndex) and q not in free for q in x.arguments):
                        try:
                            with numpy.errstate(all='ignore'):
                                xv = numpy.asarray(evmon.evaluate(bind(x), av, simplify=False, optimize=False))
                            dirty = not numpy.isfinite(xv).all()
                        except Exception:
                            pass
                if dirty:
                    res.count('stepmon/lhs_subterm_nonfinite')
                    continue
            if v == tolerance.VIOLATION:
                res.violation('single rewrite step changes the value', dict(case=case, args=enc_args(av), desc=evgen.describe(case)),
                              f'{obj} -> {ret}: {det}', mechanism=evfind.classify_c01(case, 'wrong-value', det))
                return


def enc_args(av):
    return {k: evgen.encode(v) for k, v in av.items()}


def run_units(units, ctx):
    evgen.self_test()
    setup()
    res = Result()
    stepmon = ctx.tier == 'thorough'
    for u in units:
        if u['kind'] == 'random':
            for i in range(u['start'], u['stop']):
                if ctx.expired():
                    res.count('skipped_deadline')
                    continue
                rng = rng_for(ctx.seed, 'c01', i)
                profile = str(rng.choice(['all', 'all', 'float', 'int']))
                case = evgen.generate(rng, size=int(rng.integers(4, 24)), profile=profile)
                check_case(case, (ctx.seed, 'c01', i), res, ctx.tier, stepmon=stepmon and i % 4 == 0)
                if i % 1499 == 0:
                    res.sample(dict(kind='random', index=i, desc=evgen.describe(case)))
        elif u['kind'] == 'siblings':
            for ci, (k1, k2, f) in enumerate(u['chains']):
                for rep in range(u['reps']):
                    if ctx.expired():
                        res.count('skipped_deadline')
                        continue
                    key = (ctx.seed, 'c01sib', k1, k2, f, rep)
                    try:
                        case = evgen.siblings(rng_for(*key), k1, k2, f)
                    except evgen.Reject:
                        res.count('chain_not_constructible')
                        continue
                    res.add('siblings_built', f'{k1}/{k2}/{f}')
                    check_case(case, key, res, ctx.tier, nassign=1, stepmon=stepmon)
        elif u['kind'] == 'scatter':
            for ci, (name, inloop) in enumerate(u['chains']):
                for rep in range(u['reps']):
                    if ctx.expired():
                        res.count('skipped_deadline')
                        continue
                    key = (ctx.seed, 'c01scatter', name, int(inloop), rep)
                    try:
                        case = evgen.scatterchain(rng_for(*key), [name] if name else [], inloop)
                    except evgen.Reject:
                        res.count('chain_not_constructible')
                        continue
                    res.add('scatter_built', f'{name}/{int(inloop)}')
                    check_case(case, key, res, ctx.tier, nassign=1, stepmon=stepmon)
                    if ci == 3 and rep == 0:
                        res.sample(dict(kind='scatter', name=name, inloop=inloop, desc=evgen.describe(case)), cap=2)
        else:
            for ci, names in enumerate(u['chains']):
                for rep in range(u['reps']):
                    if ctx.expired():
                        res.count('skipped_deadline')
                        continue
                    rng = rng_for(ctx.seed, 'c01chain', '/'.join(names), rep)
                    try:
                        case = evgen.chain(rng, list(reversed(names)))
                    except evgen.Reject:
                        res.count('chain_not_constructible')
                        continue
                    res.add('chains_built', '/'.join(names))
                    check_case(case, (ctx.seed, 'c01chain', '/'.join(names), rep), res, ctx.tier, nassign=1, stepmon=stepmon)
                    if ci == 7 and rep == 0:
                        res.sample(dict(kind='chain', names=names, desc=evgen.describe(case)), cap=2)
    for k, v in evmon.RULES_CALLED.items():
        res.count('rule_called/' + k, v)
    for k, v in evmon.RULES_FIRED.items():
        res.count('rule_fired/' + k, v)
    return res


def replay(case):
    evgen.self_test()
    setup()
    res = Result()
    if 'reproducer' in case:
        return []
    check_case(case['case'], (0, 'replay'), res, 'thorough', nassign=4, stepmon=True)
    return res.violations


REPRODUCERS = evfind.C01_REPRODUCERS


def finalize(m, tier, seed):
    c = m.counters
    called = {k[12:] for k in c if k.startswith('rule_called/')}
    fired = {k[11:] for k in c if k.startswith('rule_fired/')}
    simp_rules = {r for r in called if not r.endswith(('._assparse', '._derivative', '._intbounds_impl', '._optimized_for_numpy'))}
    cov = dict(evaluations=c.get('evaluations', 0), distinct_nontrivial=len(m.sets.get('distinct', ())), rule=RULE, samples=m.samples[:4],
               assignments=c.get('assignments', 0), out_of_domain=c.get('out_of_domain', 0), rejected_constructions=c.get('rejected_constructions', 0),
               comparisons={k[8:]: v for k, v in c.items() if k.startswith('compare/')},
               max_rewrite_steps=m.maxima.get('max_rewrite_steps', 0), rewrite_steps_total=c.get('rewrite_steps_total', 0),
               wall_nominated=c.get('wall_nominated', 0), slow_but_terminating=c.get('slow_but_terminating', 0), inconclusive_wall=c.get('inconclusive_wall', 0),
               slow_suspect_unresolved=c.get('slow_suspect_unresolved', 0),
               operator_kinds=len([k for k in c if k.startswith('op/')]), chains_built=len(m.sets.get('chains_built', ())), scatter_sum_kinds_built=len(m.sets.get('scatter_built', ())), sibling_combinations_built=len(m.sets.get('siblings_built', ())), chain_not_constructible=c.get('chain_not_constructible', 0),
               rule_pairs_called=len(simp_rules), rule_pairs_fired=len(simp_rules & fired), rule_pairs_never_fired=sorted(simp_rules - fired)[:60],
               step_monitor={k[8:]: v for k, v in c.items() if k.startswith('stepmon/')}, step_monitor_rules=len(m.sets.get('stepmon_rules', ())),
               shadow_or_translation_suspect=c.get('shadow_or_translation_suspect', 0), original_fails_to_evaluate=c.get('original_fails_to_evaluate', 0),
               skipped_deadline=c.get('skipped_deadline', 0))
    inc = None
    from vlib.runner import scaled
    if cov['evaluations'] < 0.5 * scaled(NCASES[tier]):
        inc = f"only {cov['evaluations']} cases ran before the deadline"
    elif cov['assignments'] < cov['evaluations'] * 0.5:
        inc = 'too few in-domain assignments'
    elif cov['rule_pairs_called'] and cov['rule_pairs_fired'] < 0.5 * cov['rule_pairs_called']:
        inc = f"only {cov['rule_pairs_fired']} of {cov['rule_pairs_called']} rewrite-rule pairs fired"
    elif cov['slow_suspect_unresolved'] > 3 + 0.003 * cov['evaluations']:
        inc = f"{cov['slow_suspect_unresolved']} cases exceeded the line budget without cycle evidence (unresolved suspects)"
    elif cov['inconclusive_wall'] > 3 + 0.0002 * cov['evaluations']:
        inc = 'wall watchdog fired before the logical budget on several cases'
    elif cov['shadow_or_translation_suspect'] > 0.002 * cov['evaluations'] + 3:
        inc = 'un-simplified evaluation disagrees with the shadow on too many cases (shadow suspect)'
    return dict(coverage=cov, inconclusive=inc)
