"""C07 — Function arrays follow NumPy semantics at every point.

Monitor shape: G-fn homomorphism oracle (DESIGN 1.3).  A case is a small program of NumPy-API calls (every entry of
function.HANDLED_FUNCTIONS, the python operators, and Array.__getitem__ forms) over leaves whose per-point numpy values
are known independently of the operation under test: constants, Arguments with supplied values, and topology leaves
(geometry, basis, element index, local coordinates, normal, sample.bind / sample.integral of another sample) whose
values come from a SEPARATE evaluation of the leaf alone on the same sample.  The very same NumPy-API expression is
applied (a) to the nutils function arrays and (b) point by point to the operands' numpy values; the monitors demand

* value: sample.eval(op(*operands))[p] == np_op(*(operand values at p)) at every sample point (vlib.tolerance bands,
  bool/int exact), for every operation node of the program (depth <= 4), on samples with 0, 1, 2 and 3 point axes;
* shape: `.shape` equals numpy's; element kind: `.dtype` and the evaluated dtype have numpy's kind, except for the
  explicit table vlib.c07_ops.KIND_DIFFERENCES;
* rejection: a valid depth-1 call whose operand shapes are perturbed in one axis length such that numpy raises
  ValueError must raise when the nutils expression is BUILT;
* an expression that was built from a numpy-valid, in-domain call must evaluate (an exception at evaluation is a
  violation: the function array has no value at the points).

Documented refusals at build time (NotImplementedError, 'not supported', NumPy keywords nutils does not take, the
axis-mandatory error of Array.sum, repeat on non-singleton axes, ...) are counted as unsupported, never violations;
other build-time refusals of numpy-valid calls are listed in the evidence (`refused_undocumented`) but are not refuting
events of this property either.
"""

import json, os, hashlib, traceback
import numpy
from vlib.runner import Result, rng_for

PROPERTY = 'C07'
LEVEL = 'exploration'
RULE = ('programs of <=4 NumPy-API operations (all 78 function.HANDLED_FUNCTIONS entries + Array.__getitem__; helper index/shift nodes may add depth) over constants, Arguments and topology leaves, '
        'generated per (environment, target operation, index) from the seed: a systematic part (every operation as the last call, in each of 6 '
        'environments: function.eval without sample, plain, mixed-element, boundary, 2-space and 3-space product samples), random compositions, '
        'hostile corners (out-of-range / reversed slices, several index arrays, negative transpose axes, abs of bool, interp with int fp and float '
        'left/right), a sibling family BINOP(OP(x;p), OP(y;q)) with (x,p) != (y,q) for every operation (same operand / different parameter, same parameter / '
        'different operand, both; selector or index constant vs function valued; BINOP in multiply add subtract maximum equal minimum), targeted negative function-valued indices into bases / stacked operands, integer-range-sensitive compositions (integer constants '
        'and element indices of one sign class combined by stack/concatenate/choose/arithmetic, then minimum/maximum/clip/mod/floor_divide/comparison/'
        'where-like/indexing with the other operand at the edge of the true range), direct calls of function.broadcast_shapes / '
        'broadcast_arrays / typecast_arrays, and shape perturbations (one axis length of one operand) that numpy rejects. non-trivial = at least one operation node was built on a function array, evaluated on the '
        'sample and compared at every point (or, in reject mode, numpy rejected the perturbed shapes); distinct = hash of the program structure '
        '(environment, operations, forms, parameters, operand kinds and shapes; leaf values excluded)')
ASSUMPTIONS = [
    'NumPy 2.x applied per point to independently known operand values is the reference',
    'operands are kept inside the domain where NumPy emits no warnings (no division by ~0, log<=0, arcsin outside (-.9,.9), singular matrices, branch cuts, kinks within 1e-6)',
    'function-valued indices / choose selectors are generated only in the supported form: integer expressions with provable bounds (element index, mod by a constant) that do not depend on the point coordinates',
    'integer powers use constant non-negative exponents (nutils needs provable bounds); empty (size-0) arrays occur only as the result of a reversed slice, never as operands',
    'build-time refusals of numpy-valid calls are not refuting events of this property: documented ones are counted (unsupported_documented), the others are listed (refused_undocumented)',
    'a failure that disappears with evaluable.compile(_optimize=False) is attributed to the code generator (mechanism C07-optimized-mode-only, scope of C02)',
    'accepted nutils/NumPy differences are listed in coverage.accepted_differences',
]
BUDGET_S = {'quick': 95, 'thorough': 1500}
GRACE_S = 60

SYS_PER = {'quick': 2, 'thorough': 40}          # targeted cases per (operation, environment)
RAND = {'quick': 1400, 'thorough': 36000}       # random compositions
REJECT_PER = {'quick': 12, 'thorough': 120}     # rejection cases per shape-sensitive operation
HOSTILE_PER = {'quick': 3, 'thorough': 20}      # per (hostile corner, environment)
FNINDEX_PER = {'quick': 8, 'thorough': 80}      # per (take|getitem, environment): negative function-valued index into a basis / stacked operand
SIBLING_PER = {'quick': 3, 'thorough': 40}       # BINOP(OP(x;p), OP(y;q)) cases per operation (unary ufuncs: a third; key operations such as choose/take/stack: x8)
SIBLING_ENVS = ['const', 'plain', 'mixed', 'const', 'boundary', 'prod2', 'plain', 'const', 'mixed', 'prod3', 'plain', 'boundary']
INTRANGE_PER = {'quick': 40, 'thorough': 1200}  # integer-range-sensitive compositions (x INTRANGE_WEIGHT per environment)
INTRANGE_WEIGHT = {'const': 3., 'plain': 1.5, 'mixed': .5, 'boundary': .5, 'prod2': .4, 'prod3': .2}
HELPER_UNITS = {'quick': 4, 'thorough': 30}     # x100 direct calls of function.broadcast_shapes / broadcast_arrays / typecast_arrays
CHUNK = 40
# evaluation on product samples is 5-10x more expensive (nested point loops in the generated code): fewer cases there
ENV_WEIGHT = {'const': 1.5, 'plain': 1., 'mixed': 1., 'boundary': 1., 'prod2': .75, 'prod3': .5}     # quick: 3/2/2/2/2/1 cases per operation
RAND_ENVS = ['const', 'plain', 'mixed', 'boundary', 'prod2', 'prod3', 'const', 'plain', 'boundary', 'prod2', 'mixed', 'plain']

FINDINGS = {
    # id: (what, enabled).  A disabled finding removes the corresponding hostile corner from the workload; if the corner is still
    # met by the random generator it is counted under coverage.excluded_corners instead of being reported.
    'C07-slice-bounds-not-clamped': ('Array.__getitem__ with a unit-step slice whose bounds lie outside the axis (a[1:10] on length 3, a[2:1]) '
                                     'does not clamp like NumPy: wrong .shape at build and AssertionError at evaluation', True),
    'C07-multi-index-array-outer': ('Array.__getitem__ with two index arrays (a[[0,1],[2,0]]) indexes the outer product instead of pairing the '
                                    'arrays like NumPy: different shape and values', True),
    'C07-transpose-negative-axes': ('numpy.transpose(f, axes) with a negative entry in axes builds but fails with AssertionError at evaluation', True),
    'C07-abs-int-range-unknown': ('numpy.abs of an integer function array was not usable as integer exponent (range of x*sign(x) not recognised as non-negative)', True),
    'C07-abs-bool': ('numpy.abs of a bool function array builds (dtype bool) but evaluation raises UFuncTypeError', True),
    'C07-interp-int-fp-truncates-left-right': ('numpy.interp(f, xp, fp, left=, right=) with integer fp truncates float left/right to int', True),
    'C07-matmul-singleton-contraction': ('numpy.matmul accepts a contraction axis of length 1 against length n (NumPy rejects): the singleton is broadcast', True),
    'C07-vdot-broadcasts': ('numpy.vdot broadcasts its operands instead of flattening them: shapes (n,) and (1,) are accepted (NumPy rejects) and '
                            'equal-size operands of different shape such as (1,n),(n,1) give the sum over the outer product instead of the dot product', True),
    'C07-eig-nonsquare-accepted': ('numpy.linalg.eig / eigh accept a non-square operand when the expression is built; it only fails at evaluation', True),
    'C07-det-inv-int': ('numpy.linalg.det / inv of an integer function array build (dtype float) but evaluation raises AssertionError '
                        '(evaluable.Determinant/Inverse demand a float operand; no typecast)', True),
    'C07-optimized-mode-only': ('evaluation fails (or differs) only with the optimisation pass of evaluable.compile, e.g. numpy.choose(k, [scalar, basis]) on a '
                                'product sample: ValueError in the generated Assemble statement; the unoptimised evaluation equals NumPy (root cause in the scope of C02)', True),
    'C07-empty-result-on-product-sample': ('a function array with a zero-length axis (a[2:1]) evaluated on a product sample (sx*sy) comes back with 0 points: '
                                           'shape (0, 0, ...) instead of (npoints, 0, ...); _Mul._bind reshapes with -1', True),
    'C07-assemble-intbounds-missing': ('an integer numpy.stack / numpy.concatenate result used as index (numpy.take, __getitem__) or as integer exponent failed with '
                                       'AssertionError in the optimisation pass: evaluable.Assemble had no _intbounds_impl, so its inferred range was (-inf, inf)', True),
    'C07-int-range-lost-in-rewrite': ('an ELEMENT of an integer numpy.stack / numpy.concatenate result (stack(...)[:, -1], numpy.take(stack, k, axis)) used as index or as integer '
                                      'exponent builds but fails with AssertionError at evaluation: Inflate._take rewrites it into a Sum over a length bounded by (0, inf), and the '
                                      'range assertion of NormDim / Power is re-run on the widened operand', True),
    'C07-choose-bool-selector': ('numpy.choose(f > 0, [a, b]) with a boolean selector built but evaluation raised AssertionError (evaluable.Choose demands an int index)', True),
    'C07-cross-int-float': ('numpy.cross of two integer function arrays has dtype float (float Levi-Civita symbol); NumPy gives int', True),
}


def _imports():
    from vlib import c07_env, c07_ops, c07_core, c07_gen
    return c07_env, c07_ops, c07_core, c07_gen


def plan(tier, seed):
    from vlib.c07_ops import OPS
    from vlib.c07_env import ENV_NAMES
    from vlib.c07_gen import SHAPE_SENSITIVE, HOSTILE
    # cheap and deciding units first (helpers, rejection, hostile corners), then the systematic part, random compositions last:
    # if a loaded machine hits the deadline, it is the random tail that is cut (and reported)
    units = []
    for k in range(HELPER_UNITS[tier]):
        units.append(dict(kind='helpers', index=k, n=100))
    for k in range(0, len(SHAPE_SENSITIVE), 4):
        units.append(dict(kind='reject', ops=SHAPE_SENSITIVE[k:k + 4], n=REJECT_PER[tier]))
    for h in HOSTILE:
        units.append(dict(kind='hostile', which=h, n=HOSTILE_PER[tier]))
    for env in ENV_NAMES:
        if env != 'const':
            units.append(dict(kind='fnindex', env=env, n=FNINDEX_PER[tier]))
    from vlib.c07_gen import SIBLING_OPS
    for k in range(0, len(SIBLING_OPS), 8):
        units.append(dict(kind='sibling', ops=SIBLING_OPS[k:k + 8], n=SIBLING_PER[tier]))
    for env in ENV_NAMES:
        n = max(2, int(round(INTRANGE_PER[tier] * INTRANGE_WEIGHT[env])))
        for k in range(0, n, 40):
            units.append(dict(kind='intrange', env=env, start=k, stop=min(n, k + 40)))
    names = sorted(OPS)
    sysunits = []
    for env in ENV_NAMES:
        for k in range(0, len(names), 6):
            sysunits.append(dict(kind='sys', env=env, ops=names[k:k + 6], n=max(1, int(round(SYS_PER[tier] * ENV_WEIGHT[env])))))
    rng = rng_for(seed, 'c07', 'plan')
    units += [sysunits[i] for i in rng.permutation(len(sysunits))]
    nr = RAND[tier]
    i = 0
    while i < nr:
        units.append(dict(kind='rand', start=i, stop=min(nr, i + CHUNK)))
        i += CHUNK
    return units


# ---------------------------------------------------------------------------------------------------------------------

def classify(prog, monitor, nodeid, detail=''):
    """Structural predicate: does the failing node match the mechanism of a ledger finding?"""
    byid = {s['id']: s for s in prog['nodes']}
    s = byid.get(nodeid)
    if s is None or 'op' not in s:
        return None
    op, params = s['op'], s['params']
    scattered = lambda t: t.get('op') in ('stack', 'concatenate') or (t.get('leaf') == 'topo' and 'ivec' in t['name'])     # X.ivec is a numpy.stack
    if monitor.startswith('evaluation failed') and 'AssertionError' in detail and op in ('power', 'take', 'getitem'):
        # the integer exponent / index operands (everything but the base / the indexed array) and what they are made of
        sub = [byid[a] for r in s['args'][1:] for a in ({r} | _ancestors(prog, r)) if a in byid]
        # element-of-stack mechanism: somewhere below the index / exponent a take or __getitem__ extracts from a scattered integer array
        element = any(t.get('op') in ('take', 'getitem') and any(scattered(byid[a]) for a in ({t['args'][0]} | _ancestors(prog, t['args'][0])) if a in byid) for t in sub)
        # the expression was BUILT (its ranges were provable at construction) and the range assertion failed when a rewrite rule
        # re-created the node on a rewritten operand: traceback passes through the lazy `simplified` / optimisation properties
        rewritten = '_util.py' in detail and 'in __get__' in detail and '__post_init__' in detail and '_intbounds' in detail
        if element or rewritten:
            return 'C07-int-range-lost-in-rewrite'
        if any(scattered(t) for t in sub):
            return 'C07-assemble-intbounds-missing'
    if monitor.endswith('(optimised code only)'):
        return 'C07-optimized-mode-only'
    if op == 'choose' and monitor == 'evaluation failed' and _kind_of(prog, byid[s['args'][0]]) == 'b':
        return 'C07-choose-bool-selector'
    if monitor == 'evaluated shape' and prog['env'] in ('prod2', 'prod3') and 0 in prog.get('_shapes', {}).get(str(nodeid), ()):
        return 'C07-empty-result-on-product-sample'
    if prog.get('mode') == 'reject':
        pert = prog.get('perturbed') or {}
        shapes = [_shape_of(prog, byid[a]) for a in s['args']]
        if op == 'matmul' and len(shapes) == 2 and all(shapes) and 1 in (shapes[0][-1], shapes[1][-1 if len(shapes[1]) == 1 else -2]):
            return 'C07-matmul-singleton-contraction'      # the contraction axis of one operand is a singleton that gets broadcast
        if op == 'vdot' and len(shapes) == 2 and shapes[0] != shapes[1]:
            return 'C07-vdot-broadcasts'
        if op in ('linalg.eig', 'linalg.eigh'):
            return 'C07-eig-nonsquare-accepted'
        return None
    if op == 'getitem':
        base = byid[s['args'][0]]
        if monitor in ('shape', 'evaluation failed') and _has_oob_slice(params['items'], _shape_of(prog, base)):
            return 'C07-slice-bounds-not-clamped'
        # more than one index ARRAY (ndim >= 1; constant or function valued) in one __getitem__
        narr = sum(1 for it in params['items'] if isinstance(it, dict) and (('a' in it and len(it['a']['s']) >= 1) or ('r' in it and len(_shape_of(prog, byid[s['args'][it['r']]])) >= 1)))
        if monitor in ('shape', 'value') and narr >= 2:
            return 'C07-multi-index-array-outer'
    if op == 'vdot' and monitor == 'value' and _shape_of(prog, byid[s['args'][0]]) != _shape_of(prog, byid[s['args'][1]]):
        return 'C07-vdot-broadcasts'
    if op == 'transpose' and monitor == 'evaluation failed' and s['form'] in ('func', 'method') and any(a < 0 for a in params.get('axes', [])):
        return 'C07-transpose-negative-axes'
    if op == 'absolute' and monitor == 'evaluation failed' and _kind_of(prog, byid[s['args'][0]]) == 'b':
        return 'C07-abs-bool'
    if op in ('linalg.det', 'linalg.inv') and monitor == 'evaluation failed' and _kind_of(prog, byid[s['args'][0]]) in 'bi':
        return 'C07-det-inv-int'
    if op == 'cross' and monitor == 'dtype kind' and all(_kind_of(prog, byid[a]) in 'bi' for a in s['args']):
        return 'C07-cross-int-float'
    if op == 'interp' and monitor == 'value' and s['form'] == 'lr' and not params.get('fpc') and all(isinstance(v, int) for v in params['fp']) \
            and any(isinstance(params.get(k), float) and params[k] != int(params[k]) for k in ('left', 'right')):
        return 'C07-interp-int-fp-truncates-left-right'
    return None


_shape_cache = {}


def _shape_of(prog, s):
    """shape of a node of a program (recomputed by replaying shapes only where needed: leaves store it, ops are looked up from the last run)"""
    if 'leaf' in s:
        if s['leaf'] == 'topo':
            from vlib import c07_env
            return tuple(c07_env.get(prog['env']).leaves[s['name']][1].shape[1:])
        return tuple(s['value']['s'])
    return tuple(prog.get('_shapes', {}).get(str(s['id']), ()))


def _kind_of(prog, s):
    if 'leaf' in s:
        if s['leaf'] == 'topo':
            from vlib import c07_env
            return c07_env.get(prog['env']).leaves[s['name']][2]['kind']
        return s['value']['k']
    return prog.get('_kinds', {}).get(str(s['id']))


def _ancestors(prog, nid):
    byid = {s['id']: s for s in prog['nodes']}
    out, todo = set(), [nid]
    while todo:
        for a in byid.get(todo.pop(), {}).get('args', []):
            if a not in out:
                out.add(a)
                todo.append(a)
    return out


def _has_oob_slice(items, shape):
    nd = len(shape)
    nexplicit = sum(1 for it in items if it != 'e' and it != 'n')
    ax = 0
    for it in items:
        if it == 'e':
            ax += nd - nexplicit
        elif it == 'n':
            continue
        else:
            if isinstance(it, dict) and 's' in it and ax < nd:
                n = shape[ax]
                a, b, st = it['s']
                if st in (None, 1):
                    if (a is not None and not -n <= a <= n) or (b is not None and not -n <= b <= n):
                        return True
                    lo, hi, _ = slice(a, b, st).indices(n)
                    if lo > hi:
                        return True
            ax += 1
    return False


def annotate(case):
    """store shapes/kinds of op nodes in the program so that a replay file is self-explaining and classify() can use them"""
    case.prog['_shapes'] = {str(n.id): list(n.shape) for n in case.order if n.shape is not None}
    case.prog['_kinds'] = {str(n.id): n.kind for n in case.order if n.kind is not None}
    return case.prog


def finish(case, res, key):
    """verify a built case, record violations and counters"""
    c07_env, c07_ops, c07_core, c07_gen = _imports()
    prog = annotate(case)
    res.count('evaluations')
    res.count('env/' + case.env.name)
    res.count(f'point_axes/{case.env.npoint_axes}')
    opnodes = [n for n in case.order]
    if case.prog.get('mode') != 'reject':
        case.verify()
        if opnodes and not case.violations:
            res.count('depth/%d' % max(n.depth for n in opnodes))
            for n in opnodes:
                if n.verified:
                    res.count('op_verified/' + n.opname)
                    res.count(f'op_verified_env/{n.opname}/{case.env.npoint_axes}')
    nontrivial = bool(opnodes) if case.prog.get('mode') != 'reject' else True
    if nontrivial:
        res.add('distinct', hashlib.sha1(c07_core.structure_hash(prog).encode()).hexdigest()[:16])
    for monitor, detail, nid in case.violations:
        mech = classify(prog, monitor, nid, detail)
        if mech and not FINDINGS[mech][1]:
            res.count('excluded_corner/' + mech)     # switched off by the maintainer of the ledger: counted, not reported
            continue
        expr = ''
        try:
            expr = case.describe(nid)
        except Exception:
            pass
        res.violation(monitor, dict(key=key, program=prog, failing_node=nid, expression=expr[:600]), f'{expr[:300]} :: {detail}', mechanism=mech)
    return prog


def run_units(units, ctx):
    if ctx.shard % 2:
        os.environ['NUTILS_DEBUG'] = 'evalf'      # nutils' own evaluation sanitizer in every second worker (must precede the import)
    c07_env, c07_ops, c07_core, c07_gen = _imports()
    from nutils import debug_flags
    res = Result()
    res.add('debug_flags', f'lower={bool(debug_flags.lower)} sparse={bool(debug_flags.sparse)} evalf={bool(debug_flags.evalf)}')
    # the catalogue is compared with the table of the tree under test: a handled function the catalogue does not know is 'uncovered'
    from nutils import function
    alias = {'divide': 'true_divide', 'remainder': 'mod'}
    for f in function.HANDLED_FUNCTIONS:
        n = ('linalg.' if 'linalg' in (getattr(f, '__module__', '') or '') else '') + f.__name__
        n = alias.get(n, n)
        res.add('handled', n)
        if n not in c07_ops.OPS:
            res.add('handled_not_in_catalogue', n)
    seed = ctx.seed
    for u in units:
        if ctx.expired():
            res.count('units_skipped_deadline')
            continue
        try:
            run_unit(u, seed, res, ctx)
        except Exception:
            # a crash of the harness itself must not be mistaken for anything else
            res.note('HARNESS: ' + traceback.format_exc()[-900:])
            res.count('harness_errors')
    for env in c07_env._cache.values():
        for lname, detail in env.failures:
            res.violation('leaf evaluation failed', dict(env=env.name, leaf=lname), f'{lname} alone on the {env.name} sample: {detail}')
    return res


def run_unit(u, seed, res, ctx):
    c07_env, c07_ops, c07_core, c07_gen = _imports()
    envs = c07_env.ENV_NAMES
    if u['kind'] == 'sys':
        for opname in u['ops']:
            for i in range(u['n']):
                if ctx.expired():
                    res.count('cases_skipped_deadline')
                    continue
                key = ['sys', u['env'], opname, i]
                rng = rng_for(seed, 'c07', *key)
                case = c07_gen.generate(u['env'], rng, res, target=opname, nops=int(rng.choice([1, 1, 2, 3])))
                prog = finish(case, res, key)
                res.count('cases/sys')
                if i == 0 and opname in ('einsum', 'getitem', 'matmul', 'take') and u['env'] in ('prod2', 'boundary'):
                    res.sample(dict(key=key, program=slim(prog)), cap=2)
    elif u['kind'] == 'rand':
        for i in range(u['start'], u['stop']):
            if ctx.expired():
                res.count('cases_skipped_deadline')
                continue
            env = RAND_ENVS[i % len(RAND_ENVS)]
            key = ['rand', env, i]
            rng = rng_for(seed, 'c07', *key)
            case = c07_gen.generate(env, rng, res, nops=int(rng.choice([2, 3, 4, 4])))
            prog = finish(case, res, key)
            res.count('cases/rand')
            if i % 997 == 5:
                res.sample(dict(key=key, program=slim(prog)), cap=2)
    elif u['kind'] == 'reject':
        for opname in u['ops']:
            for i in range(u['n']):
                if ctx.expired():
                    res.count('cases_skipped_deadline')
                    continue
                env = envs[i % len(envs)]
                key = ['reject', env, opname, i]
                rng = rng_for(seed, 'c07', *key)
                prog = c07_gen.generate_reject(env, rng, res, opname)
                if prog is None:
                    res.count('reject/not_generated')
                    continue
                if prog['perturbed']['singleton'] and ((opname == 'matmul' and not FINDINGS['C07-matmul-singleton-contraction'][1]) or (opname == 'vdot' and not FINDINGS['C07-vdot-broadcasts'][1])):
                    continue
                case = c07_gen.execute_reject(prog, res)
                finish(case, res, key)
                res.count('cases/reject')
    elif u['kind'] == 'helpers':
        run_helpers(u, seed, res, ctx)
    elif u['kind'] == 'sibling':
        nb, nv = len(c07_gen.SIBLING_BINOPS), len(c07_gen.SIBLING_VARIANTS)
        for j, opname in enumerate(u['ops']):
            n = sibling_reps(opname, u['n'])
            off = c07_gen.SIBLING_OPS.index(opname)
            for i in range(n):
                if ctx.expired():
                    res.count('cases_skipped_deadline')
                    continue
                k = off + i * 7
                env = SIBLING_ENVS[k % len(SIBLING_ENVS)]
                binop = c07_gen.SIBLING_BINOPS[(off + i) % nb]
                variant = c07_gen.SIBLING_VARIANTS[(off // nb + i) % nv]
                key = ['sibling', env, opname, binop, variant, i]
                rng = rng_for(seed, 'c07', *key)
                case = c07_gen.generate_sibling(env, rng, res, opname, binop, variant)
                prog = finish(case, res, key)
                res.count('cases/sibling')
                if opname == 'choose' and i == 0:
                    res.sample(dict(key=key, program=slim(prog)), cap=1)
    elif u['kind'] == 'intrange':
        for i in range(u['start'], u['stop']):
            if ctx.expired():
                res.count('cases_skipped_deadline')
                continue
            key = ['intrange', u['env'], i]
            rng = rng_for(seed, 'c07', *key)
            case = c07_gen.generate_intrange(u['env'], rng, res)
            prog = finish(case, res, key)
            res.count('cases/intrange')
            if i == 3 and u['env'] == 'plain':
                res.sample(dict(key=key, program=slim(prog)), cap=1)
    elif u['kind'] == 'fnindex':
        for opname in ('take', 'getitem'):
            for i in range(u['n']):
                if ctx.expired():
                    res.count('cases_skipped_deadline')
                    continue
                key = ['fnindex', u['env'], opname, i]
                rng = rng_for(seed, 'c07', *key)
                case = c07_gen.generate(u['env'], rng, res, target=opname, nops=int(rng.choice([1, 2])), force_fn=True)
                finish(case, res, key)
                res.count('cases/fnindex')
    elif u['kind'] == 'hostile':
        which = u['which']
        fid = {'oob_slice': 'C07-slice-bounds-not-clamped', 'multi_array': 'C07-multi-index-array-outer', 'transpose_negative': 'C07-transpose-negative-axes',
               'abs_bool': 'C07-abs-bool', 'interp_int_fp_float_lr': 'C07-interp-int-fp-truncates-left-right'}[which]
        if not FINDINGS[fid][1]:
            return
        for env in envs:
            for i in range(u['n']):
                if ctx.expired():
                    res.count('cases_skipped_deadline')
                    continue
                key = ['hostile', which, env, i]
                rng = rng_for(seed, 'c07', *key)
                case = c07_gen.generate(env, rng, res, nops=int(rng.choice([1, 2])), hostile=which)
                finish(case, res, key)
                res.count('cases/hostile')
                res.count('hostile/' + which)


def run_helpers(u, seed, res, ctx):
    """function.broadcast_shapes / broadcast_arrays / typecast_arrays against numpy.broadcast_shapes / result kind, on valid and
    perturbed shape lists (these helpers sit under every elementwise operation, where broadcast_to re-checks and hides them)"""
    import numpy
    from nutils import function
    from vlib.c07_gen import Gen
    from vlib.c07_core import Case
    PY = {'b': bool, 'i': int, 'f': float, 'c': complex}
    for i in range(u['n']):
        key = ['helpers', u['index'], i]
        rng = rng_for(seed, 'c07', *key)
        g = Gen(Case('const', Result()), rng)
        base = g.rand_shape((0, 3))
        shapes = [tuple(base)] + [tuple(g.compatible_shape(base)) for _ in range(int(rng.integers(1, 3)))]
        perturbed = None
        if rng.random() < .5:
            cands = [(k, ax) for k, sh in enumerate(shapes) for ax, n in enumerate(sh) if n >= 2]
            if cands:
                k, ax = cands[int(rng.integers(len(cands)))]
                sh = list(shapes[k])
                sh[ax] += 1
                shapes[k] = tuple(sh)
                perturbed = [k, ax]
        kinds = [str(rng.choice(list('bifc'))) for _ in shapes]
        case = dict(key=key, helper='broadcast_shapes', shapes=[list(sh) for sh in shapes], kinds=kinds, perturbed=perturbed)
        res.count('evaluations')
        res.count('cases/helpers')
        res.add('distinct', 'h' + repr((shapes, kinds)))
        try:
            expect = tuple(numpy.broadcast_shapes(*shapes))
        except ValueError:
            expect = None
        res.count('helpers/numpy_rejects' if expect is None else 'helpers/numpy_accepts')
        args = [function.Argument(f'h{k}', sh, PY[kd]) for k, (sh, kd) in enumerate(zip(shapes, kinds))]
        for name, call in (('broadcast_shapes', lambda: tuple(function.broadcast_shapes(*shapes))),
                           ('broadcast_arrays', lambda: tuple(set(tuple(a.shape) for a in function.broadcast_arrays(*args))))):
            try:
                got = call()
            except Exception as e:
                got = None
            if name == 'broadcast_arrays' and got is not None:
                got = got[0] if len(got) == 1 else ('different shapes', got)
            if expect is None and got is not None:
                res.violation('numpy-rejected shapes accepted at build', dict(case, helper=name), f'function.{name} accepts shapes {shapes} -> {got}; numpy.broadcast_shapes raises')
            elif expect is not None and got is None:
                res.count(f'helpers/{name}_refused_valid')
            elif expect is not None and got != expect:
                res.violation('shape', dict(case, helper=name), f'function.{name}{shapes} -> {got}, numpy gives {expect}')
            else:
                res.count('helpers/agree')
        try:
            tc = function.typecast_arrays(*args)
            kinds_out = set({bool: 'b', int: 'i', float: 'f', complex: 'c'}.get(a.dtype, '?') for a in tc)
            want = max(kinds, key='bifc'.index)
            if kinds_out != {want}:
                res.violation('dtype kind', dict(case, helper='typecast_arrays'), f'function.typecast_arrays of kinds {kinds} gives {sorted(kinds_out)}; the common kind is {want!r}')
            else:
                res.count('helpers/agree')
        except Exception as e:
            res.count('helpers/typecast_refused')


def replay_helper(case):
    import numpy
    from nutils import function
    shapes = [tuple(sh) for sh in case['shapes']]
    out = []
    try:
        expect = tuple(numpy.broadcast_shapes(*shapes))
    except ValueError:
        expect = None
    try:
        got = tuple(function.broadcast_shapes(*shapes))
    except Exception:
        got = None
    if (expect is None) != (got is None) and got is not None or (expect is not None and got is not None and got != expect):
        out.append(dict(monitor='helper', mechanism=None, case=case, detail=f'function.broadcast_shapes{shapes} -> {got}, numpy: {expect}'))
    return out


def slim(prog):
    """a compact copy of a program for the evidence samples"""
    p = json.loads(json.dumps(prog, default=str))
    for s in p['nodes']:
        if 'value' in s and len(s['value']['d']) > 12:
            s['value']['d'] = s['value']['d'][:12] + ['...']
    return p


def replay(case):
    c07_env, c07_ops, c07_core, c07_gen = _imports()
    res = Result()
    if 'helper' in case:
        return replay_helper(case)
    if 'leaf' in case:
        env = c07_env.Env(case['env'])
        return [dict(monitor='leaf evaluation failed', mechanism=None, case=case, detail=d) for l, d in env.failures if l == case['leaf']]
    prog = case['program']
    c = c07_gen.execute(prog, res)
    finish(c, res, case.get('key'))
    return res.violations


# ---------------------------------------------------------------------------------------------------------------------
# deterministic reproducers of the ledger findings (run by the driver for every ledger entry of C07)

def _setup():
    import numpy
    from nutils import function
    return numpy, function


def repro_slice():
    numpy, function = _setup()
    a = function.Argument('a', (2, 3, 4))
    v = numpy.arange(24.).reshape(2, 3, 4)
    f = a[:, 1:10]
    what = f'Argument(2,3,4)[:, 1:10].shape == {f.shape}, numpy gives {v[:, 1:10].shape}'
    if tuple(f.shape) != v[:, 1:10].shape:
        return True, what
    try:
        r = function.eval(f, dict(a=v))
        return bool(r.shape != (2, 2, 4) or (r != v[:, 1:10]).any()), what
    except Exception as e:
        return True, what + f'; evaluation raises {type(e).__name__}'


def repro_multi_array():
    numpy, function = _setup()
    a = function.Argument('a', (2, 3, 4))
    v = numpy.arange(24.).reshape(2, 3, 4)
    try:
        f = a[[0, 1], [2, 0]]
    except NotImplementedError as e:
        return False, f'refused: NotImplementedError: {e}'
    return tuple(f.shape) != v[[0, 1], [2, 0]].shape, f'Argument(2,3,4)[[0,1],[2,0]].shape == {f.shape}, numpy gives {v[[0, 1], [2, 0]].shape}'


def repro_transpose():
    numpy, function = _setup()
    a = function.Argument('a', (2, 3, 4))
    v = numpy.arange(24.).reshape(2, 3, 4)
    try:
        r = function.eval(numpy.transpose(a, (-1, 0, 1)), dict(a=v))
    except Exception as e:
        return True, f'numpy.transpose(Argument(2,3,4), (-1,0,1)) builds, evaluation raises {type(e).__name__}'
    return bool(r.shape != (4, 2, 3) or (r != numpy.transpose(v, (-1, 0, 1))).any()), 'numpy.transpose with negative axes evaluates'


def repro_abs_bool():
    numpy, function = _setup()
    v = numpy.array([True, False])
    try:
        r = function.eval(numpy.abs(function.Argument('a', (2,), bool)), dict(a=v))
    except Exception as e:
        return True, f'numpy.abs(bool Argument) builds, evaluation raises {type(e).__name__}: {str(e)[:80]}'
    return bool((r != v).any()), 'numpy.abs(bool Argument) evaluates'


def repro_interp():
    numpy, function = _setup()
    xv = numpy.array([-1., .3, 5.])
    r = function.eval(numpy.interp(function.Argument('x', (3,)), [0, 1, 2], [0, 1, 0], left=-10.5, right=3.25), dict(x=xv))
    e = numpy.interp(xv, [0, 1, 2], [0, 1, 0], left=-10.5, right=3.25)
    return bool(numpy.abs(r - e).max() > 1e-9), f'numpy.interp(x, [0,1,2], [0,1,0], left=-10.5, right=3.25) at {xv.tolist()}: nutils {r.tolist()}, numpy {e.tolist()}'


def repro_matmul():
    numpy, function = _setup()
    try:
        f = numpy.matmul(function.Argument('p', (3, 1)), function.Argument('q', (4,)))
    except Exception:
        return False, 'matmul of shapes (3,1) and (4,) is rejected at build like numpy'
    return True, f'matmul of shapes (3,1) and (4,) builds with shape {f.shape}; numpy raises ValueError'


def repro_vdot():
    numpy, function = _setup()
    out = []
    try:
        f = numpy.vdot(function.Argument('p', (4,)), function.Argument('q', (1,)))
        out.append(f'vdot of shapes (4,) and (1,) builds with shape {f.shape} (numpy raises ValueError)')
    except Exception:
        pass
    a, b = numpy.array([[1., 2.]]), numpy.array([[3.], [5.]])
    try:
        r = function.eval(numpy.vdot(function.Argument('p', (1, 2)), function.Argument('q', (2, 1))), dict(p=a, q=b))
        if abs(r - numpy.vdot(a, b)) > 1e-12:
            out.append(f'vdot([[1,2]], [[3],[5]]) = {float(r)}, numpy gives {float(numpy.vdot(a, b))}')
    except Exception:
        pass
    return bool(out), '; '.join(out) or 'vdot flattens like numpy'


def repro_eig():
    numpy, function = _setup()
    out = []
    for name in 'eig', 'eigh':
        try:
            w, v = getattr(numpy.linalg, name)(function.Argument('m', (3, 4)))
            out.append(f'numpy.linalg.{name}(Argument(3,4)) builds with shapes {w.shape}, {v.shape}')
        except Exception:
            pass
    return bool(out), '; '.join(out) or 'rejected at build like numpy'


def repro_det_int():
    numpy, function = _setup()
    v = numpy.array([[2, 1], [0, 3]])
    out = []
    for name in 'det', 'inv':
        try:
            r = function.eval(getattr(numpy.linalg, name)(function.Argument('m', (2, 2), int)), dict(m=v))
            if numpy.abs(r - getattr(numpy.linalg, name)(v)).max() > 1e-9:
                out.append(f'{name}: wrong value')
        except Exception as e:
            out.append(f'numpy.linalg.{name}(int Argument(2,2)) builds, evaluation raises {type(e).__name__}')
    return bool(out), '; '.join(out) or 'det/inv of int arrays evaluate'


def repro_cross_int():
    numpy, function = _setup()
    f = numpy.cross(function.Argument('p', (3,), int), function.Argument('q', (3,), int))
    return f.dtype != int, f'numpy.cross(int Argument(3), int Argument(3)).dtype is {f.dtype.__name__}; numpy gives int64'


def repro_optimized():
    numpy, function = _setup()
    from nutils import mesh, evaluable
    X, gx = mesh.rectilinear([numpy.linspace(0, 1, 3)], space='X')
    Y, gy = mesh.rectilinear([numpy.linspace(1, 2, 3)], space='Y')
    smp = X.sample('gauss', 1) * Y.sample('gauss', 2)
    bas = Y.basis('std', degree=2)
    f = numpy.choose(function.Argument('i', (), int) % 2, [-.7, bas])
    expect = smp.eval(bas)
    unopt = evaluable.eval_once(smp.bind(f).as_evaluable_array, arguments=dict(i=numpy.array(3)), _optimize=False)
    if numpy.abs(unopt - expect).max() > 1e-12:
        return None, 'unoptimised evaluation differs as well: not this mechanism'
    try:
        r = smp.eval(f, arguments=dict(i=3))
    except Exception as e:
        return True, f'(sx*sy).eval(numpy.choose(i%2, [-.7, basisY])) raises {type(e).__name__}: {str(e)[:60]}; with _optimize=False it equals numpy'
    return bool(numpy.abs(r - expect).max() > 1e-12), 'optimised evaluation of numpy.choose(i%2, [-.7, basisY]) on a product sample'


def repro_empty_product():
    numpy, function = _setup()
    from nutils import mesh
    X, gx = mesh.rectilinear([numpy.linspace(0, 1, 3)], space='X')
    Y, gy = mesh.rectilinear([numpy.linspace(1, 2, 3)], space='Y')
    smp = X.sample('gauss', 2) * Y.sample('gauss', 2)
    a = function.Argument('a', (3, 2))
    f = numpy.take(a, numpy.array([], dtype=int), 0)
    if tuple(f.shape) != (0, 2):
        return None, f'could not build an empty function array: shape {f.shape}'
    try:
        r = smp.eval(f, arguments=dict(a=numpy.zeros((3, 2))))
    except Exception as e:
        return True, f'(sx*sy).eval(empty (0,2) function array) raises {type(e).__name__}: {str(e)[:60]}'
    return r.shape != (smp.npoints, 0, 2), f'(sx*sy).eval(empty (0,2) function array).shape == {r.shape}, expected {(smp.npoints, 0, 2)}'


def _range_witnesses(which):
    numpy, function = _setup()
    A = function.Array.cast
    W = {
        1: ('numpy.take(arange(20), numpy.stack([[-1,-2,-3],[-4,-5,-6]]))', lambda: numpy.take(A(numpy.arange(20)), numpy.stack([A(numpy.array([-1, -2, -3])), numpy.array([-4, -5, -6])])),
            numpy.arange(20)[numpy.array([[-1, -2, -3], [-4, -5, -6]])]),
        2: ('numpy.power([2,3,4], numpy.concatenate([[1,2],[0]]))', lambda: numpy.power(A(numpy.array([2, 3, 4])), numpy.concatenate([A(numpy.array([1, 2])), numpy.array([0])])),
            numpy.array([2, 9, 1])),
        3: ('numpy.take(arange(40), numpy.stack([[1,2],[3,4],[5,6]], 1)[:, -1])', lambda: numpy.take(A(numpy.arange(40)), numpy.stack([A(numpy.array([1, 2])), numpy.array([3, 4]), numpy.array([5, 6])], 1)[:, -1]),
            numpy.array([5, 6])),
        4: ('numpy.power([2,3], numpy.take(numpy.concatenate([[1,2],[0,3]]), [0,-1]))', lambda: numpy.power(A(numpy.array([2, 3])), numpy.take(numpy.concatenate([A(numpy.array([1, 2])), numpy.array([0, 3])]), numpy.array([0, -1]))),
            numpy.array([2, 27])),
    }
    out = []
    for k in which:
        label, build, expect = W[k]
        try:
            r = function.eval(build())
            if r.shape != expect.shape or (r != expect).any():
                out.append(f'{label} = {r.tolist()}, numpy {expect.tolist()}')
        except Exception as e:
            out.append(f'{label} raises {type(e).__name__} at evaluation')
    return out


def repro_assemble_intbounds():
    out = _range_witnesses([1, 2])
    return bool(out), '; '.join(out) or 'integer stack/concatenate results are usable as index and as integer exponent'


def repro_int_range_element():
    out = _range_witnesses([3])
    return bool(out), '; '.join(out) or 'an element of an integer stack is usable as index'


def repro_choose_bool():
    numpy, function = _setup()
    a = function.Argument('a', (3,))
    v = numpy.array([-1., .5, 2.])
    try:
        r = function.eval(numpy.choose(a > 0, [-a, a]), dict(a=v))
    except Exception as e:
        return True, f'numpy.choose(a > 0, [-a, a]) builds, evaluation raises {type(e).__name__}'
    return bool((r != numpy.abs(v)).any()), 'numpy.choose with a boolean selector evaluates'


def repro_abs_exponent():
    numpy, function = _setup()
    k = function.Array.cast(numpy.array([0, 1, -2]))
    b = numpy.array([-1, 4, 1])
    try:
        r = function.eval(numpy.power(function.Array.cast(b), numpy.abs(k)))
    except Exception as e:
        return True, f'numpy.power(b, numpy.abs(k)) with integer function arrays builds, evaluation raises {type(e).__name__}'
    return bool((r != b ** numpy.abs([0, 1, -2])).any()), 'numpy.abs of an integer function array is usable as integer exponent'


REPRODUCERS = {
    'C07-abs-int-range-unknown': repro_abs_exponent,
    'C07-assemble-intbounds-missing': repro_assemble_intbounds,
    'C07-int-range-lost-in-rewrite': repro_int_range_element,
    'C07-choose-bool-selector': repro_choose_bool,
    'C07-empty-result-on-product-sample': repro_empty_product,
    'C07-optimized-mode-only': repro_optimized,
    'C07-det-inv-int': repro_det_int,
    'C07-cross-int-float': repro_cross_int,
    'C07-slice-bounds-not-clamped': repro_slice,
    'C07-multi-index-array-outer': repro_multi_array,
    'C07-transpose-negative-axes': repro_transpose,
    'C07-abs-bool': repro_abs_bool,
    'C07-interp-int-fp-truncates-left-right': repro_interp,
    'C07-matmul-singleton-contraction': repro_matmul,
    'C07-vdot-broadcasts': repro_vdot,
    'C07-eig-nonsquare-accepted': repro_eig,
}


# ---------------------------------------------------------------------------------------------------------------------

def _sub(c, prefix):
    return {k[len(prefix):]: v for k, v in sorted(c.items()) if k.startswith(prefix)}


def finalize(m, tier, seed):
    from vlib.c07_ops import OPS, KIND_DIFFERENCES
    from vlib.c07_gen import SHAPE_SENSITIVE
    c = m.counters
    handled = sorted(OPS)
    verified = _sub(c, 'op_verified/')
    built = _sub(c, 'op_built/')
    uncovered = [n for n in handled if not verified.get(n)] + sorted(m.sets.get('handled_not_in_catalogue', ()))
    per_axes = {}
    for k, v in _sub(c, 'op_verified_env/').items():
        name, ax = k.rsplit('/', 1)
        per_axes.setdefault(name, {})[ax] = v
    not_on_all_axes = sorted(n for n in handled if n not in uncovered and not OPS[n].static and len(per_axes.get(n, {})) < 4)
    expected = expected_cases(tier)
    cov = dict(
        evaluations=c.get('evaluations', 0),
        distinct_nontrivial=len(m.sets.get('distinct', ())),
        rule=RULE,
        samples=m.samples[:4],
        cases=_sub(c, 'cases/'),
        node_evaluations=c.get('node_evaluations', 0),
        points_compared=c.get('points_compared', 0),
        node_pass=c.get('node_pass', 0),
        marginal=c.get('marginal', 0),
        handled_functions=len(m.sets.get('handled', ())),
        catalogue=len(handled),
        per_function_verified=verified,
        per_function_per_point_axes=per_axes,
        uncovered=uncovered,
        verified_on_fewer_than_4_point_axis_counts=not_on_all_axes,
        per_point_axes=_sub(c, 'point_axes/'),
        per_environment=_sub(c, 'env/'),
        per_depth=_sub(c, 'depth/'),
        per_index_form=_sub(c, 'index_form/'),
        per_dtype_pair=_sub(c, 'dtype_pairs/'),
        per_dtype_single=_sub(c, 'dtype_single/'),
        per_form=_sub(c, 'form/'),
        broadcast_pairs=c.get('broadcast_pairs', 0),
        broadcast_patterns=len(m.sets.get('bcast_patterns', ())),
        leaves=_sub(c, 'leaf/'),
        unsupported_documented=_sub(c, 'refused_documented/'),
        unsupported_by_function=_sub(c, 'refused_by_op/'),
        refused_undocumented=sorted(m.sets.get('refused_undocumented', ()))[:60],
        refused_undocumented_by_function=_sub(c, 'refused_undocumented_by_op/'),
        numpy_refuses=c.get('numpy_refuses', 0),
        status=_sub(c, 'status/'),
        rejection=_sub(c, 'reject/'),
        rejection_by_function=_sub(c, 'reject_by_op/'),
        rejection_exception_types=sorted(m.sets.get('reject_exception_types', ())),
        hostile=_sub(c, 'hostile/'),
        helpers=_sub(c, 'helpers/'),
        sibling_cases=dict(per_operation=_sub(c, 'sibling/'), binop=_sub(c, 'sibling_binop/'), variant=_sub(c, 'sibling_variant/'), values=_sub(c, 'sibling_values/'),
                           selector=_sub(c, 'sibling_index/'), not_built=_sub(c, 'sibling_not_built/')),
        integer_range_cases=dict(combiner=_sub(c, 'intrange/combiner/'), consumer=_sub(c, 'intrange/consumer/'), sign_class=_sub(c, 'intrange/class/')),
        excluded_corners=_sub(c, 'excluded_corner/'),
        accepted_kind_differences_seen=_sub(c, 'accepted_kind_difference/'),
        accepted_differences=KIND_DIFFERENCES.table,
        documented_refusal_classes=KIND_DIFFERENCES.refusals,
        debug_flags=sorted(m.sets.get('debug_flags', ())),
        skipped_deadline=c.get('cases_skipped_deadline', 0) + c.get('units_skipped_deadline', 0),
        harness_errors=c.get('harness_errors', 0),
        findings={k: v[0] for k, v in FINDINGS.items()},
    )
    inc = None
    if c.get('harness_errors'):
        inc = f"{c['harness_errors']} unit(s) crashed inside the harness: {m.notes[:1]}"
    elif cov['evaluations'] < .5 * expected:
        inc = f"only {cov['evaluations']} of ~{expected} cases ran before the deadline"
    elif len(uncovered) > .15 * len(handled):
        inc = f'{len(uncovered)} of {len(handled)} handled functions were never verified: {uncovered[:12]}'
    elif set(cov['per_point_axes']) != {'0', '1', '2', '3'}:
        inc = 'not every number of point axes was exercised'
    elif cov['rejection'].get('numpy_rejects', 0) < 30:
        inc = 'rejection monitor barely reached'
    elif cov['node_evaluations'] and cov['marginal'] > .005 * cov['node_evaluations']:
        inc = f"{cov['marginal']} marginal float comparisons (> 0.5 %)"
    elif sibling_floor(cov, tier):
        inc = sibling_floor(cov, tier)
    elif len(cov['per_dtype_pair']) < 14:
        inc = 'fewer than 14 of the 16 dtype pairs exercised'
    return dict(coverage=cov, inconclusive=inc)


def sibling_reps(opname, per):
    from vlib.c07_ops import UNARY
    from vlib.c07_gen import SIBLING_KEY_OPS
    return max(1, per // 3) if opname in UNARY else 8 * per if opname in SIBLING_KEY_OPS else per


def sibling_floor(cov, tier):
    """reach floor of the sibling family BINOP(OP(x;p), OP(y;q)): None if reached, else the reason"""
    from vlib.c07_gen import SIBLING_OPS, SIBLING_KEY_OPS
    per = cov['sibling_cases']['per_operation']
    missing_key = [n for n in SIBLING_KEY_OPS if not per.get(n)]
    reached = sum(1 for n in SIBLING_OPS if per.get(n))
    if missing_key:
        return f'sibling family BINOP(OP(x;p), OP(y;q)) not reached for {missing_key}'
    if reached < .8 * len(SIBLING_OPS):
        return f'sibling family reached for only {reached} of {len(SIBLING_OPS)} operations'
    if cov['sibling_cases']['values'].get('different', 0) < 40:
        return 'fewer than 40 sibling cases in which the two siblings have different values'
    return None


def expected_cases(tier):
    from vlib.c07_ops import OPS
    from vlib.c07_env import ENV_NAMES
    from vlib.c07_gen import SHAPE_SENSITIVE, HOSTILE
    from vlib.c07_gen import SIBLING_OPS
    from vlib.c07_ops import UNARY
    nsib = sum(sibling_reps(n, SIBLING_PER[tier]) for n in SIBLING_OPS)
    return nsib + 100 * HELPER_UNITS[tier] + 2 * 5 * FNINDEX_PER[tier] + sum(max(2, int(round(INTRANGE_PER[tier] * INTRANGE_WEIGHT[e]))) for e in ENV_NAMES) + int(len(OPS) * sum(max(1, int(round(SYS_PER[tier] * ENV_WEIGHT[e]))) for e in ENV_NAMES)) + RAND[tier] + int(.5 * len(SHAPE_SENSITIVE) * REJECT_PER[tier]) + len(HOSTILE) * len(ENV_NAMES) * HOSTILE_PER[tier]
