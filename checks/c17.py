"""C17 — Structural identity and hashing are injective and stable.

Monitors (all observe the real ``nutils.types.nutils_hash`` / interning tables at run time):

A injectivity   hash table nutils_hash -> canonical form over an adversarial corpus; two canonical
                forms under one hash = collision.
B stability     two construction routes of one canonical form (keyword/positional, defaults, numpy vs
                python scalars, integer width inside arraydata, commutative operand order, insertion
                order of unordered containers, pickle round trip, another process under
                PYTHONHASHSEED 0..7 and random, rebuilt mesh) must give one hash.
C interning     structurally equal live instances of interned types are one object, under histories of
                create / drop / gc / recreate / pickle / unpickle; the hash of a recipe is constant
                along a history.
D consistency   ==, hash() and nutils_hash agree for Immutable family values.
E consumers     constants bound by generated code (c<hash> globals) and cache.function results belong
                to the value that was asked for.

The canonical form is vlib/c17_canon.py (independent of nutils_hash).  Values that nutils_hash refuses
(TypeError / KeyError / ...) are refusals; values the canonicaliser cannot judge are 'unclassified';
binary streams are out of the property's scope (counted in out_of_scope_observations).
"""

import base64, gc, json, os, pickle, shutil, subprocess, sys, tempfile, traceback, warnings, weakref
import numpy
from vlib.runner import Result, rng_for, VERIF

PROPERTY = 'C17'
LEVEL = 'exploration'
RULE = ('values are built from JSON recipes: a fixed base corpus (every adversarial leaf x every wrapper, ordered pairs, nesting boundaries, '
        'expected refusals, ~2700 objects taken from 14 small meshes) plus random families = one random base value and its adversarial twins '
        '(look-alike scalars bool/int/float/complex/str/bytes/numpy widths/0-d arrays, -0.0, NaN, regrouped nesting, container kind swaps, '
        'pairs<->mapping, arrays sharing bytes/values/shape across dtype, byte order and strides, arraydata of every width, same-named classes / '
        'dataclasses / namedtuples / Immutable, Singleton and DataClass subclasses from two modules, versions, hashable_functions, bound methods, '
        'evaluable DAGs with operand order / keyword / dtype / shape mutations). A value is non-trivial if it is not a bare scalar leaf; distinct = '
        'distinct canonical digests (48 bit prefixes) of non-trivial values that entered the hash table')
ASSUMPTIONS = ['the canonicaliser vlib/c17_canon.py defines "can behave differently"; it identifies only what nutils documents as identified '
               '(numpy scalar = python scalar, arraydata by kind/shape/values, unordered containers, all NaNs, hashable_function by identifier)',
               'collisions are searched within a worker process (base corpus + its own random families), not across workers',
               'binary streams, structured/object dtype arrays and objects hashed as a tagged tuple (hashable_function, solver methods) are out of the verdict',
               'SHA-1 is treated as collision free; only structural (pre-image independent) collisions are in reach']
BUDGET_S = {'quick': 80, 'thorough': 1300}
if os.environ.get('VERIF_C17_BUDGET'):      # development on a loaded machine only
    BUDGET_S = {k: float(os.environ['VERIF_C17_BUDGET']) for k in BUDGET_S}
GRACE_S = 60

SCALE = float(os.environ.get('VERIF_C17_SCALE', '1') or 1)
NFAM = {'quick': 8000, 'thorough': 150000}
NROUTE = {'quick': 1000, 'thorough': 16000}
NHIST = {'quick': 300, 'thorough': 5000}
NCONS = {'quick': 200, 'thorough': 2500}
NXPROC = {'quick': 2000, 'thorough': 5000}          # recipes per cross-process unit
XCHUNKS = {'quick': 1, 'thorough': 4}
HASHSEEDS = ['0', '1', '2', '3', '4', '5', '6', '7', 'random']
CHUNK = {'corpus': 150, 'routes': 50, 'hist': 30, 'cons': 20}
PYCACHE = '/var/tmp/verif-c17-pycache'
KNOWN_BARE = 'C17-type-tag-by-bare-name'
KNOWN_INTERN = 'C17-intern-key-python-equality'


def _n(table, tier):
    return max(1, int(table[tier] * SCALE))


def plan(tier, seed):
    units = []
    for c in range(XCHUNKS[tier]):
        for s in HASHSEEDS:
            units.append(dict(kind='xproc', hashseed=s, start=c * _n(NXPROC, tier), stop=(c + 1) * _n(NXPROC, tier)))
    rest = []
    for kind, n in (('corpus', _n(NFAM, tier)), ('routes', _n(NROUTE, tier)), ('hist', _n(NHIST, tier)), ('cons', _n(NCONS, tier))):
        ch = CHUNK[kind]
        rest.append([dict(kind=kind, start=i, stop=min(n, i + ch)) for i in range(0, n, ch)])
    # interleave kinds so that every worker gets a share of each
    while any(rest):
        for lst in rest:
            for _ in range(3 if lst and lst[0]['kind'] == 'corpus' else 1):
                if lst:
                    units.append(lst.pop(0))
    return units


# ---------------------------------------------------------------- observation helpers

def token(v, res=None):
    from nutils import types
    if res is not None:
        res.count('evaluations')
    try:
        h = types.nutils_hash(v)
    except Exception as e:
        return 'R:' + type(e).__name__
    if not isinstance(h, bytes) or len(h) != 20:
        return 'M:' + type(h).__name__
    return h.hex()


def typename(v):
    t = type(v)
    return '%s.%s' % (getattr(t, '__module__', '?'), t.__qualname__)


class Obs:
    __slots__ = ('recipe', 'status', 'value', 'token', 'canon', 'why', 'expected')


def expected_args(G, r):
    """The reduce-arguments an ['im', key, pos, kw] recipe asks for, by my own reading of the documented canonicalisation:
    positional-or-keyword parameters in signature order with defaults filled in; Immutable types append the sorted
    items of the keyword-only / **kwargs arguments as one tuple."""
    import inspect
    from nutils import types as nt
    cls = G.classes()[r[1]]
    pos = [G.build(x) for x in r[2]]
    kw = {n: G.build(x) for n, x in r[3]}
    if issubclass(cls, nt.DataClass):
        ba = cls.__signature__.bind(*pos, **kw)
        ba.apply_defaults()
        return cls, tuple(ba.arguments.values())
    sig = inspect.signature(cls.__init__)
    ba = sig.bind(None, *pos, **kw)
    ba.apply_defaults()
    positional, keyword = [], {}
    for name, p in list(sig.parameters.items())[1:]:
        v = ba.arguments[name]
        if p.kind in (p.POSITIONAL_ONLY, p.POSITIONAL_OR_KEYWORD):
            positional.append(v)
        elif p.kind == p.VAR_POSITIONAL:
            positional.extend(v)
        elif p.kind == p.KEYWORD_ONLY:
            keyword[name] = v
        else:
            keyword.update(v)
    return cls, tuple(positional) + (tuple(sorted(keyword.items())),)


def check_construction(o, res, K, G, st=None):
    """The object returned for an ['im', ...] recipe must hold the requested arguments."""
    try:
        cls, req = expected_args(G, o.recipe)
        o.expected = K.object_digest(cls, req)
    except Exception:
        res.count('construction_expected_unavailable')
        return
    res.count('construction_checks')
    if o.expected == o.canon:
        return
    actual = o.value.__reduce__()[1]
    how = K.arg_difference(req, actual)
    case = dict(kind='construction', recipe=o.recipe)
    det = 'requested %s(%s)\nreturned object holds (%s)' % (cls.__qualname__, ', '.join(K.describe(a, 60) for a in req), ', '.join(K.describe(a, 60) for a in actual))
    if interned(o.value) and how == 'lookalike-bif':
        res.count('construction_conflated/bool-int-float')
        if st is None or st.cap('construction' + KNOWN_INTERN, 2):
            res.violation('interning: the object returned for a construction holds ==-equal but different arguments (another live instance was returned)', case, det, mechanism=KNOWN_INTERN)
    elif interned(o.value) and how == 'lookalike-other':
        res.count('construction_conflated/other-lookalikes')     # same mechanism through complex / numpy / enum / int-subclass arguments: left out of the verdict
    else:
        res.violation('construction: the returned object does not hold the requested arguments', case, det)


def observe(r, res, K, G, st=None):
    o = Obs()
    o.recipe, o.value, o.token, o.canon, o.why, o.expected = r, None, None, None, None, None
    try:
        with warnings.catch_warnings():
            warnings.simplefilter('ignore')
            o.value = G.build(r)
    except Exception as e:
        o.status, o.why = 'unbuildable', type(e).__name__
        return o
    o.token = token(o.value, res)
    if o.token[1] == ':':
        o.status, o.why = ('refused' if o.token[0] == 'R' else 'malformed'), o.token[2:]
        return o
    try:
        o.canon = K.canon(o.value)
    except K.Unclassified as e:
        o.status, o.why = 'unclassified', str(e)
        return o
    except RecursionError:
        o.status, o.why = 'unclassified', 'canonicaliser recursion limit'
        return o
    except Exception as e:
        o.status, o.why = 'unclassified', 'canonicaliser failed on this value: ' + type(e).__name__
        return o
    o.status = 'ok'
    if r[0] == 'im':
        check_construction(o, res, K, G, st)
    return o


def interned(v):
    from nutils import types as nt
    return isinstance(v, (nt.Singleton, nt.DataClass))


class State:
    """Per worker process."""

    def __init__(self, seed):
        from vlib import c17_canon as K, c17_corpus as G
        self.K, self.G, self.seed = K, G, seed
        self.pool = G.leaf_pool()
        self.table = {}
        self.base_done = False
        self.base = None
        self.caps = {}

    def cap(self, key, n):
        self.caps[key] = self.caps.get(key, 0) + 1
        return self.caps[key] <= n

    def family(self, idx):
        return self.G.gen_family(rng_for(self.seed, 'c17', idx), self.pool)

    def recipe_of(self, src):
        if src[0] == 'b':
            if self.base is None:
                self.base = self.G.base_corpus()
            r = self.base[src[1]]
        elif src[0] == 'n':
            r = ['nu', src[1]]
        else:
            r = self.family(src[1])[1][src[2]]
        if src[-1] == 'pk':
            r = ['pk', r, src[-2]]
        return r


def describe_pair(K, a, b, ta, tb):
    return 'A = %s  [nutils_hash %s]\nB = %s  [nutils_hash %s]' % (K.describe(a), ta, K.describe(b), tb)


def table_insert(st, res, o, src):
    K = st.K
    h = o.token
    old = st.table.get(h)
    res.count('tabled')
    if old is None:
        st.table[h] = (o.canon, src)
        return
    if old[0] == o.canon:
        res.count('table_same_value_again')
        return
    res.count('collisions_observed')
    ra = st.recipe_of(old[1])
    try:
        with warnings.catch_warnings():
            warnings.simplefilter('ignore')
            a = st.G.build(ra)
    except Exception as e:
        res.count('collisions_unclassified')
        res.add('unclassified_reasons', 'the earlier colliding value could not be rebuilt')
        res.note('collision left unclassified, earlier value could not be rebuilt (%r): %s | %s' % (e, json.dumps(ra)[:200], json.dumps(o.recipe)[:200]))
        return
    report_collision(st, res, ra, a, o.recipe, o.value, h, old[0])


def report_collision(st, res, ra, a, rb, b, h, canon_a=None):
    K = st.K
    verdict, what = K.classify_collision(a, b)
    if verdict == 'violation':
        try:
            faithful = a is not b and (canon_a is None or K.canon(a) == canon_a)
        except K.Unclassified:
            faithful = False
        if not faithful:
            # the earlier value could not be rebuilt next to its live partner: an interned class returned the partner itself
            # (finding C17-intern-key-python-equality at work); classify from the differing sub-recipes instead
            res.count('collision_rebuild_disturbed_by_interning')
            verdict, what = K.classify_recipes(ra, rb, st.G.build)
            if verdict == 'violation':
                verdict, what = 'unclassified', 'colliding value could not be rebuilt faithfully next to its live partner (interned class conflates ==-equal arguments)'
                res.note('unclassified collision (rebuild disturbed): %s | %s' % (json.dumps(ra)[:200], json.dumps(rb)[:200]))
    case = dict(kind='collision', a=ra, b=rb)
    if verdict == 'known':
        res.count('collisions_known/' + what)
        if st.cap(what, 3):
            res.violation('injectivity: hash collision', case, describe_pair(K, a, b, h, h), mechanism=what)
    elif verdict == 'unclassified':
        res.count('collisions_unclassified')
        res.add('unclassified_reasons', what)
    elif verdict == 'out_of_scope':
        res.count('out_of_scope_collisions')
        res.add('out_of_scope_observations', what)
    else:
        if st.cap('violation', 20):
            res.violation('injectivity: hash collision', case, 'two values with different canonical forms share one nutils_hash\n' + describe_pair(K, a, b, h, h))


# ---------------------------------------------------------------- Monitor A (+ pickle route, D, C inside a family)

def run_base(st, res):
    G = st.G
    st.base = G.base_corpus()
    for i, r in enumerate(st.base):
        o = observe(r, res, st.K, G, st)
        account(st, res, o, ('b', i), family='base')
        if o.status == 'ok':
            pickle_route(st, res, o, ('b', i), 2 + i % 4)
    from vlib import c17_nutils
    for n in c17_nutils.names():
        o = observe(['nu', n], res, st.K, G)
        account(st, res, o, ('n', n), family='nutils-catalogue')
        if o.status == 'ok':
            res.add('catalogue_types', typename(o.value))
            pickle_route(st, res, o, ('n', n), 4)
    st.base_done = True


def account(st, res, o, src, family):
    res.count('values_generated')
    res.count('family/' + family)
    if o.status == 'unbuildable':
        res.count('unbuildable')
        res.count('unbuildable/' + o.why)
    elif o.status == 'refused':
        res.count('refused')
        res.count('refused/' + o.why)
        res.add('refused_types', typename(o.value))
    elif o.status == 'malformed':
        res.count('malformed_return')
        res.add('malformed_return_for', K_short(o.value))
    elif o.status == 'unclassified':
        res.count('unclassified')
        res.add('unclassified_reasons', o.why)
    else:
        if not st.G.is_leaf(o.recipe):
            res.add('distinct', o.canon.hex()[:12])
        res.add('hashed_types', typename(o.value))
        table_insert(st, res, o, src)


def K_short(v):
    return ('class ' + v.__module__ + '.' + v.__qualname__) if isinstance(v, type) else typename(v)


def pickle_route(st, res, o, src, proto):
    K = st.K
    from nutils import types as nt
    try:
        data = pickle.dumps(o.value, protocol=proto)
    except Exception as e:
        res.count('unpicklable')
        return
    try:
        v2 = pickle.loads(data)
    except Exception as e:
        res.count('unpickle_failed')
        res.add('unpickle_failed_types', typename(o.value) + ':' + type(e).__name__)
        if isinstance(o.value, (nt.Immutable, nt.DataClass, nt.frozendict, nt.frozenmultiset)):
            res.violation('stability: pickle round trip of a nutils value raised', dict(kind='pickle', recipe=o.recipe, proto=proto),
                          '%s\n%s' % (K.describe(o.value), traceback.format_exc()[-600:]))
        return
    t2 = token(v2, res)
    try:
        c2 = K.canon(v2)
    except (K.Unclassified, RecursionError):
        c2 = None      # e.g. a hashable_function whose identifier is not known for the copy
        res.count('pickled_unclassified')
    case = dict(kind='pickle', recipe=o.recipe, proto=proto)
    if c2 is not None and c2 != o.canon:
        # pickling itself produced another value (numpy >= 2 returns foreign-endian arrays in native byte order): no hash verdict for
        # plain python/numpy values; a nutils value must survive its own __reduce__
        res.count('pickle_changed_structure')
        res.add('pickle_changed_structure_types', typename(o.value))
        if isinstance(o.value, (nt.Immutable, nt.DataClass, nt.frozendict, nt.frozenmultiset)):
            res.violation('stability: pickle round trip changes a nutils value', case, '%s\nbecame %s' % (K.describe(o.value), K.describe(v2)))
        elif t2[1] != ':':
            o2 = Obs()
            o2.recipe, o2.value, o2.token, o2.canon, o2.expected = ['pk', o.recipe, proto], v2, t2, c2, None
            table_insert(st, res, o2, src + (proto, 'pk'))
        return
    res.count('routes/pickle')
    if t2 != o.token:
        res.violation('stability: pickle round trip changes the hash', case,
                      '%s\nhash before %s, after pickle (protocol %d) %s' % (K.describe(o.value), o.token, proto, t2))
        return
    if interned(o.value) and not st.G.has_nan(o.recipe):
        res.count('identity_checks')
        if v2 is not o.value:
            res.violation('interning: unpickled instance is not the live instance', case, K.describe(o.value))


def consistency(st, res, members):
    """Monitor D (and C for live members) on the Immutable-family members of one family."""
    from nutils import types as nt
    K, G = st.K, st.G
    dm = [o for o in members if isinstance(o.value, (nt.Immutable, nt.DataClass, nt.frozendict, nt.frozenmultiset, nt._hashable_function_wrapper))]
    npairs = 0
    for i in range(len(dm)):
        for j in range(i + 1, len(dm)):
            if npairs >= 300:
                return
            npairs += 1
            a, b = dm[i], dm[j]
            va, vb = a.value, b.value
            res.count('consistency_pairs')
            case = dict(kind='consistency', a=a.recipe, b=b.recipe)
            try:
                eq, eq2 = (va == vb), (vb == va)
                ha, hb = hash(va), hash(vb)
            except Exception as e:
                res.count('consistency_exception/' + type(e).__name__)
                continue
            nan = G.has_nan(a.recipe) or G.has_nan(b.recipe)
            same_c, same_h = a.canon == b.canon, a.token == b.token
            det = describe_pair(K, va, vb, a.token, b.token)
            if bool(eq) != bool(eq2):
                res.violation('consistency: == is not symmetric', case, det)
            if same_c and not nan:
                res.count('consistency_equal_pairs')
                if not eq:
                    res.violation('consistency: structurally equal values compare unequal', case, det)
                if ha != hb:
                    res.violation('consistency: structurally equal values have different hash()', case, det)
                if not same_h:
                    res.violation('stability: structurally equal values have different nutils_hash', case, det)
                if interned(va):
                    res.count('identity_checks')
                    if va is not vb:
                        res.violation('interning: structurally equal live instances are distinct objects', case, det)
            if eq:
                if ha != hb:
                    res.violation('consistency: a == b but hash(a) != hash(b)', case, det)
                if not same_c:
                    res.count('eq_coarser_than_structure')     # python numeric equality (1 == 1.0 == True); not a verdict
            if same_h and type(va) is type(vb) and not eq and not nan:
                res.violation('consistency: equal nutils_hash but == is False', case, det)
            if interned(va) and interned(vb) and bool(eq) != (va is vb):
                res.violation('consistency: == differs from identity for interned types', case, det)


def run_corpus(st, res, start, stop, ctx):
    G = st.G
    for idx in range(start, stop):
        if ctx.expired():
            res.count('skipped_deadline/corpus', stop - idx)
            return
        name, fam = st.family(idx)
        res.count('families')
        members = []
        for j, r in enumerate(fam):
            o = observe(r, res, st.K, G, st)
            account(st, res, o, ('f', idx, j), family=name)
            if o.status == 'ok':
                members.append(o)
                pickle_route(st, res, o, ('f', idx, j), 2 + (idx + j) % 4)
        consistency(st, res, members)
        del members
        st.K.forget_hashable_functions()
        if idx % 1999 == 0:
            res.sample(dict(kind='family', family=name, index=idx, recipes=fam[:4]))


# ---------------------------------------------------------------- Monitor B in process

def check_route(st, res, kind, r1, r2):
    K, G = st.K, st.G
    a, b = observe(r1, res, K, G, st), observe(r2, res, K, G, st)
    res.count('route_pairs')
    if a.status != 'ok' or b.status != 'ok':
        res.count('route_pairs_not_comparable/%s/%s+%s' % (kind, a.status, b.status))
        if {a.status, b.status} == {'ok', 'refused'}:
            res.note('route %s: one side refused: %s | %s' % (kind, json.dumps(r1)[:150], json.dumps(r2)[:150]))
        return
    same_value = (a.expected == b.expected) if (a.expected is not None and b.expected is not None) else (a.canon == b.canon)
    if not same_value:
        res.count('route_pairs_different_value/' + kind)      # e.g. {1, True}: python keeps the first; not the same value, no verdict
        return
    res.count('routes/' + kind)
    case = dict(kind='route', route=kind, a=r1, b=r2)
    if a.token != b.token:
        det = 'route "%s": one value, two hashes\n%s' % (kind, describe_pair(K, a.value, b.value, a.token, b.token))
        if kind.startswith('extra:'):
            res.count('extra_route_hash_differs/' + kind)
            res.note(det)
        else:
            res.violation('stability: ' + kind, case, det)
        return
    if interned(a.value) and not (G.has_nan(r1) or G.has_nan(r2)):
        res.count('identity_checks')
        if a.value is not b.value:
            res.violation('interning: structurally equal live instances are distinct objects', case, describe_pair(K, a.value, b.value, a.token, b.token))


def run_routes(st, res, start, stop, ctx):
    for i in range(start, stop):
        if ctx.expired():
            res.count('skipped_deadline/routes', stop - i)
            return
        rng = rng_for(st.seed, 'c17r', i)
        pairs = st.G.route_pairs(rng, st.pool)
        for kind, r1, r2 in pairs:
            check_route(st, res, kind, r1, r2)
        if i % 499 == 0:
            res.sample(dict(kind='route', route=pairs[0][0], a=pairs[0][1], b=pairs[0][2]))


# ---------------------------------------------------------------- Monitor C: interning histories

def gen_history(rng, nent):
    nslots, nstores = 6, 3
    ops = []
    n = int(rng.integers(15, 45))
    for _ in range(n):
        u = rng.random()
        if u < .45:
            ops.append(['create', int(rng.integers(nslots)), int(rng.integers(nent)), int(rng.integers(8))])
        elif u < .6:
            ops.append(['drop', int(rng.integers(nslots))])
        elif u < .72:
            ops.append(['gc'])
        elif u < .82:
            ops.append(['pickle', int(rng.integers(nslots)), int(rng.integers(nstores))])
        elif u < .95:
            ops.append(['unpickle', int(rng.integers(nstores)), int(rng.integers(nslots))])
        else:
            ops.append(['dropall'])
    return ops


def run_history(st, res, pool, ops, viol):
    """pool: list of entries (lists of route recipes of one value). viol(monitor, detail, step)."""
    K, G = st.K, st.G
    slots, stores, first_token, wrefs = {}, {}, {}, {}
    for step, op in enumerate(ops):
        res.count('history_ops/' + op[0])
        if op[0] == 'create':
            _, s, e, j = op
            e %= len(pool)
            r = pool[e][j % len(pool[e])]
            try:
                with warnings.catch_warnings():
                    warnings.simplefilter('ignore')
                    obj = G.build(r)
            except Exception as ex:
                res.count('history_unbuildable')
                continue
            slots.pop(s, None)
            slots[s] = (e, obj)
            w = wrefs.get(e)
            if w is not None and w[0]() is None and w[1]:
                res.count('recreated_after_free')
            t = token(obj, res)
            if first_token.setdefault(e, t) != t:
                viol('stability: hash of one value changes along an allocation history', 'entry %d recipe %s: first %s, now %s' % (e, json.dumps(r)[:300], first_token[e], t), step)
            try:
                wrefs[e] = [weakref.ref(obj), False]
            except TypeError:
                pass
        elif op[0] == 'drop':
            slots.pop(op[1], None)
        elif op[0] == 'dropall':
            slots.clear()
            gc.collect()
        elif op[0] == 'gc':
            gc.collect()
        elif op[0] == 'pickle':
            if op[1] in slots:
                e, obj = slots[op[1]]
                try:
                    stores[op[2]] = (e, pickle.dumps(obj, protocol=2 + step % 4))
                except Exception:
                    res.count('history_unpicklable')
        elif op[0] == 'unpickle':
            if op[1] in stores:
                e, data = stores[op[1]]
                try:
                    obj = pickle.loads(data)
                except Exception:
                    viol('stability: unpickling an interned value raised', traceback.format_exc()[-600:], step)
                    continue
                slots.pop(op[2], None)
                slots[op[2]] = (e, obj)
                t = token(obj, res)
                if first_token.setdefault(e, t) != t:
                    viol('stability: hash of one value changes along an allocation history (unpickle)', 'entry %d: first %s, now %s' % (e, first_token[e], t), step)
        for w in wrefs.values():
            if w[0]() is None:
                w[1] = True     # observed dead at least once
        # invariant: among live slots, same entry <=> same object
        live = list(slots.values())
        for i in range(len(live)):
            for j in range(i + 1, len(live)):
                (ea, a), (eb, b) = live[i], live[j]
                if not interned(a):
                    continue
                res.count('identity_checks')
                if ea == eb and a is not b:
                    viol('interning: structurally equal live instances are distinct objects', 'entry %d: %s' % (ea, K.describe(a)), step)
                elif ea != eb and a is b:
                    viol('interning: different values share one interned object', 'entries %d and %d: %s' % (ea, eb, K.describe(a)), step)


def valid_pool(st, res, pool):
    """Keep entries whose routes all build to one canonical form, and whose forms differ between entries."""
    K, G = st.K, st.G
    out, seen = [], set()
    for ent in pool:
        canons, ok = set(), True
        good = []
        for r in ent:
            o = observe(r, res, K, G, st)
            if o.status != 'ok':
                continue
            good.append(r)
            canons.add(o.canon)
        if not good or len(canons) != 1 or next(iter(canons)) in seen or any(G.has_nan(r) for r in good):
            res.count('history_pool_entries_dropped')
            continue
        seen.add(next(iter(canons)))
        out.append(good)
    return out


def run_conflation(st, res, r1, r2, case=None):
    """History: value r2 alone, then r2 while the ==-equal but different value r1 is alive."""
    K, G = st.K, st.G
    res.count('conflation_cases')
    case = case or dict(kind='conflation', a=r1, b=r2)
    gc.collect()
    q = G.build(r2)
    h_alone, c_alone = token(q, res), K.canon(q)
    del q
    gc.collect()
    p = G.build(r1)
    c_p = K.canon(p)
    q = G.build(r2)
    h_with, c_with = token(q, res), K.canon(q)
    same = q is p
    if c_p == c_alone:
        res.count('conflation_not_distinct')      # r1 and r2 are the same value after all
        return
    if h_with != h_alone or c_with != c_alone or same:
        res.count('conflation_observed')
        args1, args2 = _requested_args(G, r1), _requested_args(G, r2)
        mech = KNOWN_INTERN if (interned(p) and type(p) is type(q) and K.lookalike_only_diff(args1, args2)) else None
        det = ('%s constructed while the ==-equal but different value %s is alive: same object=%s, hash %s; constructed alone: hash %s'
               % (json.dumps(r2), json.dumps(r1), same, h_with, h_alone))
        if mech is None or st.cap(mech, 3):
            res.violation('interning: value and hash of a construction depend on what is alive', case, det, mechanism=mech)
        if mech:
            res.count('known_hits/' + mech)


def _requested_args(G, r):
    """The argument structure requested by an ['im', key, pos, kw] recipe, bound by my own reading of the signature."""
    import inspect
    cls = G.classes()[r[1]]
    pos = [G.build(x) for x in r[2]]
    kw = {n: G.build(x) for n, x in r[3]}
    sig = inspect.signature(cls.__init__) if not hasattr(cls, '__post_init__') else None
    if sig is not None:
        ba = sig.bind(None, *pos, **kw)
        ba.apply_defaults()
        d = dict(ba.arguments)
        d.pop('self', None)
        return tuple((k, tuple(sorted(v.items())) if isinstance(v, dict) else v) for k, v in d.items())
    ba = cls.__signature__.bind(*pos, **kw)
    ba.apply_defaults()
    return tuple(ba.arguments.items())


def run_hist(st, res, start, stop, ctx):
    G = st.G
    for i in range(start, stop):
        if ctx.expired():
            res.count('skipped_deadline/hist', stop - i)
            return
        rng = rng_for(st.seed, 'c17h', i)
        pool = valid_pool(st, res, G.intern_pool(rng, st.pool))
        if len(pool) < 5:
            res.count('history_pool_too_small')
            continue
        ops = gen_history(rng, len(pool))
        res.count('histories')
        case = dict(kind='history', pool=pool, ops=ops)

        def viol(monitor, detail, step):
            res.violation(monitor, dict(case, step=step), detail)
        run_history(st, res, pool, ops, viol)
        for _ in range(2):
            r1, r2 = G.conflation_case(rng)
            run_conflation(st, res, r1, r2)
        # a rebuilt mesh gives the same interned objects
        from vlib import c17_nutils
        names = [n for n in c17_nutils.names() if n.split('.', 1)[0] in c17_nutils._mesh_makers()]
        n = names[int(rng.integers(len(names)))]
        check_route(st, res, 'rebuilt', ['nu', n], ['nuf', n])
        # the same mesh reached through another mesh call signature (compared only if the canonical forms agree)
        m1, m2 = c17_nutils.SAME_STRUCTURE[int(rng.integers(len(c17_nutils.SAME_STRUCTURE)))]
        cand = [x for x in names if x.startswith(m1 + '.') and (m2 + x[len(m1):]) in c17_nutils.catalogue()]
        if cand:
            x = cand[int(rng.integers(len(cand)))]
            check_route(st, res, 'rebuilt', ['nu', x], ['nu', m2 + x[len(m1):]])
        if i % 97 == 0:
            res.sample(dict(kind='history', pool=pool[:2], ops=ops[:6]))


# ---------------------------------------------------------------- Monitor B across processes / hash seeds

def xproc_corpus(st, start, stop):
    """Deterministic list of recipes for the cross-process comparison."""
    G = st.G
    out = []
    if start == 0:
        base = G.base_corpus()
        out += base[::8]
        from vlib import c17_nutils
        out += [['nu', n] for n in c17_nutils.names()[::12]]
    i = start * 7
    while len(out) < stop - start:
        name, fam = G.gen_family(rng_for(st.seed, 'c17x', i), st.pool)
        i += 1
        out += [r for r in fam if not G.risky_intern(r)]
        if i % 5 == 0:
            for kind, r1, r2 in G.route_pairs(rng_for(st.seed, 'c17xr', i), st.pool)[::4]:
                out += [r for r in (r1, r2) if not G.risky_intern(r)]
    return out[:stop - start]


def run_child(recipes, pickles, hashseed, order, timeout=600):
    d = tempfile.mkdtemp(prefix='c17x-')
    try:
        infile, outfile = os.path.join(d, 'in.json'), os.path.join(d, 'out.json')
        with open(infile, 'w') as f:
            json.dump(dict(recipes=recipes, pickles=pickles, order=order), f)
        env = dict(os.environ)
        env['PYTHONHASHSEED'] = hashseed
        # children recompile nothing: byte code cache outside the repository (validated by source mtime/size, so safe across VERIF_REPO copies)
        env['PYTHONPYCACHEPREFIX'] = PYCACHE
        env.pop('PYTHONDONTWRITEBYTECODE', None)
        p = subprocess.run([sys.executable, '-m', 'vlib.c17_child', infile, outfile], env=env, cwd=VERIF, timeout=timeout, stdout=subprocess.PIPE, stderr=subprocess.STDOUT)
        if p.returncode != 0 or not os.path.exists(outfile):
            return None, p.stdout.decode(errors='replace')[-800:]
        with open(outfile) as f:
            return json.load(f), ''
    except subprocess.TimeoutExpired:
        return None, 'timeout'
    finally:
        shutil.rmtree(d, ignore_errors=True)


def run_xproc(st, res, unit, ctx):
    K, G = st.K, st.G
    from nutils import types as nt
    if ctx.expired():
        res.count('skipped_deadline/xproc')
        return
    hashseed = unit['hashseed']
    recipes = xproc_corpus(st, unit['start'], unit['stop'])
    tokens, canons, pickles, owned = [], [], [], []
    for r in recipes:
        try:
            with warnings.catch_warnings():
                warnings.simplefilter('ignore')
                v = G.build(r)
        except Exception as e:
            tokens.append('U:' + type(e).__name__)
            canons.append(None)
            pickles.append(None)
            owned.append(False)
            continue
        t = token(v, res)
        tokens.append(t)
        try:
            canons.append(K.canon(v).hex())
        except Exception:
            canons.append(None)
        owned.append(isinstance(v, (nt.Immutable, nt.DataClass, nt.frozendict, nt.frozenmultiset)))
        p = None
        if t[1] != ':':
            try:
                p = base64.b64encode(pickle.dumps(v, protocol=4)).decode()
            except Exception:
                p = None
        pickles.append(p)
        del v
    st.K.forget_hashable_functions()
    out, err = run_child(recipes, pickles, hashseed, 'reversed', timeout=max(60, ctx.time_left() + 30))
    if out is None:
        res.count('xproc_child_failed')
        res.note('cross-process child failed (hashseed %s): %s' % (hashseed, err))
        return
    res.add('xproc_hashseeds', hashseed)
    res.add('xproc_str_hashes', out['str_hash'])
    res.count('xproc_units')
    suspects = []
    for i, r in enumerate(recipes):
        tb, cb = out['built'][i], out['built_canon'][i]
        if tokens[i][1] == ':' or tb[1] == ':':
            res.count('xproc_not_hashed_both')
            if tokens[i][:1] != tb[:1]:
                suspects.append((i, 'built', tb))
            continue
        if canons[i] is None or cb is None:
            res.count('xproc_unclassified')
        elif canons[i] != cb:
            res.count('xproc_recipe_built_differently')      # the recipe itself is not deterministic across processes: no verdict
            res.note('recipe builds another value in the child: ' + json.dumps(r)[:300])
        else:
            res.count('routes/process')
            res.count('xproc_compared/' + hashseed)
            if tb != tokens[i]:
                suspects.append((i, 'built', tb))
        tu, cu = out['unpickled'][i], out['unpickled_canon'][i]
        if tu is None:
            continue
        if tu[1] == ':':
            res.count('xproc_unpickle_failed')
            if owned[i]:
                suspects.append((i, 'unpickled', tu))
        elif canons[i] is None or cu is None:
            res.count('xproc_unpickled_unclassified')
        elif cu != canons[i]:
            # the pickle transport itself produced another value (numpy returns foreign-endian arrays in native byte order)
            res.count('xproc_pickle_changed_structure')
            if owned[i]:
                suspects.append((i, 'unpickled-structure', tu))
        else:
            res.count('routes/process+pickle')
            if tu != tokens[i]:
                suspects.append((i, 'unpickled', tu))
    for i, how, tchild in suspects[:5]:
        # confirm in isolation: a fresh process that builds only this recipe
        iso, err = run_child([recipes[i]], [pickles[i]], hashseed, 'forward', timeout=300)
        case = dict(kind='xproc', recipe=recipes[i], hashseed=hashseed, how=how)
        if iso is None:
            res.note('isolated confirm run failed: ' + err)
            res.count('xproc_confirm_failed')
            continue
        if how == 'built':
            tiso, same_value = iso['built'][0], iso['built_canon'][0] == canons[i]
        else:
            tiso, same_value = iso['unpickled'][0], iso['unpickled_canon'][0] == canons[i]
        if how == 'unpickled-structure':
            if not same_value:
                res.violation('stability: a nutils value arrives as another value after pickling to another process', case, json.dumps(recipes[i])[:400])
            continue
        if tiso != tokens[i] and (same_value or tiso[1] == ':'):
            res.violation('stability: another process / PYTHONHASHSEED=%s gives another hash' % hashseed, case,
                          '%s: this process %s, child (%s) %s, isolated child %s' % (json.dumps(recipes[i])[:400], tokens[i], how, tchild, tiso))
        elif tiso == tokens[i]:
            res.violation('stability: hash depends on construction history (differs in a process that built the corpus in another order)', case,
                          '%s: this process %s, child (%s, reversed order) %s, isolated child %s' % (json.dumps(recipes[i])[:400], tokens[i], how, tchild, tiso))
        else:
            res.count('xproc_unclassified')
    if len(suspects) > 5:
        res.count('xproc_more_suspects', len(suspects) - 5)


# ---------------------------------------------------------------- Monitor E: consumers

_captured = []


def _install_capture():
    from nutils import _util
    if getattr(_util.function, '_c17', False):
        return
    orig = _util.function

    def function(script, globals={}):
        _captured.append((script, dict(globals)))
        return orig(script, globals)
    function._c17 = True
    _util.function = function


def run_const_binding(st, res, recipes, case=None):
    """Compile a tuple of Constants built from adversarial arrays; every result must be the requested array."""
    from nutils import evaluable as E, types as nt
    G = st.G
    arrays, evs = [], []
    for r in recipes:
        try:
            with warnings.catch_warnings():
                warnings.simplefilter('ignore')
                a = G.build(r)
                ad = nt.arraydata(a)
        except Exception:
            continue
        arrays.append((r, numpy.asarray(ad)))
        evs.append(E.Constant(ad))
    if len(evs) < 2:
        return
    case = case or dict(kind='consumer-const', arrays=[r for r, a in arrays])
    _install_capture()
    del _captured[:]
    res.count('const_binding_compiles')
    try:
        f = E.compile(tuple(evs), _simplify=False, _optimize=False)
        out = f({})
    except Exception as e:
        tb = traceback.format_exc()
        res.violation('consumer: compiling/evaluating a tuple of constants raised', case, tb[-1500:])
        return
    for (r, want), got in zip(arrays, out):
        res.count('const_binding_results')
        got = numpy.asarray(got)
        if got.shape != want.shape or got.dtype.kind != want.dtype.kind or got.tobytes() != numpy.ascontiguousarray(want).astype(got.dtype).tobytes():
            res.violation('consumer: generated code bound another constant than the one requested', case,
                          'requested %s %s %s, evaluated to %s %s %s' % (want.dtype, want.shape, want.tolist(), got.dtype, got.shape, got.tolist()))
    for script, glob in _captured:
        for name, value in glob.items():
            if len(name) == 41 and name[0] == 'c':
                res.count('const_globals_checked')
                t = token(value, res)
                if t != name[1:]:
                    res.violation('consumer: global %s does not hold a value with that hash' % name, case, 'hash of bound value: %s' % t)


def memo_probe(x):
    from vlib import c17_canon as K
    return K.canon(x).hex()


_memo = None


def run_cache_function(st, res, fam, cachedir):
    """cache.function must return, for every argument, the result computed for THAT argument."""
    global _memo
    from nutils import cache
    K, G = st.K, st.G
    if _memo is None:
        _memo = cache.function(memo_probe)
    first = {}
    with cache.enable(cachedir):
        for r in fam:
            o = observe(r, res, K, G, st)
            if o.status != 'ok':
                continue
            try:
                got = _memo(o.value)
            except Exception as e:
                res.count('cache_call_exception/' + type(e).__name__)
                continue
            res.count('cache_function_calls')
            if o.token in first:
                res.count('cache_function_hits')
            prev = first.setdefault(o.token, o)
            if got != o.canon.hex():
                verdict, what = K.classify_collision(prev.value, o.value) if prev is not o else ('violation', None)
                case = dict(kind='consumer-cache', a=prev.recipe, b=r)
                if verdict == 'known':
                    res.count('cache_wrong_result_known/' + what)
                    if st.cap('cache' + what, 2):
                        res.violation('consumer: cache.function served the result of another argument', case, describe_pair(K, prev.value, o.value, prev.token, o.token), mechanism=what)
                elif verdict in ('unclassified', 'out_of_scope'):
                    res.count('cache_wrong_result_' + verdict)
                    res.add('out_of_scope_observations' if verdict == 'out_of_scope' else 'unclassified_reasons', what)
                else:
                    res.violation('consumer: cache.function served the result of another argument', case, describe_pair(K, prev.value, o.value, prev.token, o.token))


def run_cons(st, res, start, stop, ctx):
    G = st.G
    cachedir = tempfile.mkdtemp(prefix='c17cache-')
    try:
        for i in range(start, stop):
            if ctx.expired():
                res.count('skipped_deadline/cons', stop - i)
                return
            rng = rng_for(st.seed, 'c17c', i)
            base = G.gen_array(rng, dt=('<i8', '<f8', '|b1', '<c16', '<i4', '<f4', '|u1')[int(rng.integers(7))])
            recipes = [base] + [r for r in G.array_variants(base, rng) if r[0] in ('A', 'Av')]
            run_const_binding(st, res, recipes[:12])
            name, fam = G.gen_family(rng, st.pool)
            run_cache_function(st, res, fam, cachedir)
    finally:
        shutil.rmtree(cachedir, ignore_errors=True)


# ---------------------------------------------------------------- protocol

def run_units(units, ctx):
    warnings.simplefilter('ignore')
    res = Result()
    st = State(ctx.seed)
    st.G.classes()
    for u in units:
        k = u['kind']
        try:
            if k == 'corpus':
                if not st.base_done:
                    run_base(st, res)
                run_corpus(st, res, u['start'], u['stop'], ctx)
            elif k == 'routes':
                run_routes(st, res, u['start'], u['stop'], ctx)
            elif k == 'hist':
                run_hist(st, res, u['start'], u['stop'], ctx)
            elif k == 'xproc':
                run_xproc(st, res, u, ctx)
            elif k == 'cons':
                run_cons(st, res, u['start'], u['stop'], ctx)
        except Exception:
            res.count('unit_crashed')
            res.note('unit %s crashed: %s' % (json.dumps(u), traceback.format_exc()[-400:]))
    res.maximum('table_size_per_worker', len(st.table))
    return res


def replay(case):
    class _Ctx:
        seed = 0

        def expired(self):
            return False

        def time_left(self):
            return 600.
    warnings.simplefilter('ignore')
    res = Result()
    st = State(0)
    K, G = st.K, st.G
    G.classes()
    k = case.get('kind')
    if k == 'collision':
        a = observe(case['a'], res, K, G)
        ta, ca, sa = a.token, a.canon, a.status
        a.value = None
        del a
        gc.collect()      # the two values are observed one after the other, as in the run (interned classes conflate ==-equal arguments)
        b = observe(case['b'], res, K, G)
        if sa == b.status == 'ok' and ta == b.token and ca != b.canon:
            report_collision(st, res, case['a'], G.build(case['a']), case['b'], b.value, b.token, ca)
    elif k == 'route':
        check_route(st, res, case['route'], case['a'], case['b'])
    elif k == 'construction':
        observe(case['recipe'], res, K, G)
    elif k == 'pickle':
        o = observe(case['recipe'], res, K, G)
        if o.status == 'ok':
            pickle_route(st, res, o, ('b', 0), case['proto'])
    elif k == 'consistency':
        ms = [observe(case['a'], res, K, G), observe(case['b'], res, K, G)]
        consistency(st, res, [o for o in ms if o.status == 'ok'])
    elif k == 'history':
        run_history(st, res, case['pool'], case['ops'], lambda monitor, detail, step: res.violation(monitor, case, detail))
    elif k == 'conflation':
        run_conflation(st, res, case['a'], case['b'])
    elif k == 'xproc':
        o = observe(case['recipe'], res, K, G)
        out, err = run_child([case['recipe']], [None], case['hashseed'], 'forward', timeout=300)
        if out is not None and o.status == 'ok' and out['built_canon'][0] == o.canon.hex() and out['built'][0] != o.token:
            res.violation('stability: another process / PYTHONHASHSEED gives another hash', case, '%s vs %s' % (o.token, out['built'][0]))
    elif k == 'consumer-const':
        run_const_binding(st, res, case['arrays'], case)
    elif k == 'consumer-cache':
        d = tempfile.mkdtemp(prefix='c17cache-')
        try:
            run_cache_function(st, res, [case['a'], case['b']], d)
        finally:
            shutil.rmtree(d, ignore_errors=True)
    # replay files exist only for unexplained violations: hits that classify as an open ledger finding are not "reproduced violations"
    return [v for v in res.violations if v.get('mechanism') not in (KNOWN_BARE, KNOWN_INTERN)]


# ---------------------------------------------------------------- ledger reproducers

def repro_bare_name():
    from nutils.types import nutils_hash
    from vlib import c17_mod_a as A, c17_mod_b as B
    import collections
    hits = []
    if nutils_hash(A.Plain) == nutils_hash(B.Plain):
        hits.append('class objects c17_mod_a.Plain / c17_mod_b.Plain')
    if nutils_hash(A.DC(1, 2)) == nutils_hash(B.DC(1, 2)):
        hits.append('dataclass instances a.DC(1,2) / b.DC(1,2)')
    if nutils_hash(A.P(1, 2)) == nutils_hash(B.P(1, 2)):
        hits.append('namedtuples P(a=1,b=2) / P(x=1,y=2)')
    if nutils_hash(collections.namedtuple('tuple', ['a', 'b'])(1, 2)) == nutils_hash((1, 2)):
        hits.append("namedtuple('tuple')(1,2) / (1,2)")
    return bool(hits), 'same nutils_hash for: ' + ('; '.join(hits) or 'nothing (no longer collides)')


def repro_intern_key():
    from nutils.types import nutils_hash
    from vlib import c17_mod_a as A
    gc.collect()
    alone = nutils_hash(A.Data1(1.0)).hex()
    gc.collect()
    p = A.Data1(1)
    q = A.Data1(1.0)
    with_sibling = nutils_hash(q).hex()
    s1 = A.Sing2(True, 'k')
    s2 = A.Sing2(1, 'k')
    fails = (q is p) or with_sibling != alone or (s2 is s1)
    return fails, 'Data1(1.0) while Data1(1) is alive: same object=%s, x=%r, hash %s (alone: %s); Sing2(1,"k") is Sing2(True,"k"): %s' % (q is p, q.x, with_sibling, alone, s2 is s1)


REPRODUCERS = {KNOWN_BARE: repro_bare_name, KNOWN_INTERN: repro_intern_key}


# ---------------------------------------------------------------- finalize

STRICT_IN_PROCESS = ('kwpos', 'default', 'npscalar', 'arraydata-intwidth', 'commutative', 'unordered', 'pickle', 'rebuilt')


def finalize(m, tier, seed):
    c = m.counters

    def sub(prefix):
        return {k[len(prefix):]: v for k, v in sorted(c.items()) if k.startswith(prefix)}
    skipped = sub('skipped_deadline/')
    cov = dict(evaluations=c.get('evaluations', 0), distinct_nontrivial=len(m.sets.get('distinct', ())), rule=RULE, samples=m.samples[:4],
               values_generated=c.get('values_generated', 0), values_in_hash_table=c.get('tabled', 0), families=c.get('families', 0),
               values_per_family_kind=sub('family/'), table_size_per_worker_max=m.maxima.get('table_size_per_worker', 0),
               collisions_observed=c.get('collisions_observed', 0), collisions_known=sub('collisions_known/'), collisions_unclassified=c.get('collisions_unclassified', 0),
               out_of_scope_collisions=c.get('out_of_scope_collisions', 0),
               out_of_scope_observations=sorted(m.sets.get('out_of_scope_observations', ())) + [
                   'hashable_function(identifier) hashes exactly as the tuple ("hashable_function", identifier) (tuple-proxy idiom; counted under collisions_unclassified)',
                   'nutils_hash(<Immutable/DataClass subclass object>) returns the cached_property object instead of bytes or TypeError (counted under malformed_return)',
                   'ndarray dtype.str is lossy for structured dtypes ("|V16"): such arrays are unclassified'],
               refused=c.get('refused', 0), refused_by_exception=sub('refused/'), refused_types=sorted(m.sets.get('refused_types', ()))[:60],
               malformed_return=c.get('malformed_return', 0), malformed_return_for=sorted(m.sets.get('malformed_return_for', ()))[:12],
               unclassified=c.get('unclassified', 0), unclassified_reasons=sorted(m.sets.get('unclassified_reasons', ()))[:30],
               unbuildable=c.get('unbuildable', 0), hashed_types=len(m.sets.get('hashed_types', ())), hashed_types_sample=sorted(m.sets.get('hashed_types', ()))[:80],
               catalogue_types=sorted(m.sets.get('catalogue_types', ())),
               routes_checked=sub('routes/'), route_pairs=c.get('route_pairs', 0), route_pairs_different_value=sub('route_pairs_different_value/'),
               route_pairs_not_comparable=sub('route_pairs_not_comparable/'),
               extra_route_hash_differs=sub('extra_route_hash_differs/'), unpicklable=c.get('unpicklable', 0), unpickle_failed=c.get('unpickle_failed', 0), unpickle_failed_types=sorted(m.sets.get('unpickle_failed_types', ())),
               pickle_changed_structure=c.get('pickle_changed_structure', 0),
               pickle_changed_structure_types=sorted(m.sets.get('pickle_changed_structure_types', ())),
               xproc_units=c.get('xproc_units', 0), xproc_hashseeds=sorted(m.sets.get('xproc_hashseeds', ())), xproc_distinct_str_hashes=len(m.sets.get('xproc_str_hashes', ())),
               xproc_compared=sub('xproc_compared/'), xproc_child_failed=c.get('xproc_child_failed', 0), xproc_pickle_changed_structure=c.get('xproc_pickle_changed_structure', 0),
               xproc_unclassified=c.get('xproc_unclassified', 0) + c.get('xproc_unpickled_unclassified', 0), xproc_recipe_built_differently=c.get('xproc_recipe_built_differently', 0),
               histories=c.get('histories', 0), history_ops=sub('history_ops/'), recreated_after_free=c.get('recreated_after_free', 0), identity_checks=c.get('identity_checks', 0),
               construction_checks=c.get('construction_checks', 0), construction_conflated=sub('construction_conflated/'),
               conflation_cases=c.get('conflation_cases', 0), conflation_observed=c.get('conflation_observed', 0),
               consistency_pairs=c.get('consistency_pairs', 0), consistency_equal_pairs=c.get('consistency_equal_pairs', 0), eq_coarser_than_structure=c.get('eq_coarser_than_structure', 0),
               const_binding_compiles=c.get('const_binding_compiles', 0), const_binding_results=c.get('const_binding_results', 0), const_globals_checked=c.get('const_globals_checked', 0),
               cache_function_calls=c.get('cache_function_calls', 0), cache_function_hits=c.get('cache_function_hits', 0), cache_wrong_result_known=sub('cache_wrong_result_known/'),
               skipped_by_deadline=skipped)
    inc = []
    scale = SCALE
    if cov['values_in_hash_table'] < max(10000, 8 * NFAM[tier] * scale):
        inc.append('only %d values entered the hash table' % cov['values_in_hash_table'])
    if sum(skipped.values()) > 0.2 * (NFAM[tier] + NROUTE[tier] + NHIST[tier] + NCONS[tier]) * scale:
        inc.append('deadline skipped %s' % skipped)
    for k in STRICT_IN_PROCESS:
        if cov['routes_checked'].get(k, 0) < 20:
            inc.append('route "%s" checked only %d times' % (k, cov['routes_checked'].get(k, 0)))
    for k in STRICT_IN_PROCESS:
        lost = sum(v for kk, v in cov['route_pairs_not_comparable'].items() if kk.startswith(k + '/') and not kk.endswith('refused+refused'))
        if lost > cov['routes_checked'].get(k, 0):
            inc.append('route "%s": %d pairs could not be built/compared vs %d compared' % (k, lost, cov['routes_checked'].get(k, 0)))
    if set(cov['xproc_hashseeds']) != set(HASHSEEDS):
        inc.append('hash seeds covered: %s' % cov['xproc_hashseeds'])
    elif cov['xproc_distinct_str_hashes'] < 5:
        inc.append('PYTHONHASHSEED did not take effect in the children')
    elif min(cov['xproc_compared'].values() or [0]) < 300 * min(1, scale):
        inc.append('too few cross-process comparisons: %s' % cov['xproc_compared'])
    if cov['histories'] < 30 or cov['recreated_after_free'] < 30 or cov['identity_checks'] < 1000:
        inc.append('interning histories barely exercised (histories=%d, recreated_after_free=%d, identity_checks=%d)' % (cov['histories'], cov['recreated_after_free'], cov['identity_checks']))
    if cov['consistency_equal_pairs'] < 100:
        inc.append('consistency monitor saw only %d structurally equal pairs' % cov['consistency_equal_pairs'])
    if cov['const_binding_results'] < 100 or cov['cache_function_calls'] < 100:
        inc.append('consumer monitors barely reached')
    if c.get('unit_crashed'):
        inc.append('%d work unit(s) crashed in the harness: %s' % (c['unit_crashed'], '; '.join(m.notes[:2])))
    if cov['refused'] < 10:
        inc.append('refusal path never observed')
    return dict(coverage=cov, inconclusive='; '.join(inc) if inc else None)
