"""C12 — Bases are what their type promises.

Monitor shape: every generated (topology, basis type, parameters) is built with the real
``Topology.basis`` and observed only through its public interface.  Deciding oracles:

1. per element, ``sample.eval(basis)`` equals the scatter-add of
   ``nutils_poly.eval_outer(get_coefficients(i), local coords)`` into ``get_dofs(i)``; every other entry is
   exactly zero;
2. ``j in get_dofs(i)  <=>  i in get_support(j)``, ``get_ndofs(i) == len(get_dofs(i))``, dofs in range,
   no dof listed twice in an element (except the documented periodic wrap-around of short periodic splines),
   every dof has support; array/mask forms of the maps equal the unions;
3. partition of unity for the types that promise it;
4. zero jump of the k-th normal derivative across every interface for k <= the continuity the type
   advertises there (spline: degree - multiplicity of that knot, incl. periodic wrap; std & co: C0);
5. ``len(basis)`` equals the closed form where one exists;
plus type-specific reference models: Cox-de Boor B-splines for structured splines, parent columns for
``basis[mask]`` / trimmed (pruned) / ``discontinuous_at_partition_interfaces``, outer products for
tensor-product topologies, Kronecker structure for ``.vector(n)``, span(th-*) == span(h-*).
"""

import json, traceback, warnings, hashlib
import numpy
from vlib.runner import Result, rng_for, scaled
from vlib import tolerance
from vlib import c12_topo as ct, c12_gen as cg, c12_monitors as cm, c12_alias as ca
from vlib.c12_oracle import Refused

PROPERTY = 'C12'
LEVEL = 'exploration'
RULE = ('random (topology, basis type, parameters): topologies from an own generator (1-3-D structured incl. periodic/sliced/refined/'
        'boundary, simplex strips / Kuhn triangulations / unitsquare triangles, mixed, multipatch two/L/four/ring/3-D/1-D stars, '
        'hierarchical 1-3 levels over structured/simplex/mixed/trimmed bases, trimmed by planes and spheres, tensor products); basis '
        'types spline/std/discont/legendre/lagrange/bernstein/bubble/patch, h-*/th-*, with degree 0-4 x continuity x random knot '
        'values x multiplicities x periodic x removedofs; derived bases basis[mask], discontinuous_at_partition_interfaces, '
        '.vector(n). non-trivial = basis was constructed and evaluated on >=1 element with >=1 dof; distinct = hash of '
        '(topology spec, btype, kwargs, derived-basis spec)')
ASSUMPTIONS = ['nutils_poly (external package) evaluates polynomials correctly', 'Sample.getindex / Sample.points report where a point was evaluated (C09/C11)',
               'continuity is tested at Gauss points of every interface element, derivatives up to order 3 (2 in 3-D)',
               'closed-form dimensions are asserted only for structured tensor splines, simplicial complexes, discontinuous/legendre/bubble bases and the multipatch layouts of the generator']
BUDGET_S = {'quick': 80, 'thorough': 1400}
NCASES = {'quick': 2400, 'thorough': 40000}
CHUNK = 10
FLOORS = {'quick': dict(cases=400, elements=3500, cont=700, pum=250, alias_shared=20, alias_reuse=40), 'thorough': dict(cases=8000, elements=80000, cont=15000, pum=4000, alias_shared=400, alias_reuse=800)}

REFUSAL_TYPES = (ValueError, NotImplementedError, AssertionError)
F_SINGLE = cm.FINDING_SINGLE
F_USPLINE = 'C12-unstructured-spline-typeerror'
F_TWOPER = 'C12-c0-merge-two-element-periodic'
F_NESTED = 'C12-nested-mask-sentinel-out-of-range'


def plan(tier, seed):
    import os
    n = max(CHUNK, int(NCASES[tier] * float(os.environ.get('VERIF_SCALE', '1') or 1)))  # VERIF_SCALE: tools/planted.py
    return [dict(start=i, stop=min(n, i + CHUNK)) for i in range(0, n, CHUNK)]


# ---------------------------------------------------------------- case generation

def gen_case(seed, index, tier):
    rng = rng_for(seed, 'c12', index)
    spec = ct.gen_spec(rng, tier)
    case = dict(index=index, topo=spec)
    try:
        T = build_topology(spec)
    except Exception as e:
        case['build_error'] = f'{type(e).__name__}: {e}'[:300]
        return case, None
    case['basis'] = cg.gen_basis(rng, T, tier)
    derived = []
    if not T.factors and case['basis']['btype'] != 'patch':
        r = rng.random()
        if r < .14:
            derived.append(dict(type='mask', seed=int(rng.integers(0, 2**31))))
        elif r < .24:
            derived.append(dict(type='partition', seed=int(rng.integers(0, 2**31))))
        elif r < .32:
            derived.append(dict(type='vector', n=int(rng.integers(1, 4))))
    case['derived'] = derived
    if T.trimmed:
        scheme = ['gauss', int(rng.integers(1, 4))]
    else:
        scheme = ['gauss', int(rng.integers(1, 5))] if rng.random() < .7 else ['bezier', int(rng.integers(2, 4))]
    case['sample'] = scheme
    case['aux_seed'] = int(rng.integers(0, 2**31))
    case['pum_via_function'] = bool(rng.random() < .2)
    return case, T


def build_topology(spec):
    with warnings.catch_warnings():
        warnings.simplefilter('ignore')
        return ct.build(spec)


# ---------------------------------------------------------------- what the type promises

def promises(T, bspec, models_ok):
    """-> dict(pum: bool, cont: 'none'|'c0'|'spline'|'mp', closed: bool)"""
    bt = bspec['btype']
    kw = bspec['kwargs']
    core = bt.split('-')[-1]
    prefix = bt[:-len(core)]
    pum = True
    if core == 'legendre' or prefix == 'h-':
        pum = False
    if kw.get('removedofs') is not None:
        pum = False
    if T.trimmed:
        pum = False  # PrunedBasis: subset of another basis, no promise (observed and counted instead)
    if core in ('discont', 'legendre', 'patch'):
        cont = 'none'
    elif T.mp is not None:
        cont = 'mp'
    elif T.struct is not None and core in ('spline', 'std'):
        cont = 'spline'
    else:
        cont = 'c0'
    if not models_ok and cont in ('spline', 'mp'):
        cont = 'skip'
    return dict(pum=pum, cont=cont)


def single_selection_with_duplicates(T, core, nkw):
    """structural predicate of finding C12-single-element-selection-not-unique reaching a constructor: a hierarchical
    level (or a trimmed topology) selects exactly ONE element of its parent basis and that element lists a dof twice
    (periodic wrap-around), so that get_dofs([i]) hands duplicates to code that assumes uniqueness"""
    try:
        topo = T.topo
        kw = {k: v for k, v in nkw.items() if k != 'truncation_tolerance'}
        if type(topo).__name__ == 'HierarchicalTopology':
            for level, indices in zip(topo.levels, topo._indices_per_level):
                if len(indices) == 1:
                    d = numpy.asarray(level.basis(core, **kw).get_dofs(int(indices[0])))
                    if len(numpy.unique(d)) != len(d):
                        return True
        if type(topo).__name__ == 'SubsetTopology' and len(topo) == 1:
            d = numpy.asarray(topo.basetopo.basis(core, **kw).get_dofs(int(topo._indices[0])))
            if len(numpy.unique(d)) != len(d):
                return True
    except Exception:
        pass
    return False


def short_knot_vector(models):
    """structural predicate of finding C12-periodic-spline-knot-vector-too-short: a periodic direction whose
    repeated knot vector stays shorter than the 2*degree local knots the last element needs"""
    for S in models:
        if not S.periodic:
            continue
        m = [int(v) for v in S.M]
        n, p = S.n, S.p
        while sum(m[n:]) < p - m[0] + 2:
            m = m + m
        if sum(m[n:]) < p:
            return True
    return False


# ---------------------------------------------------------------- execution of one case

def execute(case, res, T=None, prebuilt=None):
    res.count('evaluations')
    spec = case['topo']
    if T is None and 'build_error' not in case:
        try:
            T = build_topology(spec)
        except Exception as e:
            case = dict(case, build_error=f'{type(e).__name__}: {e}'[:300])
    if 'build_error' in case:
        # building topologies is not this property's subject (C10); counted, never a verdict
        name = case['build_error'].split(':')[0]
        res.count('topology_not_built/' + name)
        if name not in ('EmptyTopology', 'KeyError'):
            res.add('topology_build_errors', case['build_error'][:160])
        return
    with warnings.catch_warnings():
        warnings.simplefilter('ignore')
        try:
            _execute(case, res, T, prebuilt)
        except Exception:
            res.violation('exception while observing a constructed basis', case, traceback.format_exc()[-1800:])


def degree_label(kw):
    d = kw.get('degree')
    if d is None:
        return 'n/a'
    return str(d) if isinstance(d, int) else 'x'.join(map(str, d))


def _execute(case, res, T, prebuilt=None):
    from nutils import function
    bspec = case['basis']
    bt, kw = bspec['btype'], bspec['kwargs']
    core = bt.split('-')[-1]
    label = f'{bt} on {T.kind} degree {degree_label(kw)}'
    mon = cm.Mon(res, case, label)
    if T.struct is not None and core in ('lagrange', 'bernstein') and (
            any(T.struct['shape'][d] == 2 for d in T.struct['periodic']) or sum(T.struct['shape'][d] == 1 for d in T.struct['periodic']) >= 2):
        # structural predicate of finding F_TWOPER (mechanism: _basis_c0_structured identifies the opposite edge with
        # util.index(connectivity[jelem], ielem), the FIRST match): connectivity-based dof merging where a pair of elements
        # shares more than one edge -- a periodic direction of exactly two elements (neighbours twice), or one element that
        # is its own neighbour in two or more periodic directions
        mon.mechanism = F_TWOPER

    # ---- documented-interface model of the parameters (where one exists)
    models = None       # base-level per-dim spline models
    model_refused = None
    mpmodels = None
    if T.struct is not None and core in ('spline', 'std') and not T.factors:
        try:
            models = cg.spline_model(kw, T.struct['shape'], T.struct['periodic'], std=(core == 'std'))
            keep = cg.removed_mask(kw, models)
        except Refused as e:
            model_refused = str(e)
            models = None
    elif T.mp is not None and core in ('spline', 'std'):
        try:
            mpmodels = cg.mp_models(kw, T.mp, std=(core == 'std'))
        except Refused as e:
            model_refused = str(e)
        except NotImplementedError:
            mpmodels = None

    # ---- construct
    nkw = cg.mp_kwargs_to_nutils(kw) if T.mp is not None else dict(kw)
    try:
        # prebuilt: the aliasing family hands in a basis it built itself from caller-owned ndarrays with these values
        B = prebuilt if prebuilt is not None else T.topo.basis(bt, **nkw)
    except Exception as e:
        # A crash while constructing is not a refuting event of this property (it speaks of the bases a topology CAN
        # construct): refusals and construction failures are counted and described in the evidence, never violations.
        ename = type(e).__name__
        msg = f'{ename}: {str(e)[:100]}'
        if model_refused is not None or bspec.get('expect_refusal'):
            res.count('refusals/expected')
            res.count('refusals/by_type/' + ename)
        elif models is not None or mpmodels is not None:
            res.count('construction_failed/inside_documented_domain')
            res.count('construction_failed/by_type/' + ename)
            where = traceback.extract_tb(e.__traceback__)[-1]
            res.add('construction_failed', f'{bt} on {T.kind} {json.dumps(kw)[:160]}: {msg} at {where.name}:{where.lineno}' + (' [periodic knot vector shorter than 2*degree]' if models is not None and short_knot_vector(models) else ''))
        elif isinstance(e, REFUSAL_TYPES):
            res.count('refusals/unmodelled')
            res.count('refusals/by_type/' + ename)
            res.add('refusal_messages', f'{bt} on {T.kind}: {msg}')
        else:
            res.count('construction_failed/other')
            res.count('construction_failed/by_type/' + ename)
            where = traceback.extract_tb(e.__traceback__)[-1]
            res.add('construction_failed', f'{bt} on {T.kind} {json.dumps(kw)[:160]}: {msg} at {where.name}:{where.lineno}')
        return
    if model_refused is not None:
        res.count('accepted_outside_model')
        res.add('accepted_outside_model', f'{bt}: {model_refused}')
    if bspec.get('expect_refusal'):
        res.count('accepted_although_refusal_expected')
    models_ok = (models is not None) or (mpmodels is not None)
    prom = promises(T, bspec, models_ok)
    res.count(f'bases/{bt}|{T.kind}|deg{degree_label(kw)}')
    res.count('bases_total')
    res.add('btypes', bt)
    res.add('topology_kinds', T.kind)
    res.add('basis_classes', type(B).__name__)

    scheme, sdeg = case['sample']
    if T.factors:
        return execute_product(case, res, mon, T, B, prom)
    try:
        S = T.topo.sample(scheme, sdeg)
    except Exception as e:
        # building a sample is not this property's subject (C09): counted, no verdict
        res.count('sample_not_built/' + type(e).__name__)
        return
    V = S.eval(B)
    nelems = len(T.topo)

    if bt == 'patch':
        return execute_patch(case, res, mon, T, B, S, V)
    if not isinstance(B, function.Basis):
        mon.viol('basis type', f'Topology.basis returned {type(B).__name__}, not a function.Basis')
        return

    # ---- (1) (2)
    allow_dup = False
    if T.struct is not None and any(T.struct['shape'][d] == 1 for d in T.struct['periodic']):
        allow_dup = True  # an element that is its own periodic neighbour shares dofs with itself
    if models is not None:
        allow_dup = any(S_.periodic and S_.nd < S_.p + 1 for S_ in models)
        if T.hier or T.trimmed:
            allow_dup = any(S_.periodic for S_ in models)
    if mon.mechanism is None and single_selection_with_duplicates(T, core, nkw):
        mon.mechanism = F_SINGLE  # the constructor consumed a non-unique single-element selection: everything downstream is tainted
    elem_dofs = cm.check_tables(mon, B, S, V, nelems, allow_dup, aux_seed=case['aux_seed'])
    if elem_dofs is None:
        return
    nontrivial = len(B) > 0 and nelems > 0
    if nontrivial:
        res.add('distinct', hashlib.sha1(json.dumps([case['topo'], bspec, case['derived']], sort_keys=True, default=str).encode()).hexdigest())

    # ---- (3)
    if prom['pum'] and (models_ok or core not in ('spline', 'std') or T.struct is None and T.mp is None):
        res.count(f'pum_by_type/{bt}')
        cm.check_pum(mon, V)
        if case.get('pum_via_function'):
            s = S.eval(B.sum(0))
            res.count('pum_via_function_checks')
            mon.cmp('partition of unity', s, numpy.ones_like(s), 'sample.eval(basis.sum(0))')
    elif T.trimmed and kw.get('removedofs') is None and core != 'legendre' and not bt.startswith('h-'):
        ok = bool(abs(V.sum(1) - 1).max() <= 1e-9)
        res.count('pum_observed_not_promised/' + ('holds' if ok else 'fails'))

    # ---- (5) closed forms
    expected = closed_form(T, bspec, models, mpmodels, keep if models is not None else None)
    if expected is not None:
        res.count('closed_form_checks')
        res.count(f'closed_form_by_type/{core}')
        if len(B) != expected:
            mon.viol('dimension count', f'len(basis)={len(B)} but the closed form gives {expected}')

    # ---- spline values against Cox-de Boor (structured, not hierarchical / trimmed)
    if models is not None and not T.hier and not T.trimmed:
        E = cm.spline_reference_values(S, T.struct['shape'], models, keep)
        res.count('bspline_reference_checks')
        if E.shape == V.shape:
            mon.cmp('spline values vs Cox-de Boor', V, E, 'all sample points', scale=1.)
        else:
            mon.viol('spline values vs Cox-de Boor', f'shape {V.shape} vs reference {E.shape}')

    # ---- (4) continuity
    rule = cont_rule(T, bspec, prom, models, mpmodels)
    if rule is not None:
        maxorder = 3 if T.nd < 3 else 2
        if 'boundary' in T.kind:
            maxorder = 0  # manifold: no square jacobian for function.grad
        cm.check_continuity(mon, T, B, rule, maxorder)
    else:
        res.count('continuity/skipped_no_model')

    # ---- trimmed: pruned basis equals the parent columns
    if T.trimmed and getattr(T, 'is_subset', False) and not T.hier:
        check_pruned(case, res, mon, T, B, S, V, bt, nkw)

    # ---- truncated hierarchical spans the classical hierarchical space
    if bt.startswith('th-') and T.hier:
        hkw = {k: v for k, v in nkw.items() if k != 'truncation_tolerance'}
        try:
            H = T.topo.basis('h-' + core, **hkw)
        except Exception as e:
            res.count('construction_failed/h_basis_for_span_check')
            H = None
        if H is None:
            pass
        elif len(H) != len(B):
            res.count('th_span_checks')
            mon.viol('th/h dimension', f'len(th-basis)={len(B)} != len(h-basis)={len(H)}')
        else:
            res.count('th_span_checks')
            VH = S.eval(H)
            coef, *_ = numpy.linalg.lstsq(VH, V, rcond=None)
            r = VH @ coef - V
            v, det = tolerance.compare(r, numpy.zeros_like(r), scale=max(1., float(abs(coef).max())), rtol_pass=1e-8, rtol_viol=1e-4, check_kind=False)
            if v == tolerance.VIOLATION:
                mon.viol('th-basis not in span of h-basis', det)
            elif v == tolerance.MARGINAL:
                res.count('float_marginal')

    # ---- derived bases
    for d in case['derived']:
        if mon.failed:
            break
        execute_derived(d, case, res, mon, T, B, S, V, elem_dofs, prom, rule)
    if nontrivial:
        res.count('nontrivial')


def cont_rule(T, bspec, prom, models, mpmodels):
    kw = bspec['kwargs']
    c = prom['cont']
    if c == 'skip':
        return None
    if c == 'none':
        return cm.ContRule('none')
    if c == 'c0':
        return cm.ContRule('c0')
    if c == 'spline':
        core = bspec['btype'].split('-')[-1]
        shape0 = T.struct['shape']
        L = T.nlevels - 1 if T.hier else 0
        shapef = [n * 2**L for n in shape0]
        # finer levels see the same knot values, refined by midpoints (default knot values are uniform on every level)
        kwf = dict(kw, knotvalues=[[float(v) for v in S.K] for S in models])
        modelsf = cg.spline_model(kwf, shapef, T.struct['periodic'], std=(core == 'std')) if L else models
        return cm.ContRule('spline', shape0=shape0, models0=models, modelsf=modelsf)
    if c == 'mp':
        return cm.ContRule('mp', mp=dict(models=mpmodels, shapes=T.mp['shapes'], patchcontinuous=kw.get('patchcontinuous', True)))
    return None


def closed_form(T, bspec, models, mpmodels, keep):
    bt, kw = bspec['btype'], bspec['kwargs']
    core = bt.split('-')[-1]
    p = kw.get('degree')
    if T.hier and core != 'discont':
        return None
    if T.trimmed:
        return None
    if core == 'discont':
        return cm.discont_count(T.topo, p)
    if core == 'legendre':
        return len(T.topo) * (p + 1)
    if core == 'bubble' and T.simplices is not None:
        return len(set(int(v) for v in T.simplices.flat)) + len(T.simplices)
    if models is not None:
        return int(numpy.prod([S.nd for S in models])) if keep is None else int(keep.sum())
    if mpmodels is not None:
        return cm.mp_count(T.mp, mpmodels, kw.get('patchcontinuous', True))
    if T.simplices is not None and core in ('std', 'lagrange', 'bernstein', 'spline') and isinstance(p, int) and p >= 1:
        return ct.simplex_c0_ndofs(T.simplices, p)
    if T.struct is not None and core in ('lagrange', 'bernstein') and isinstance(p, int) and p >= 1:
        per = T.struct['periodic']
        return int(numpy.prod([n * p + (0 if d in per else 1) for d, n in enumerate(T.struct['shape'])]))
    return None


# ---------------------------------------------------------------- special shapes

def execute_patch(case, res, mon, T, B, S, V):
    shapes = T.mp['shapes']
    npatch = len(shapes)
    if len(B) != npatch or B.nelems != npatch:
        mon.viol('patch basis size', f'len={len(B)} nelems={B.nelems} for {npatch} patches')
        return
    offsets = numpy.cumsum([0] + [int(numpy.prod(s)) for s in shapes])
    for e in range(len(T.topo)):
        q = int(numpy.searchsorted(offsets, e, side='right') - 1)
        idx = S.getindex(e)
        E = numpy.zeros((len(idx), npatch))
        E[:, q] = 1
        res.count('elements_checked')
        if not (V[idx] == E).all():
            mon.viol('patch basis values', f'element {e} of patch {q}: values {V[idx][0].tolist()}')
            return
    for q in range(npatch):
        if numpy.asarray(B.get_dofs(q)).tolist() != [q] or numpy.asarray(B.get_support(q)).tolist() != [q] or B.get_ndofs(q) != 1:
            mon.viol('patch basis tables', f'patch {q}: get_dofs={B.get_dofs(q)} get_support={B.get_support(q)}')
    cm.check_pum(mon, V)
    res.count('pum_by_type/patch')
    res.count('nontrivial')
    res.add('distinct', hashlib.sha1(json.dumps([case['topo'], case['basis']], sort_keys=True).encode()).hexdigest())


def execute_product(case, res, mon, T, B, prom):
    """tensor-product topology: the basis must be the outer product of the factor bases"""
    bspec = case['basis']
    bt, kw = bspec['btype'], bspec['kwargs']
    f1, f2 = T.factors
    # split the arguments the documented way: int -> both, sequence -> per dimension
    kws = [{}, {}]
    for name, val in kw.items():
        if isinstance(val, list):
            kws[0][name] = val[:f1.nd]
            kws[1][name] = val[f1.nd:]
        else:
            kws[0][name] = kws[1][name] = val
    scheme, sdeg = case['sample']
    S1, S2 = f1.topo.sample(scheme, sdeg), f2.topo.sample(scheme, sdeg)
    B1, B2 = f1.topo.basis(bt, **kws[0]), f2.topo.basis(bt, **kws[1])
    V1, V2 = S1.eval(B1), S2.eval(B2)
    for f, Bf, Sf, Vf in (f1, B1, S1, V1), (f2, B2, S2, V2):
        cm.check_tables(mon, Bf, Sf, Vf, len(f.topo), allow_duplicates=True, aux_seed=case['aux_seed'])
    V = (S1 * S2).eval(B)
    E = numpy.einsum('ij,kl->ikjl', V1, V2).reshape(V1.shape[0] * V2.shape[0], V1.shape[1] * V2.shape[1])
    res.count('product_checks')
    if V.shape != E.shape:
        mon.viol('product basis shape', f'{V.shape} vs outer product of factors {E.shape}')
        return
    mon.cmp('product basis equals outer product of factor bases', V, E, 'all points')
    if prom['pum']:
        cm.check_pum(mon, V, 'product basis')
        res.count(f'pum_by_type/{bt}')
    res.count('nontrivial')
    res.add('distinct', hashlib.sha1(json.dumps([case['topo'], bspec], sort_keys=True).encode()).hexdigest())


def check_pruned(case, res, mon, T, B, S, V, bt, nkw):
    base = T.hbase.topo
    try:
        P = base.basis(bt, **nkw)
    except Exception:
        res.count('construction_failed/parent_basis_for_pruned_check')
        return
    VP = S.eval(P)
    indices = numpy.asarray(T.topo._indices) if hasattr(T.topo, '_indices') else None
    if indices is None:
        return
    keepdofs = numpy.unique(numpy.concatenate([numpy.asarray(P.get_dofs(int(i))) for i in indices])) if len(indices) else numpy.array([], dtype=int)
    res.count('pruned_checks')
    if len(B) != len(keepdofs):
        mon.viol('pruned basis size', f'len={len(B)} but {len(keepdofs)} parent functions touch the kept elements')
        return
    if len(indices) == 1:
        raw = numpy.asarray(P.get_dofs(int(indices[0])))
        if raw.tolist() != keepdofs.tolist():
            # structural predicate of F_SINGLE: the trimmed topology keeps exactly one element whose dof list is not strictly increasing
            sub = cm.Mon(res, case, mon.label)
            sub.mechanism = F_SINGLE
            sub.cmp('pruned basis equals parent columns', V, VP[:, keepdofs], 'all points of the trimmed sample (single kept element)')
            return
    mon.cmp('pruned basis equals parent columns', V, VP[:, keepdofs], 'all points of the trimmed sample')
    rest = numpy.ones(len(P), dtype=bool)
    rest[keepdofs] = False
    if not (VP[:, rest] == 0).all():
        mon.viol('pruned basis dropped a supported function', 'a parent function outside the kept set is nonzero on the trimmed topology')


def execute_derived(d, case, res, mon, T, B, S, V, elem_dofs, prom, rule):
    from nutils import function
    rng = numpy.random.default_rng(d.get('seed', 0))
    n = len(B)
    if d['type'] == 'mask':
        mode = str(rng.choice(['bool', 'int', 'slice']))
        if mode == 'bool':
            mask = rng.random(n) < rng.choice([.2, .5, .8])
            idx = numpy.nonzero(mask)[0]
            key = mask
        elif mode == 'int':
            k = int(rng.integers(0, n + 1))
            idx = numpy.sort(rng.choice(n, size=k, replace=False)) if n else numpy.array([], dtype=int)
            key = idx
        else:
            a, b = sorted(int(v) for v in rng.integers(0, n + 1, size=2))
            step = int(rng.integers(1, 4))
            key = slice(a, b, step)
            idx = numpy.arange(n)[key]
        res.count('derived/mask/' + mode)
        try:
            M = B[key]
        except Exception as e:
            res.count('construction_failed/derived_mask')
            res.add('construction_failed', f'basis[{mode}] on {mon.label}: {type(e).__name__}: {str(e)[:80]}')
            return
        if not isinstance(M, function.Basis):
            mon.viol('masked basis type', f'basis[{mode}] returned {type(M).__name__}')
            return
        sub = cm.Mon(res, case, mon.label + f' [mask {mode} keeping {len(idx)}/{n}]')
        VM = S.eval(M)
        if VM.shape != (S.npoints, len(idx)):
            sub.viol('masked basis size', f'shape {VM.shape}, expected {len(idx)} functions')
            return
        sub.cmp('masked basis equals parent columns', VM, V[:, idx], 'all points')
        cm.check_tables(sub, M, S, VM, len(T.topo), allow_duplicates=True, aux_seed=case['aux_seed'] + 1)
        if len(idx) and not sub.failed and rng.random() < .3:
            # mask of a mask
            idx2 = numpy.nonzero(rng.random(len(idx)) < .5)[0]
            MM = M[idx2]
            res.count('derived/mask/nested')
            try:
                VMM = S.eval(MM)
                [MM.get_dofs(i) for i in range(MM.nelems)]
            except (AssertionError, IndexError) as e:
                # structural predicate of F_NESTED: mask of a masked basis whose elements all carry exactly one parent dof
                one_each = all(len(dd) == 1 for dd in elem_dofs)
                sub.viol('masked basis cannot be evaluated', f'basis[mask][mask2] exists but evaluating it / get_dofs raised {type(e).__name__}: ' + traceback.format_exc()[-300:],
                         mechanism=F_NESTED if one_each else None)
            else:
                sub.cmp('masked basis equals parent columns', VMM, V[:, idx[idx2]], 'mask of mask')
                cm.check_tables(sub, MM, S, VMM, len(T.topo), allow_duplicates=True, aux_seed=case['aux_seed'] + 2)
        mon.failed |= sub.failed
    elif d['type'] == 'partition':
        nparts = int(rng.integers(1, 4))
        parts = [int(v) for v in rng.integers(0, nparts, size=len(T.topo))]
        res.count('derived/partition')
        sub = cm.Mon(res, case, mon.label + f' [partition {parts}]')
        try:
            P = B.discontinuous_at_partition_interfaces(parts)
        except Exception as e:
            # construction failure: counted, no verdict (see above)
            res.count('construction_failed/derived_partition')
            res.count('construction_failed/by_type/' + type(e).__name__)
            where = traceback.extract_tb(e.__traceback__)[-1]
            res.add('construction_failed', f'{type(B).__name__}.discontinuous_at_partition_interfaces on {mon.label}: {type(e).__name__} at {where.name}:{where.lineno}')
            return
        pairs = sorted(set((parts[e], int(j)) for e, dofs in enumerate(elem_dofs) for j in dofs))
        number = {pr: k for k, pr in enumerate(pairs)}
        if len(P) != len(pairs):
            sub.viol('partitioned basis size', f'len={len(P)} but there are {len(pairs)} nonzero clipped functions')
            mon.failed = True
            return
        VP = S.eval(P)
        E = numpy.zeros_like(VP)
        for e, dofs in enumerate(elem_dofs):
            idx = S.getindex(e)
            for j in numpy.unique(dofs):
                E[idx, number[(parts[e], int(j))]] = V[idx, j]
        sub.cmp('partitioned basis equals clipped parent functions', VP, E, 'all points')
        cm.check_tables(sub, P, S, VP, len(T.topo), allow_duplicates=True, aux_seed=case['aux_seed'] + 3)
        if rule is not None and rule.kind != 'none' and not sub.failed:
            prule = cm.ContRule(rule.kind, **{k: v for k, v in rule.__dict__.items() if k != 'kind'})
            prule.parts = parts
            cm.check_continuity(sub, T, P, prule, 0 if 'boundary' in T.kind else 1)
        mon.failed |= sub.failed
    elif d['type'] == 'vector':
        nv = d['n']
        res.count('derived/vector')
        W = S.eval(B.vector(nv))
        sub = cm.Mon(res, case, mon.label + f' [vector({nv})]')
        if W.shape != (S.npoints, n * nv, nv):
            sub.viol('vector basis shape', f'{W.shape} != {(S.npoints, n * nv, nv)}')
            return
        E = numpy.zeros((S.npoints, n, nv, nv))
        for c in range(nv):
            E[:, :, c, c] = V
        E = E.reshape(S.npoints, n * nv, nv)
        # order-agnostic first (the promise is the set {phi_j e_c}), documented order second
        rows_w = sorted(W.transpose(1, 0, 2).reshape(n * nv, S.npoints * nv).tolist())      # (explicit sizes: n may be 0 after removedofs)
        rows_e = sorted(E.transpose(1, 0, 2).reshape(n * nv, S.npoints * nv).tolist())
        if rows_w != rows_e:
            sub.cmp('vector basis equals {phi_j e_c}', W, E, 'all points')
        mon.failed |= sub.failed


# ---------------------------------------------------------------- util.merge_index_map: documented contract vs union-find

def check_merge_index_map(res, seed, index):
    from nutils import _util as util
    rng = rng_for(seed, 'c12-merge', index)
    nin = int(rng.integers(1, 40))
    nsets = int(rng.integers(0, 30))
    merge_sets = []
    for _ in range(nsets):
        k = int(rng.choice([1, 2, 2, 2, 3, 4]))
        merge_sets.append([int(v) for v in rng.integers(0, nin, size=k)])
    condense = bool(rng.random() < .7)
    case = dict(kind='merge_index_map', nin=nin, merge_sets=merge_sets, condense=condense)
    return _run_merge_case(res, case)


def _run_merge_case(res, case):
    from nutils import _util as util
    nin, merge_sets, condense = case['nin'], case['merge_sets'], case['condense']
    res.count('merge_index_map_checks')
    try:
        index_map, nout = util.merge_index_map(nin, [list(s) for s in merge_sets], condense=condense)
    except Exception as e:
        res.count('construction_failed/merge_index_map')
        res.add('construction_failed', f'merge_index_map: {type(e).__name__}: {str(e)[:80]}')
        return
    # reference: union-find
    parent = list(range(nin))

    def find(a):
        while parent[a] != a:
            a = parent[a]
        return a
    for s_ in merge_sets:
        r = min(find(a) for a in s_)
        for a in s_:
            parent[find(a)] = r
    roots = [find(a) for a in range(nin)]
    index_map = numpy.asarray(index_map)
    problems = []
    if index_map.shape != (nin,):
        problems.append(f'index_map has shape {index_map.shape}')
    else:
        groups = {}
        for a in range(nin):
            groups.setdefault(int(index_map[a]), set()).add(roots[a])
        if any(len(g) > 1 for g in groups.values()):
            problems.append('elements of different merged classes share an output index')
        back = {}
        for a in range(nin):
            back.setdefault(roots[a], set()).add(int(index_map[a]))
        if any(len(g) > 1 for g in back.values()):
            problems.append('elements that must be merged (transitively) received different output indices')
        if nout != len(set(roots)):
            problems.append(f'nout={nout} but there are {len(set(roots))} merged classes')
        if condense:
            first = []
            for v in index_map.tolist():
                if v not in first:
                    first.append(v)
            if first != list(range(len(first))):
                problems.append(f'condensed map: first occurrences are {first[:8]}..., not range(nout)')
        else:
            if sum(1 for a in range(nin) if index_map[a] == a) != len(set(roots)):
                problems.append('uncondensed map: not exactly one self-mapped index per class')
    for p in problems:
        res.count('violations_seen/untagged')
        if res.counters['violations_seen/untagged'] <= 40:
            res.violation('merge_index_map contract', case, f'{p}; index_map={index_map.tolist()}')


# ---------------------------------------------------------------- history / aliasing of ndarray keyword arguments

def _alias_viol(res, scn, monitor, detail):
    res.count('violations_seen/untagged')
    if res.counters['violations_seen/untagged'] <= 40:
        res.violation(monitor, scn, detail)


def run_alias_scenario(scn, res, index):
    scn = dict(scn, index=index)
    res.count('alias/scenarios')
    with warnings.catch_warnings():
        warnings.simplefilter('ignore')
        try:
            _run_alias_scenario(scn, res, index)
        except Exception:
            _alias_viol(res, scn, 'exception while observing a constructed basis', traceback.format_exc()[-1500:])


def _run_alias_scenario(scn, res, index):
    Ts = []
    for spec in scn['topos']:
        try:
            Ts.append(build_topology(spec))
        except Exception as e:
            res.count('alias/topology_not_built')
            Ts.append(None)
    live = ca.make_arrays(scn['arrays'])
    original = {name: list(a['values']) for name, a in scn['arrays'].items()}
    seen_before = set()
    built = []
    for icall, call in enumerate(scn['calls']):
        T = Ts[call['topo']]
        if T is None:
            continue
        bt, kw = call['btype'], call['kwargs']
        names = ca.refs_of(kw)
        res.count('alias/calls')
        if any(n_ in seen_before for n_ in names):
            res.count('alias/calls_reusing_an_earlier_array')
        order = ca.shared_axes(kw, scn['topos'][call['topo']])
        if order:
            res.count('alias/calls_sharing_one_array_between_periodic_and_nonperiodic_axis')
            res.count('alias/shared_' + order)
        if any(scn['arrays'][n_].get('readonly') for n_ in names):
            res.count('alias/calls_with_readonly_array')
        if len(set(names)) < len(names):
            res.count('alias/calls_sharing_one_array_between_axes')
        seen_before.update(names)
        label = f"call {icall}: {bt} on {T.kind} with {json.dumps(kw)}"
        # (a) caller-owned arrays must survive the call bit-identically
        before = ca.snapshot(live)
        err = B = None
        modified = False
        try:
            B = T.topo.basis(bt, **ca.materialise(kw, live.__getitem__))
        except Exception as e:
            err = e
        after = ca.snapshot(live)
        res.count('alias/snapshots_compared', len(before))
        for name in before:
            if before[name] != after[name]:
                now = live[name].tolist()
                _alias_viol(res, scn, 'caller-owned array modified by basis()', f'{label}: array {name} was {numpy.frombuffer(before[name][0], dtype=before[name][2]).tolist()} '
                            f'(writeable={before[name][3]}) before the call and is {now} (writeable={after[name][3]}) after it')
                modified = True
        # (b) same call with fresh deep copies of the ORIGINAL values
        ferr = F = None
        try:
            F = T.topo.basis(bt, **ca.materialise(kw, lambda n_: numpy.array(original[n_], dtype=int if scn['arrays'][n_]['dtype'] == 'int' else float)))
        except Exception as e:
            ferr = e
        if err is not None and ferr is not None:
            res.count('alias/refused_with_shared_and_with_fresh_arrays')
            res.add('alias_refusals', f'{bt} {sorted(kw)}: {type(err).__name__}: {str(err)[:60]}')
            continue
        if (err is None) != (ferr is None):
            bad, which = (err, 'the shared / reused / read-only arrays') if err is not None else (ferr, 'fresh writable copies')
            _alias_viol(res, scn, 'construction depends on identity, history or writability of ndarray arguments',
                        f'{label}: raised {type(bad).__name__}: {str(bad)[:150]} with {which} but succeeded with the other; arrays now: ' + json.dumps({k: v.tolist() for k, v in live.items()}))
            return
        res.count('alias/shared_vs_fresh_compared')
        S = T.topo.sample('gauss', 2)
        if len(B) != len(F):
            _alias_viol(res, scn, 'basis from shared arrays differs from basis from fresh copies', f'{label}: len {len(B)} (shared / reused arrays) vs {len(F)} (fresh copies of the original values)')
            return
        VB, VF = S.eval(B), S.eval(F)
        v, det = tolerance.compare(VB, VF, check_kind=False)
        if v == tolerance.VIOLATION:
            _alias_viol(res, scn, 'basis from shared arrays differs from basis from fresh copies', f'{label}: values on a sample differ: {det}')
            return
        for i in range(B.nelems):
            if numpy.asarray(B.get_dofs(i)).tolist() != numpy.asarray(F.get_dofs(i)).tolist():
                _alias_viol(res, scn, 'basis from shared arrays differs from basis from fresh copies', f'{label}: get_dofs({i}) differs')
                return
        built.append((icall, T, B, S, VB))
        # (c) the ordinary monitor suite, with the model of the ORIGINAL values, applied to the basis built from the shared arrays
        if 'R' in names:
            res.count('alias/model_suite_skipped_removedofs_array')
            continue
        jkw = ca.materialise(kw, lambda n_: list(original[n_]))
        if isinstance(jkw.get('degree'), list) and len(set(jkw['degree'])) == 1:
            pass
        case = dict(index=index, topo=scn['topos'][call['topo']], basis=dict(btype=bt, kwargs=jkw), derived=[], sample=['gauss', 2],
                    aux_seed=index + icall, pum_via_function=False, alias_call=icall, alias_scenario={k: v for k, v in scn.items()})
        nv = len(res.violations)
        execute(case, res, T, prebuilt=B)
        res.count('alias/model_suite_runs')
        if len(res.violations) > nv or modified:
            return
    # (d) a basis must not change when the caller later overwrites the arrays it was built from
    if scn.get('scribble') and built:
        for name, arr in live.items():
            arr.setflags(write=True)
            if arr.dtype.kind == 'i':
                arr[...] = arr[::-1] + 1 if len(arr) > 1 else arr + 1
            else:
                arr[...] = arr * 3. + 1.
        for icall, T, B, S, VB in built:
            res.count('alias/re_evaluations_after_overwriting_caller_arrays')
            V2 = T.topo.sample('gauss', 2).eval(B)
            if V2.shape != VB.shape or tolerance.compare(V2, VB, check_kind=False)[0] == tolerance.VIOLATION:
                _alias_viol(res, scn, 'basis changed when the caller overwrote its own arrays', f'call {icall}: values of the existing basis object changed after the caller modified the arrays it had passed')
                return


# ---------------------------------------------------------------- runner protocol

def run_units(units, ctx):
    import treelog
    res = Result()
    with treelog.set(treelog.NullLog()):
        for u in units:
            for i in range(u['start'], u['stop']):
                if ctx.expired():
                    res.count('cases_skipped_deadline')
                    continue
                if i % 4 == 0:
                    check_merge_index_map(res, ctx.seed, i)
                if i % 8 == 3:
                    run_alias_scenario(ca.gen_scenario(rng_for(ctx.seed, 'c12-alias', i)), res, i)
                case, T = gen_case(ctx.seed, i, ctx.tier)
                execute(case, res, T)
                if i % 499 == 0 and 'basis' in case:
                    res.sample(dict(topo=case['topo'], basis=case['basis'], derived=case['derived']))
    return res


def replay(case):
    import treelog
    res = Result()
    with treelog.set(treelog.NullLog()):
        if case.get('kind') == 'merge_index_map':
            _run_merge_case(res, case)
        elif case.get('kind') == 'alias':
            run_alias_scenario(case, res, case.get('index', 0))
        elif 'alias_scenario' in case:
            run_alias_scenario(case['alias_scenario'], res, case.get('index', 0))
        else:
            execute(case, res)
    return res.violations


# ---- ledger reproducers

def repro_single_selection():
    from nutils import mesh
    topo, geom = mesh.rectilinear([2, 1], periodic=[0])
    b = topo.basis('spline', degree=2)
    got = numpy.asarray(b.get_dofs(numpy.array([0]))).tolist()
    h = topo.refined_by([1]).basis('h-spline', degree=2)
    used = set(int(j) for i in range(h.nelems) for j in h.get_dofs(i))
    phantom = sorted(set(range(len(h))) - used)
    fails = got != sorted(set(got)) or bool(phantom)
    return fails, f"rectilinear([2,1],periodic=[0]): basis('spline',degree=2).get_dofs(array([0]))={got}; refined_by([1]).basis('h-spline',degree=2) has {len(h)} dofs of which {phantom} appear in no element"


def repro_unstructured_spline():
    from nutils import mesh
    topo, geom = mesh.unitsquare(2, 'triangle')
    try:
        b = topo.basis('spline', degree=1)
    except TypeError as e:
        return True, f"unitsquare(2,'triangle').basis('spline', degree=1) raised TypeError: {e}"
    return False, f"unitsquare(2,'triangle').basis('spline', degree=1) built {len(b)} functions"


def repro_two_element_periodic():
    from nutils import mesh, function
    topo, geom = mesh.rectilinear([2], periodic=[0])
    b = topo.basis('lagrange', degree=1)
    dofs = [numpy.asarray(b.get_dofs(i)).tolist() for i in range(2)]
    jump = float(abs(topo.interfaces.sample('gauss', 1).eval(function.jump(b))).max())
    return jump > 1e-9, f"rectilinear([2],periodic=[0]).basis('lagrange',degree=1): get_dofs={dofs}, max jump across interfaces {jump:.3g}"


def repro_nested_mask():
    from nutils import mesh
    topo = mesh.rectilinear([3])[0].refined_by([1])
    b = topo.basis('h-spline', degree=0)[numpy.array([0, 2])][numpy.array([0])]
    out = []
    for i in range(len(topo)):
        try:
            out.append(numpy.asarray(b.get_dofs(i)).tolist())
        except (AssertionError, IndexError) as e:
            out.append(type(e).__name__)
    fails = any(isinstance(o, str) for o in out)
    return fails, f"rectilinear([3]).refined_by([1]).basis('h-spline',degree=0)[[0,2]][[0]]: get_dofs per element = {out}"


REPRODUCERS = {F_NESTED: repro_nested_mask, F_SINGLE: repro_single_selection, F_USPLINE: repro_unstructured_spline, F_TWOPER: repro_two_element_periodic}


def finalize(m, tier, seed):
    c = m.counters
    import os
    fl = dict(FLOORS[tier])
    if os.environ.get('VERIF_SCALE'):
        fl = {k: scaled(v) for k, v in fl.items()}  # development slices: floors shrink with the case count
    bases = {k[6:]: v for k, v in c.items() if k.startswith('bases/')}
    by_type, by_kind, by_degree = {}, {}, {}
    for k, v in bases.items():
        bt, kind, deg = k.split('|')
        by_type[bt] = by_type.get(bt, 0) + v
        by_kind[kind] = by_kind.get(kind, 0) + v
        by_degree[deg] = by_degree.get(deg, 0) + v
    cont = {k[11:]: v for k, v in c.items() if k.startswith('continuity/')}
    cont_checks = sum(v for k, v in cont.items() if k.startswith('order'))
    cov = dict(evaluations=c.get('evaluations', 0), distinct_nontrivial=len(m.sets.get('distinct', ())), rule=RULE, samples=m.samples[:4],
               bases_constructed=c.get('bases_total', 0), bases_by_type=by_type, bases_by_topology_kind=by_kind, bases_by_degree=by_degree,
               bases_by_type_kind_degree=len(bases), bases_by_triple_top=dict(sorted(bases.items(), key=lambda kv: -kv[1])[:150]), basis_classes=sorted(m.sets.get('basis_classes', ())),
               elements_checked=c.get('elements_checked', 0), points_checked=c.get('points_checked', 0), support_queries=c.get('support_queries', 0),
               vector_api_checks=c.get('vector_api_checks', 0),
               elements_with_wrapped_duplicate_dofs=c.get('elements_with_wrapped_duplicate_dofs', 0),
               continuity=cont, continuity_checks=cont_checks,
               pum_checks=c.get('pum_checks', 0), pum_points=c.get('pum_points', 0), pum_by_type={k[12:]: v for k, v in c.items() if k.startswith('pum_by_type/')},
               pum_via_function_checks=c.get('pum_via_function_checks', 0),
               pum_observed_not_promised={k[26:]: v for k, v in c.items() if k.startswith('pum_observed_not_promised/')},
               closed_form_checks=c.get('closed_form_checks', 0), closed_form_by_type={k[20:]: v for k, v in c.items() if k.startswith('closed_form_by_type/')},
               bspline_reference_checks=c.get('bspline_reference_checks', 0), pruned_checks=c.get('pruned_checks', 0),
               th_span_checks=c.get('th_span_checks', 0), merge_index_map_checks=c.get('merge_index_map_checks', 0), product_checks=c.get('product_checks', 0),
               derived={k[8:]: v for k, v in c.items() if k.startswith('derived/')},
               alias={k[6:]: v for k, v in c.items() if k.startswith('alias/')}, alias_refusals=sorted(m.sets.get('alias_refusals', ()))[:12],
               refusals={k[9:]: v for k, v in c.items() if k.startswith('refusals/')},
               construction_failed={k[20:]: v for k, v in c.items() if k.startswith('construction_failed/')},
               construction_failed_notes=sorted(m.sets.get('construction_failed', ()))[:20], refusal_messages=sorted(m.sets.get('refusal_messages', ()))[:25],
               accepted_outside_model=c.get('accepted_outside_model', 0), accepted_although_refusal_expected=c.get('accepted_although_refusal_expected', 0),
               topology_not_built={k[19:]: v for k, v in c.items() if k.startswith('topology_not_built/')},
               sample_not_built={k[17:]: v for k, v in c.items() if k.startswith('sample_not_built/')},
               topology_build_errors=sorted(m.sets.get('topology_build_errors', ()))[:10],
               float_compares=c.get('float_compares', 0), float_marginal=c.get('float_marginal', 0),
               cases_skipped_deadline=c.get('cases_skipped_deadline', 0), nontrivial=c.get('nontrivial', 0))
    inc = None
    ran = cov['evaluations'] - cov['cases_skipped_deadline']
    need_types = {'spline', 'std', 'discont', 'lagrange', 'bernstein', 'h-spline', 'th-spline', 'h-std', 'th-std'}
    if tier == 'thorough':
        need_types |= {'legendre', 'bubble', 'patch', 'h-discont', 'th-discont'}
    if cov['bases_constructed'] < fl['cases']:
        inc = f"only {cov['bases_constructed']} bases constructed and observed (floor {fl['cases']}); {cov['cases_skipped_deadline']} cases skipped at the deadline"
    elif cov['elements_checked'] < fl['elements']:
        inc = f"only {cov['elements_checked']} elements checked"
    elif cont_checks < fl['cont']:
        inc = f'only {cont_checks} interface continuity checks'
    elif cov['pum_checks'] < fl['pum']:
        inc = f"only {cov['pum_checks']} partition-of-unity checks"
    elif need_types - set(by_type):
        inc = f'basis types never constructed: {sorted(need_types - set(by_type))}'
    elif not all(cov['derived'].get(k, 0) for k in ('mask/bool', 'partition', 'vector')) or not cov['pruned_checks'] or not cov['th_span_checks'] or not cov['bspline_reference_checks']:
        inc = 'a derived-basis / pruned / th-span / B-spline monitor was never reached'
    elif cov['alias'].get('calls_sharing_one_array_between_periodic_and_nonperiodic_axis', 0) < fl['alias_shared'] or cov['alias'].get('calls_reusing_an_earlier_array', 0) < fl['alias_reuse'] \
            or cov['alias'].get('shared_nonperiodic_first', 0) < fl['alias_shared'] // 4 or cov['alias'].get('shared_periodic_first', 0) < fl['alias_shared'] // 4 \
            or cov['alias'].get('model_suite_runs', 0) < fl['alias_reuse'] // 2:
        inc = f"aliasing family barely reached: {cov['alias']}"
    elif cov['float_marginal'] > 0.005 * max(1, cov['float_compares']):
        inc = f"{cov['float_marginal']} of {cov['float_compares']} float comparisons fell in the marginal band"
    return dict(coverage=cov, inconclusive=inc)
