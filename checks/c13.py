"""C13 — Argument manipulation commutes with evaluation.

Monitor shape: the real ``function.replace_arguments`` / ``linearize`` /
``derivative`` / ``factor`` / ``function.eval`` are run on random function
arrays (arguments of all dtypes, constants, numpy-API operations, bases,
geometry, fields and gradients inside ``integral`` and ``sample.bind``, nested
``_Replace``) and five monitors decide:

 1 replace      eval(replace(f, {x: g}), A) == eval(f', A + {x': eval(g, A)}):
                substitution BY VALUE through staged evaluation, where f' is f
                with x renamed to a fresh name by this harness (on the JSON
                expression, not by nutils); chains, swaps, cycles, self
                reference, new arguments, constants, integral-valued and nested
                replacements; the result is evaluated with exactly the
                arguments its ``.arguments`` lists.
 2 linearize    linearize(f, 'u:v') == sum_u numpy.tensordot(eval(derivative(f, u)), V)
                and == Richardson-extrapolated central difference of eval(f).
 3 factor       eval(factor(p)) == eval(p) for polynomials p (degree <= 3, 1-3
                arguments, coefficients from integrals) at every value tried;
                derivative(factor(p)) == derivative(p); non-polynomials must be
                refused (NotPolynomal) or evaluate equal.
 4 spellings    the six documented spellings of one specification side by side,
                for replace_arguments and linearize: equal values or the same
                exception type.
 5 values       wrong-shaped values (scalar for vector, (1,n) for (m,n),
                transposed, ...) and values of a wider dtype kind must be
                rejected by evaluation; narrower kinds (bool/int for float, ...)
                are safe casts: if accepted they must evaluate like the cast value.

dtype decision (documented): kinds are ordered bool < int < float < complex.
A value whose kind is WIDER than the argument's (float->int, complex->float,
complex->int and likewise int/float/complex -> bool) cannot be cast without
changing kind; accepting it is the clause-5 violation (ledger mechanism
'C13-argument-value-unsafe-cast', fixed in /repo by 79fc826: random hits carry
that mechanism id, which suppresses nothing now), whether or not the particular
numbers happen to be representable.  A NARROWER kind (bool or int for a float
argument, ...) is what every nutils script does (`dict(dof=2)`) and is not
demanded to be rejected; if accepted it must evaluate like the cast value.
Any exception type counts as rejection (ValueError for shapes, TypeError for
kinds on the current tree); the types seen are listed in the evidence.
"""

import os, json, traceback, warnings
import numpy
from vlib.runner import Result, rng_for
from vlib import tolerance
from vlib import c13_gen as G

PROPERTY = 'C13'
LEVEL = 'exploration'
RULE = ('random function arrays over 1-8 Arguments (bool/int/float/complex, ndim 0-2 and, for about one in six signatures, ndim 3-4 with unequal axis lengths), constants, ~40 numpy-API operations and, in '
        'about half of the cases, geometry/bases/fields/gradients of one of 6 small meshes closed by topo.integral(degree=) or '
        'sample.bind, with nested replace nodes; per case one monitor family (replace 9/20, linearize 4/20, spellings 3/20, factor 2/20, '
        'values 2/20). non-trivial = the function has >= 2 operation nodes and the specification touches >= 1 argument the function '
        'really has; distinct = SHA-1 of the expression skeleton (constants and argument values stripped) plus the specification')
ASSUMPTIONS = ['evaluation of replace-free function arrays is the reference for both stages of the by-value oracle (that evaluation is the subject of C07/C09)',
               'fresh-name renaming of the JSON expression is done by the harness, never by nutils',
               'finite differences: central, steps 2e-3 and 1e-3, Richardson extrapolated; cases whose two steps disagree by more than 1e-3 relative are skipped and counted',
               'linearisation with respect to an int argument is only compared with the derivative contraction (nutils defines it as zero)',
               'a narrower value kind (bool/int for float, float for complex) is a safe cast and not required to be rejected']
BUDGET_S = {'quick': 75, 'thorough': 1350}
NCASES = {'quick': 1500, 'thorough': 30000}
if os.environ.get('C13_NCASES'):   # development only (narrow runs with --workers 3 on a loaded machine)
    NCASES = {k: int(os.environ['C13_NCASES']) for k in NCASES}
if os.environ.get('C13_BUDGET'):
    BUDGET_S = {k: int(os.environ['C13_BUDGET']) for k in BUDGET_S}
CHUNK = 10
GRACE_S = 60

KINDS = ['replace'] * 9 + ['linearize'] * 4 + ['spellings'] * 3 + ['factor'] * 2 + ['values'] * 2
MECH_CAST = 'C13-argument-value-unsafe-cast'
MECH_RAW = 'C13-replace-raw-spec-membership'
MECH_LOOP = 'C13-replacement-loop-capture'
MECH_KEY = 'C13-argument-key-nameerror'


def plan(tier, seed):
    n = NCASES[tier]
    return [dict(start=i, stop=min(n, i + CHUNK)) for i in range(0, n, CHUNK)]


# ------------------------------------------------------------------ evaluation helpers

def evaluate(expr, decl, values):
    from nutils import function
    arr = G.build(expr, G.Env(decl))
    return function.eval(arr, {k: values[k] for k in values})


def in_domain(*arrays):
    for a in arrays:
        a = numpy.asarray(a)
        if a.dtype.kind in 'fc' and (not numpy.isfinite(a).all() or (a.size and numpy.abs(a).max() > 1e6)):
            return False
    return True


def short_exc(e):
    return f'{type(e).__name__}: {str(e)[:300]}'


def cmp(obs, ref, **kw):
    obs, ref = numpy.asarray(obs), numpy.asarray(ref)
    return tolerance.compare(obs, ref, check_kind=False, **kw)


# ------------------------------------------------------------------ case generation

def gen_case(seed, index, tier):
    rng = rng_for(seed, 'c13', index)
    kind = KINDS[index % len(KINDS)]
    for attempt in range(8):
        try:
            case = GEN[kind](rng, tier)
        except RuntimeError:
            case = None
        if case:
            case.update(index=index, seed=seed, kind=kind)
            return case
    return dict(index=index, seed=seed, kind='none')


def draw_values(rng, decl, n):
    return [G.enc_args({name: G.rand_value(rng, shape, dtype) for name, (shape, dtype) in decl.items()}) for _ in range(n)]


def gen_replace(rng, tier):
    g, f = G.gen_function(rng, tier)
    variants = []
    for _ in range(2):
        new, kinds = g.add_replace(None, f)
        if new is not None:
            variants.append(dict(e=new.e, kinds=kinds))
    if not variants:
        return None
    return dict(decl=g.decl, f=f.e, variants=variants, values=draw_values(rng, g.decl, 2 if tier == 'quick' else 3), rejected=g.rejected)


def gen_linearize(rng, tier):
    dt = ['float'] * 7 + ['complex'] * 2 + ['int']
    g, f = G.gen_function(rng, tier, smooth_only=True, dtypes=dt, capture_free=True)
    keys = sorted(n for n in f.args if g.decl[n][1] in ('float', 'complex'))
    if not keys:
        return None
    if any(g.decl[n][1] == 'complex' for n in f.args) and not f.holo:
        return None
    rng.shuffle(keys)
    keys = keys[:int(rng.integers(1, 3))]
    ikeys = sorted(n for n in f.args if g.decl[n][1] == 'int')
    if ikeys and rng.random() < .25:
        keys.append(ikeys[0])
    # the direction is a fresh argument, or (1 in 5) the linearised argument itself ('u:u': the derivative in the direction of the current value)
    pairs = [[k, k if rng.random() < .2 else g.new_arg(*g.decl[k])] for k in keys]
    if rng.random() < .1:
        pairs.append([g.new_arg((2,), 'float'), g.new_arg((2,), 'float')])   # key that f does not have: ignored
    spelling = str(rng.choice(G.SPELLINGS_ALL))
    return dict(decl=g.decl, f=f.e, spelling=spelling, pairs=pairs, values=draw_values(rng, g.decl, 2), rejected=g.rejected)


def gen_spellings(rng, tier):
    g, f = G.gen_function(rng, tier, smooth_only=True, dtypes=['float'] * 6 + ['complex', 'int', 'int', 'bool'], capture_free=True)
    pairs, kinds = g.repl_spec(f, only_names=True)
    if not pairs:
        return None
    lin = [[k, g.new_arg(*g.decl[k])] for k in sorted(f.args) if g.decl[k][1] in ('float', 'complex')][:3]
    if any(g.decl[n][1] == 'complex' for n in f.args) and not f.holo:
        lin = []
    error = None
    if rng.random() < .15:
        # a specification every spelling must refuse alike: the new name is an existing argument of another signature
        args = sorted(f.args)
        for x in args:
            other = [n for n in args if n != x and g.decl[n] != g.decl[x]]
            if other:
                pairs = [[x, other[0]]]
                kinds = ['conflict']
                error = 'conflict'
                break
    return dict(decl=g.decl, f=f.e, pairs=pairs, kinds=kinds, lin=lin, error=error, values=draw_values(rng, g.decl, 1), rejected=g.rejected)


def gen_factor(rng, tier):
    out = G.gen_polynomial(rng, tier)
    if out is None:
        return None
    g, ent, degree, nonpoly = out
    odd = None
    if rng.random() < .15:   # int / complex polynomial: outcome is recorded (factor is written for float arguments)
        dt = str(rng.choice(['int', 'complex']))
        shape = g.rand_shape()
        n = g.new_arg(shape, dt)
        odd = dict(e=['b', 'add', ['u', 'sqr', ['arg', n]], ['arg', n]], dtype=dt)
    return dict(decl=g.decl, f=ent.e, degree=degree, nonpoly=nonpoly, odd=odd, values=draw_values(rng, g.decl, 3), rejected=g.rejected)


def gen_values(rng, tier):
    g, f = G.gen_function(rng, tier, nested_replace=rng.random() < .3, capture_free=True, dtypes=['float'] * 4 + ['int'] * 3 + ['complex'] * 2 + ['bool'])
    names = sorted(f.args)
    rng.shuffle(names)
    muts = []
    for name in names[:3]:
        shape, dtype = g.decl[name]
        shape = tuple(shape)
        for s in wrong_shapes(shape):
            muts.append(dict(arg=name, what='shape', shape=list(s), seed=int(rng.integers(2**31))))
        for k in G.RANK:
            if k != dtype:
                for exact in ([False, True] if G.RANK[k] > G.RANK[dtype] else [False]):
                    muts.append(dict(arg=name, what='kind', kind=k, exact=exact, seed=int(rng.integers(2**31))))
    return dict(decl=g.decl, f=f.e, muts=muts, values=draw_values(rng, g.decl, 1), rejected=g.rejected)


def wrong_shapes(shape):
    out = []
    nd = len(shape)
    if nd == 0:
        out = [(1,), (2,), (1, 1)]
    elif nd == 1:
        n, = shape
        out = [(), (n, 1), (1, n), (n + 1,), (n, n)]
        if n > 1:
            out += [(1,), (n - 1,)]
    elif nd == 2:
        m, n = shape
        out = [(), (n,), (1, m, n), (m, n, 1), (m * n,), (m + 1, n)]
        if m > 1:
            out.append((1, n))
        if n > 1:
            out.append((m, 1))
        if m != n:
            out.append((n, m))
        if m > 1 and n > 1:
            out.append((1, 1))
    else:
        n = int(numpy.prod(shape, dtype=int))
        out = [(), (n,), (1,) + tuple(shape), tuple(shape) + (1,), tuple(shape[::-1]), tuple(shape[1:]), (shape[1], shape[0]) + tuple(shape[2:]), (1,) + tuple(shape[1:])]
    return [s for s in dict.fromkeys(out) if tuple(s) != tuple(shape)]


GEN = dict(replace=gen_replace, linearize=gen_linearize, spellings=gen_spellings, factor=gen_factor, values=gen_values)


# ------------------------------------------------------------------ monitors

def note_distinct(res, case, *extra):
    f = case['f']
    nops = G.count_nodes(f, lambda n: n[0] not in ('arg', 'const', 'geom', 'basis'))
    if nops >= 2:
        res.add('distinct', G.digest([case['kind'], G.skeleton(f), *extra]))
    for op in G.ops_used(f):
        res.add('ops', op)
    if G.has_node(f, {'integral'}):
        res.count('feature/integral')
    if G.has_node(f, {'bind'}):
        res.count('feature/bind')
    if G.has_node(f, {'replace'}):
        res.count('feature/nested-replace-in-f')
    if G.has_node(f, {'field'}):
        res.count('feature/field')
    if G.has_node(f, {'grad'}):
        res.count('feature/grad')


def classify_replace_failure(E, decl, vals, ref):
    """Structural predicate + differential confirmation for the two ledger mechanisms."""
    from nutils import function, evaluable
    nodes = [n for n, level in G.replace_nodes(E)]
    if any(G.raw_membership_trigger(n) for n in nodes):
        try:
            E2 = G.respell(E, 'string', 'dict')
            arr = G.build(E2, G.Env(decl))
            full = dict(vals)
            obs = function.eval(arr, {n: full[n] for n in arr.arguments if n in full})
            if cmp(obs, ref)[0] != tolerance.VIOLATION:
                return MECH_RAW
        except Exception:
            pass
    if any(G.loop_capture_trigger(n) for n in nodes):
        try:
            arr = G.build(E, G.Env(decl))
            obs = evaluable.eval_once(evaluable.asarray(arr), arguments=vals, _simplify=False, _optimize=False)
            if cmp(obs, ref)[0] != tolerance.VIOLATION:
                return MECH_LOOP
        except Exception:
            pass
    return None


def monitor_replace(case, res):
    from nutils import function
    decl = case['decl']
    note_distinct(res, case, [[v['kinds'], G.skeleton(v['e'])] for v in case['variants']])
    for iv, var in enumerate(case['variants']):
        E = var['e']
        for k in var['kinds']:
            res.count('replace/kind/' + k)
        res.count('replace/spelling/' + E[2])
        nest = len(G.replace_nodes(E))
        res.maximum('replace/max_replace_nodes', nest)
        if nest > 1:
            res.count('replace/nested')
        if any(level > 0 for n, level in G.replace_nodes(E)):
            res.count('replace/inside-integrand')
        if any(len(decl[k][0]) >= 3 for k, v in E[3] if k in decl and k in G.free(E[1])):
            res.count('replace/argument-ndim>=3')
        if any(G.loop_capture_trigger(n) for n, level in G.replace_nodes(E)):
            res.count('replace/loop-in-replacement-of-looping-function')
        vcase = dict(kind='replace', index=case['index'], seed=case['seed'], decl=decl, f=case['f'], variants=[var], values=None)
        try:
            arr = G.build(E, G.Env(decl))
        except Exception:
            res.violation('replace: construction of a valid replacement failed', dict(vcase, values=case['values'][:1]), traceback.format_exc()[-1500:])
            continue
        listed = {n: (list(s), G.DTNAME.get(d, str(d))) for n, (s, d) in arr.arguments.items()}
        needed = G.free(E)
        res.count('replace/arguments-metadata/checked')
        if set(listed) != needed:
            extra, missing = sorted(set(listed) - needed), sorted(needed - set(listed))
            res.count('replace/arguments-metadata/surprise')
            if extra:
                res.count('replace/arguments-metadata/lists-unneeded')
            if missing:
                res.count('replace/arguments-metadata/omits-needed')
            res.note(f'arguments-metadata: spelling={E[2]} spec={[[k, v if isinstance(v, str) else "<expr>"] for k, v in E[3]]} lists unneeded {extra} omits needed {missing} (case {case["index"]})')
        for n, sd in listed.items():
            if n in decl and list(sd) != [list(decl[n][0]), decl[n][1]]:
                res.count('replace/arguments-metadata/wrong-signature')
                res.note(f'arguments-metadata: {n} listed as {sd} but declared {decl[n]} (case {case["index"]})')
        for ia, AJ in enumerate(case['values']):
            A = G.dec_args(AJ)
            one = dict(vcase, values=[AJ])
            # reference: substitution by value
            try:
                el = G.Eliminator(decl, A, evaluate)
                E1 = el.run(E, {})
                ref = evaluate(E1, el.decl, {n: el.values[n] for n in G.free(E1)})
            except Exception:
                res.count('replace/reference-failed')
                res.note('reference evaluation failed: ' + traceback.format_exc()[-300:])
                continue
            if not in_domain(ref, *el.values.values()):
                res.count('replace/out-of-domain')
                continue
            res.count('replace/stages', el.stages)
            # observed: evaluate with exactly the arguments the result lists
            srng = numpy.random.default_rng(case['index'] * 7 + ia)
            vals = {n: A[n] if n in A else G.rand_value(srng, s, d) for n, (s, d) in listed.items()}
            res.count('evaluations')
            res.count('replace/evaluations')
            try:
                obs = function.eval(arr, vals)
                verdict, detail = cmp(obs, ref)
                if verdict == tolerance.VIOLATION:
                    detail = f'eval(replace(f, spec), A) != eval(f, A + by-value): {detail}; obs={numpy.asarray(obs).ravel()[:4]} ref={numpy.asarray(ref).ravel()[:4]}'
            except Exception as e:
                verdict, detail = tolerance.VIOLATION, 'evaluation with exactly the listed .arguments failed: ' + short_exc(e) + ' | ' + traceback.format_exc()[-600:]
            if verdict == tolerance.PASS:
                res.count('replace/pass')
            elif verdict == tolerance.MARGINAL:
                res.count('marginal')
            else:
                mech = classify_replace_failure(E, decl, dict(A, **vals), ref)
                res.violation('replace: substitution by value', one, detail, mechanism=mech)
                break


def fd_directional(f, decl, A, dirs, h):
    plus, minus = dict(A), dict(A)
    for k, V in dirs.items():
        plus[k] = A[k] + h * V
        minus[k] = A[k] - h * V
    need = G.free(f)
    fp = evaluate(f, decl, {n: plus[n] for n in need})
    fm = evaluate(f, decl, {n: minus[n] for n in need})
    return (numpy.asarray(fp) - numpy.asarray(fm)) / (2 * h)


def monitor_linearize(case, res):
    from nutils import function
    decl, f, pairs = case['decl'], case['f'], case['pairs']
    note_distinct(res, case, case['spelling'], [k for k, v in pairs])
    fargs = G.free(f)
    live = [(k, v) for k, v in pairs if k in fargs]
    L = ['linearize', f, case['spelling'], pairs]
    res.count('linearize/spelling/' + case['spelling'])
    try:
        arr = G.build(L, G.Env(decl))
        farr = G.build(f, G.Env(decl))
    except Exception as e:
        mech = MECH_KEY if isinstance(e, NameError) and case['spelling'] == 'argkey' else None
        res.violation('linearize: construction failed', dict(case, values=case['values'][:1]), traceback.format_exc()[-1500:], mechanism=mech)
        return
    if farr.ndim >= 1 and any(len(decl[k][0]) >= 1 for k, v in live):
        res.count('linearize/array-valued-with-array-argument')
    if G.has_node(f, {'replace'}):
        res.count('linearize/through-replace')
    if any(len(decl[k][0]) == 2 and decl[k][0][0] == decl[k][0][1] > 1 for k, v in live):
        res.count('linearize/square-matrix-argument')
    if any(len(decl[k][0]) >= 3 for k, v in live):
        res.count('linearize/argument-ndim>=3')
    if any(k == v for k, v in live):
        res.count('linearize/direction-named-like-argument')
    listed, needed = set(arr.arguments), G.free(L)
    res.count('linearize/arguments-metadata/checked')
    if listed != needed:
        res.count('linearize/arguments-metadata/surprise')
        res.note(f'arguments-metadata: linearize lists {sorted(listed)} needs {sorted(needed)} (case {case["index"]})')
    for AJ in case['values']:
        A = G.dec_args(AJ)
        one = dict(case, values=[AJ])
        try:
            f0 = evaluate(f, decl, {n: A[n] for n in fargs})
        except Exception:
            res.count('linearize/reference-failed')
            continue
        if not in_domain(f0):
            res.count('linearize/out-of-domain')
            continue
        res.count('evaluations')
        res.count('linearize/evaluations')
        try:
            obs = numpy.asarray(function.eval(arr, {n: A[n] for n in listed if n in A}))
        except Exception as e:
            res.violation('linearize: evaluation failed', one, short_exc(e) + ' | ' + traceback.format_exc()[-600:])
            return
        # (a) contraction of derivative(f, u) with the direction, done in numpy
        try:
            ref = numpy.zeros(farr.shape, dtype=obs.dtype)
            for k, v in live:
                D = numpy.asarray(function.eval(function.derivative(farr, k), {n: A[n] for n in fargs}))
                V = A[v]
                ref = ref + (numpy.tensordot(D, V, axes=V.ndim) if V.ndim else D * V)
        except Exception as e:
            res.violation('linearize: derivative evaluation failed', one, short_exc(e) + ' | ' + traceback.format_exc()[-600:])
            return
        if not in_domain(ref):
            res.count('linearize/out-of-domain')
            continue
        scale = max(1., float(numpy.abs(f0).max()) if numpy.size(f0) else 1.)
        verdict, detail = cmp(obs, ref, scale=scale)
        res.count('linearize/vs-derivative/' + verdict)
        if verdict == tolerance.VIOLATION:
            res.violation('linearize != derivative contraction', one, f'{detail}; obs={obs.ravel()[:4]} ref={ref.ravel()[:4]}')
            return
        if verdict == tolerance.MARGINAL:
            res.count('marginal')
        # (b) numeric directional derivative of f's own evaluation
        if any(decl[k][1] == 'int' for k, v in live):
            res.count('linearize/fd-skipped-int-key')
            continue
        try:
            dirs = {k: A[v] for k, v in live}
            d1 = fd_directional(f, decl, A, dirs, 2e-3)
            d2 = fd_directional(f, decl, A, dirs, 1e-3)
        except Exception:
            res.count('linearize/fd-failed')
            continue
        rich = (4 * d2 - d1) / 3
        s = max(scale, float(numpy.abs(rich).max()) if rich.size else 1.)
        if not in_domain(rich) or (rich.size and float(numpy.abs(d1 - d2).max()) > 1e-3 * s):
            res.count('linearize/fd-unstable-skipped')
            continue
        err = float(numpy.abs(obs - rich).max()) if rich.size else 0.
        res.count('linearize/fd-compared')
        if err <= 1e-6 * s:
            res.count('linearize/vs-fd/pass')
        elif err <= 1e-3 * s:
            res.count('linearize/vs-fd/marginal')
            res.count('marginal-fd')
        else:
            res.violation('linearize != numeric directional derivative', one, f'max abs err {err:.3e} at scale {s:.3e}; obs={obs.ravel()[:4]} fd={rich.ravel()[:4]}')
            return


def run_spelling(kind, f, spelling, pairs, decl, A):
    """Returns ('ok', value, argnames) or ('exc', type name, message)."""
    from nutils import function
    try:
        arr = G.build([kind, f, spelling, pairs], G.Env(decl))
        val = function.eval(arr, A)
        return 'ok', numpy.asarray(val), sorted(arr.arguments)
    except Exception as e:
        return 'exc', type(e).__name__, str(e)[:200]


def monitor_spellings(case, res):
    decl, f = case['decl'], case['f']
    note_distinct(res, case, case['pairs'], case['lin'])
    A = G.dec_args(case['values'][0])
    for kind, pairs in (('replace', case['pairs']), ('linearize', case['lin'])):
        if not pairs:
            continue
        outs = {sp: run_spelling(kind, f, sp, pairs, decl, A) for sp in G.SPELLINGS_ALL}
        res.count('evaluations')
        res.count(f'spellings/{kind}/sets')
        res.count('spellings/evaluations', len(outs))
        base = outs['dict']
        if base[0] == 'ok' and not in_domain(base[1]):
            res.count('spellings/out-of-domain')
            continue
        if case.get('error') and kind == 'replace':
            res.count('spellings/error-specs')
        if base[0] == 'exc':
            res.count(f'spellings/{kind}/raise/{base[1]}')
            if not case.get('error') or kind == 'linearize':
                # a valid specification: refusing it in every spelling is not a spelling disagreement but still wrong
                res.violation(f'{kind} of a valid specification raised', case, f'dict spelling: {base[1]}: {base[2]}')
                continue
        bad = []
        for sp, out in outs.items():
            if out[0] != base[0]:
                bad.append(f"{sp}: {out[1] if out[0] == 'exc' else 'evaluates'}{(' (' + out[2] + ')') if out[0] == 'exc' else ''} but dict: {base[1] if base[0] == 'exc' else 'evaluates'}{(' (' + base[2] + ')') if base[0] == 'exc' else ''}")
            elif out[0] == 'exc':
                if out[1] != base[1]:
                    bad.append(f'{sp} raises {out[1]} ({out[2]}) but dict raises {base[1]} ({base[2]})')
            else:
                verdict, detail = cmp(out[1], base[1])
                if verdict == tolerance.VIOLATION:
                    bad.append(f'{sp} evaluates differently from dict: {detail}')
                elif verdict == tolerance.MARGINAL:
                    res.count('marginal')
                if out[2] != base[2]:
                    res.count('spellings/arguments-metadata/differs-from-dict')
                    res.note(f'arguments-metadata: {kind} spelled {sp} lists {out[2]}, spelled dict lists {base[2]} (case {case["index"]})')
        if bad:
            mech = None
            if all(b.startswith('argkey') and 'NameError' in b for b in bad):
                mech = MECH_KEY
            res.violation(f'spellings of one {kind} specification disagree', case, '; '.join(bad)[:1800], mechanism=mech)
        else:
            res.count(f'spellings/{kind}/agree')


def monomial_coefficients(fac):
    """Largest number of stored coefficients of a Monomial in the factored form (gate only; None if unknown)."""
    try:
        from nutils import evaluable
        seen, stack, best = set(), [fac._array], 0
        while stack:
            obj = stack.pop()
            if id(obj) in seen:
                continue
            seen.add(id(obj))
            if isinstance(obj, evaluable.Monomial):
                best = max(best, int(obj.values.shape[0].__index__()))
            stack.extend(d for d in getattr(obj, 'dependencies', ()) if isinstance(d, evaluable.Evaluable))
        return best
    except Exception:
        return None


def monitor_factor(case, res):
    from nutils import function, evaluable
    import treelog
    decl, f = case['decl'], case['f']
    note_distinct(res, case, case['degree'])
    res.count(f'factor/degree/{case["degree"]}')
    res.count(f'factor/nargs/{len(G.free(f))}')
    env = G.Env(decl)
    farr = G.build(f, env)
    try:
        fac = function.factor(farr)
    except evaluable.NotPolynomal as e:
        res.count('factor/polynomial-refused')
        res.note(f'factor refused a polynomial: {short_exc(e)} (case {case["index"]})')
        fac = None
    except Exception as e:
        res.violation('factor: exception on a float polynomial', case, short_exc(e) + ' | ' + traceback.format_exc()[-800:])
        fac = None
    if fac is not None:
        names = sorted(G.free(f))
        if set(fac.arguments) != set(names):
            res.count('factor/arguments-metadata/surprise')
            res.note(f'arguments-metadata: factor lists {sorted(fac.arguments)} needs {names} (case {case["index"]})')
        for i, AJ in enumerate(case['values']):
            A = G.dec_args(AJ)
            vals = {n: A[n] for n in names}
            ref = numpy.asarray(function.eval(farr, vals))
            if not in_domain(ref):
                res.count('factor/out-of-domain')
                continue
            res.count('evaluations')
            res.count('factor/evaluations')
            try:
                obs = function.eval(fac, {n: A[n] for n in fac.arguments if n in A})
            except Exception as e:
                res.violation('factor: evaluation failed', dict(case, values=[AJ]), short_exc(e))
                break
            verdict, detail = cmp(obs, ref, scale=float(numpy.abs(ref).max()) if ref.size else 1.)
            if verdict == tolerance.VIOLATION:
                res.violation('eval(factor(f)) != eval(f)', dict(case, values=[AJ]), f'{detail}; obs={numpy.asarray(obs).ravel()[:4]} ref={ref.ravel()[:4]}')
                break
            res.count('factor/' + verdict)
            if verdict == tolerance.MARGINAL:
                res.count('marginal')
            # derivative / linearisation of the factored polynomial (Monomial._derivative). It materialises a dense
            # ncoefficients^2 diagonal, so only factored forms with few stored coefficients are differentiated.
            if i == 0 and names:
                ncoef = monomial_coefficients(fac)
                if ncoef is None:
                    ncoef = max([int(numpy.prod(decl[n][0], dtype=int)) for n in names] + [1]) ** case['degree'] * max(1, ref.size)
                res.maximum('factor/max-coefficients-differentiated', min(ncoef, 2500))
                if ncoef > 2500:
                    res.count('factor/derivative/skipped-large')
                    continue
                # differentiate with respect to the argument with most axes (multi-index ravelling matters there)
                order = sorted(names, key=lambda n: (-len(decl[n][0]), n))
                k = order[0] if case['index'] % 3 else order[case['index'] % len(order)]
                nd = len(decl[k][0])
                res.count(f'factor/derivative/argument-ndim/{nd}')
                if nd >= 3 and len(set(decl[k][0][:-1])) > 1:
                    res.count('factor/derivative/argument-ndim>=3-unequal-leading-lengths')
                one = dict(case, values=[AJ])
                try:
                    dref = numpy.asarray(function.eval(function.derivative(farr, k), vals))
                    dobs = function.eval(function.derivative(fac, k), vals)
                    v2, d2 = cmp(dobs, dref, scale=float(numpy.abs(dref).max()) if dref.size else 1.)
                    res.count('factor/derivative/' + v2)
                    if v2 == tolerance.VIOLATION:
                        res.violation('derivative(factor(f)) != derivative(f)', one, f'wrt {k} of shape {tuple(decl[k][0])}: {d2}')
                        break
                    # linearize(factor(f), k:v) against the contraction and against a finite difference of f itself
                    V = G.rand_value(numpy.random.default_rng(case['index']), decl[k][0], 'float')
                    vname = '_dir'
                    lin = function.linearize(fac, {k: function.Argument(vname, tuple(decl[k][0]), float)})
                    lobs = numpy.asarray(function.eval(lin, dict(vals, **{vname: V})))
                    lref = numpy.tensordot(dref, V, axes=V.ndim) if V.ndim else dref * V
                    v3, d3 = cmp(lobs, lref, scale=float(numpy.abs(lref).max()) if lref.size else 1.)
                    res.count('factor/linearize/' + v3)
                    if v3 == tolerance.VIOLATION:
                        res.violation('linearize(factor(f)) != derivative(f) contracted', one, f'wrt {k} of shape {tuple(decl[k][0])}: {d3}')
                        break
                    d1 = fd_directional(f, decl, A, {k: V}, 2e-3)
                    d2_ = fd_directional(f, decl, A, {k: V}, 1e-3)
                    rich = (4 * d2_ - d1) / 3
                    sc = max(1., float(numpy.abs(rich).max()) if rich.size else 1., float(numpy.abs(ref).max()) if ref.size else 1.)
                    err = float(numpy.abs(lobs - rich).max()) if rich.size else 0.
                    if err <= 1e-6 * sc:
                        res.count('factor/linearize-vs-fd/pass')
                    elif err <= 1e-3 * sc:
                        res.count('factor/linearize-vs-fd/marginal')
                        res.count('marginal-fd')
                    else:
                        res.violation('linearize(factor(f)) != numeric directional derivative of f', one, f'wrt {k} of shape {tuple(decl[k][0])}: max abs err {err:.3e} at scale {sc:.3e}')
                        break
                except NotImplementedError:
                    res.count('factor/derivative/not-implemented')
                except Exception as e:
                    res.violation('derivative of factor(f) failed', one, f'wrt {k} of shape {tuple(decl[k][0])}: ' + short_exc(e) + ' | ' + traceback.format_exc()[-600:])
                    break
    # non-polynomial sibling: refused, or still equal
    if case.get('nonpoly'):
        np_ = case['nonpoly']
        res.count('factor/nonpoly/tried')
        arr = G.build(np_, env)
        try:
            fac2 = function.factor(arr)
        except evaluable.NotPolynomal:
            res.count('factor/nonpoly/refused-NotPolynomal')
            fac2 = None
        except Exception as e:
            res.count('factor/nonpoly/other-exception')
            res.add('factor/nonpoly/other-exception-types', type(e).__name__)
            res.note(f'factor of non-polynomial {np_[1]} raised {short_exc(e)} (case {case["index"]})')
            fac2 = None
        if fac2 is not None:
            A = G.dec_args(case['values'][0])
            vals = {n: A[n] for n in G.free(np_)}
            ref = numpy.asarray(function.eval(arr, vals))
            if in_domain(ref):
                obs = function.eval(fac2, vals)
                verdict, detail = cmp(obs, ref)
                res.count('factor/nonpoly/accepted-' + verdict)
                if verdict == tolerance.VIOLATION:
                    res.violation('factor accepted a non-polynomial and evaluates differently', case, detail)
    if case.get('odd'):
        odd = case['odd']
        arr = G.build(odd['e'], env)
        try:
            fac3 = function.factor(arr)
            A = G.dec_args(case['values'][0])
            vals = {n: A[n] for n in G.free(odd['e'])}
            verdict, detail = cmp(function.eval(fac3, vals), function.eval(arr, vals))
            res.count(f'factor/{odd["dtype"]}-argument/accepted-' + verdict)
            if verdict == tolerance.VIOLATION:
                res.violation(f'eval(factor(f)) != eval(f) for a polynomial in a {odd["dtype"]} argument', case, detail)
        except Exception as e:
            res.count(f'factor/{odd["dtype"]}-argument/raised-{type(e).__name__}')


def mutate_value(mut, A, decl):
    shape, dtype = decl[mut['arg']]
    rng = numpy.random.default_rng(mut['seed'])
    if mut['what'] == 'shape':
        s = tuple(mut['shape'])
        good = numpy.asarray(A[mut['arg']])
        # content that a silent broadcast would accept happily: a slice/reshape of the good value when possible
        if good.size and int(numpy.prod(s, dtype=int)) == good.size:
            return good.reshape(s) if len(s) != good.ndim or s != good.shape[::-1] else good.T.copy()
        v = G.rand_value(rng, s, dtype)
        return v
    k = mut['kind']
    v = G.rand_value(rng, shape, k)
    if mut.get('exact'):
        # a wider-kind value that is exactly representable in the argument's dtype
        v = numpy.asarray(A[mut['arg']]).astype(G.DT[k])
    elif G.RANK[k] > G.RANK[dtype]:
        # make sure information would really be lost
        if k == 'float':
            v = numpy.asarray(v) + .37
        elif k == 'complex':
            v = numpy.asarray(v) + .5j
        elif k == 'int':
            v = numpy.where(numpy.asarray(v) == 1, 2, v)
    return numpy.asarray(v)


def monitor_values(case, res):
    from nutils import function
    decl, f = case['decl'], case['f']
    note_distinct(res, case, sorted({m['arg'] for m in case['muts']}))
    A = G.dec_args(case['values'][0])
    need = sorted(G.free(f))
    try:
        arr = G.build(f, G.Env(decl))
        good = function.eval(arr, {n: A[n] for n in need})
    except Exception:
        res.count('values/baseline-failed')
        return
    # An argument that simplification removes (e.g. multiplied by a zero constant) is never read, so
    # nothing can be checked or broadcast: only arguments whose value influences the result are probed.
    live = {}
    for name in sorted({m['arg'] for m in case['muts']}):
        shape, dtype = decl[name]
        other = numpy.logical_not(A[name]) if dtype == 'bool' else A[name] + (1 if dtype == 'int' else 1.25)
        try:
            alt = function.eval(arr, dict({n: A[n] for n in need}, **{name: other}))
            live[name] = not numpy.array_equal(numpy.asarray(alt), numpy.asarray(good))
        except Exception:
            live[name] = True
    for mut in case['muts']:
        name = mut['arg']
        shape, dtype = decl[name]
        if not live[name]:
            res.count('values/dead-argument-skipped')
            continue
        v = mutate_value(mut, A, decl)
        vals = {n: A[n] for n in need}
        vals[name] = v
        res.count('evaluations')
        one = dict(kind='values', index=case['index'], seed=case['seed'], decl=decl, f=f, muts=[mut], values=case['values'])
        try:
            obs = function.eval(arr, vals)
            accepted = True
        except Exception as e:
            accepted = False
            res.add('values/rejection-exception-types', type(e).__name__)
        if mut['what'] == 'shape':
            res.count('values/wrong-shape/tried')
            res.count('values/wrong-shape/' + ('scalar' if not mut['shape'] else 'broadcastable' if _broadcastable(mut['shape'], shape) else 'other'))
            if accepted:
                res.violation('argument value of the wrong shape accepted', one, f'argument {name!r} of shape {tuple(shape)} accepted a value of shape {tuple(mut["shape"])}; result shape {numpy.shape(obs)}')
            else:
                res.count('values/wrong-shape/rejected')
        else:
            wider = G.RANK[mut['kind']] > G.RANK[dtype]
            tag = f'{mut["kind"]}->{dtype}'
            if wider:
                res.count('values/wider-kind/tried')
                if accepted:
                    res.count('values/wider-kind/accepted/' + tag)
                    res.violation('argument value of a wider dtype kind accepted and silently narrowed', one,
                                  f'{dtype} argument {name!r} accepted the {mut["kind"]} value {numpy.asarray(v).ravel()[:3]} ({"exactly representable" if mut.get("exact") else "not representable"})', mechanism=MECH_CAST)
                else:
                    res.count('values/wider-kind/rejected')
            else:
                res.count('values/narrower-kind/tried')
                if accepted:
                    ref = function.eval(arr, dict(vals, **{name: numpy.asarray(v).astype(G.DT[dtype])}))
                    verdict, detail = cmp(obs, ref)
                    res.count('values/narrower-kind/accepted-' + verdict)
                    if verdict == tolerance.VIOLATION:
                        res.violation('safe cast of an argument value changed the result', one, f'{tag}: {detail}')
                else:
                    res.count('values/narrower-kind/rejected')


def _broadcastable(s, shape):
    try:
        return tuple(numpy.broadcast_shapes(tuple(s), tuple(shape))) == tuple(shape)
    except ValueError:
        return False


MONITORS = dict(replace=monitor_replace, linearize=monitor_linearize, spellings=monitor_spellings, factor=monitor_factor, values=monitor_values)


class CaseTimeout(BaseException):
    pass


def _alarm(signum, frame):
    raise CaseTimeout()


CASE_CPU_S = 15   # watchdog on the process CPU clock (load independent): a case that exceeds it is skipped and counted, never a verdict


def execute(case, res):
    import treelog, signal
    kind = case.get('kind')
    if kind not in MONITORS:
        res.count('cases/generation-failed')
        return
    res.count('cases/' + kind)
    with warnings.catch_warnings(), treelog.set(treelog.NullLog()), numpy.errstate(all='ignore'):
        warnings.simplefilter('ignore')
        old = signal.signal(signal.SIGPROF, _alarm)
        signal.setitimer(signal.ITIMER_PROF, CASE_CPU_S)
        try:
            MONITORS[kind](case, res)
        except CaseTimeout:
            res.count('watchdog-skipped')
            res.count('watchdog-skipped/' + kind)
        except Exception:
            # the harness must not die on one case; an exception escaping a monitor is recorded as a harness problem
            res.count('harness-exceptions')
            res.note('harness exception in case %d: %s' % (case.get('index', -1), traceback.format_exc()[-400:]))
        finally:
            signal.setitimer(signal.ITIMER_PROF, 0)
            signal.signal(signal.SIGPROF, old)


def run_units(units, ctx):
    res = Result()
    import treelog
    for u in units:
        for i in range(u['start'], u['stop']):
            if ctx.expired():
                res.count('cases_skipped_deadline')
                continue
            with warnings.catch_warnings(), treelog.set(treelog.NullLog()), numpy.errstate(all='ignore'):
                warnings.simplefilter('ignore')
                try:
                    case = gen_case(ctx.seed, i, ctx.tier)
                except Exception:
                    res.count('harness-exceptions')
                    res.note('generator exception in case %d: %s' % (i, traceback.format_exc()[-400:]))
                    continue
            res.count('generator/rejected-constructions', case.get('rejected', 0))
            execute(case, res)
            if i % 211 == 0 and case.get('kind') in MONITORS:
                res.sample(dict(index=i, kind=case['kind'], f=case['f'], spec=case.get('variants', case.get('pairs'))))
    return res


def replay(case):
    res = Result()
    execute(case, res)
    return res.violations


# ------------------------------------------------------------------ ledger reproducers

def repro_argument_key():
    from nutils import function
    u = function.Argument('u', (2,))
    v = function.Argument('v', (2,))
    out = []
    for what, fn in (('replace_arguments', lambda: function.replace_arguments(u * 2, [(u, v)])), ('linearize', lambda: function.linearize(u * u, [(u, v)]))):
        try:
            r = function.eval(fn(), dict(u=numpy.array([1., 2.]), v=numpy.array([3., 4.])))
            out.append((what, None, r))
        except NameError as e:
            out.append((what, e, None))
    bad = [f'{w} raised NameError: {e}' for w, e, r in out if e is not None]
    if bad:
        return True, '; '.join(bad)
    ok = (out[0][2] == [6., 8.]).all() and (out[1][2] == [6., 16.]).all()
    return (not ok), f'Argument-object keys: replace -> {out[0][2]}, linearize -> {out[1][2]}'


def repro_unsafe_cast():
    from nutils import function
    n = function.Argument('n', (2,), int)
    x = function.Argument('x', (2,), float)
    msgs, fails = [], False
    for arg, val, name in ((n, numpy.array([1.7, 2.2]), 'int argument <- [1.7, 2.2]'), (x, numpy.array([1 + 2j, 3 - 1j]), 'float argument <- [1+2j, 3-1j]')):
        try:
            with warnings.catch_warnings():
                warnings.simplefilter('ignore')
                r = function.eval(arg * 1, {arg.name: val})
            msgs.append(f'{name} accepted, evaluates to {r.tolist()}')
            fails = True
        except Exception as e:
            msgs.append(f'{name} rejected ({type(e).__name__})')
    return fails, '; '.join(msgs)


def repro_raw_membership():
    from nutils import function
    u = function.Argument('u', (2,))
    w = function.Argument('w', (2,))
    f = u * 2 + w * 3
    r = function.replace_arguments(f, 'u:vw')
    listed = sorted(r.arguments)
    r2 = function.replace_arguments(r, {'w': numpy.array([10., 20.])})
    try:
        val = function.eval(r2, {'vw': numpy.array([1., 1.]), 'w': numpy.array([0., 0.])})
    except Exception as e:
        return True, f"replace(replace(2u+3w, 'u:vw'), w:[10,20]) failed: {short_exc(e)}"
    ok = listed == ['vw', 'w'] and (val == [32., 62.]).all()
    return (not ok), f"replace(2u+3w, 'u:vw').arguments == {listed}; then w:=[10,20] at vw=[1,1] evaluates to {val.tolist()} (expected [32, 62])"


def repro_loop_capture():
    """Two symptoms of one mechanism: the loop of an integral-valued replacement gets the id `_sample_0` of the loop it
    is substituted into.  (a) interior/interior: the simplifier moved a Take with the outer index into the inner loop
    (wrong value; the LoopSum._take guard of 87a46f3 hides this symptom); (b) boundary/interior: the two indices have
    different lengths, the guards compare index objects, and compilation trips an assertion."""
    from nutils import function, mesh
    msgs, fails = [], False
    with warnings.catch_warnings():
        warnings.simplefilter('ignore')
        topo, geom = mesh.rectilinear([2])
        J = function.J(geom)
        basis = topo.basis('std', degree=1)
        U = function.Argument('u', (3,))
        c = function.Argument('c', (3,))
        Gi = topo.integral(basis * c * J, degree=2)
        F = topo.integral((basis @ U) * J, degree=1)
        cv = numpy.array([1., 2., 4.])
        b = function.eval(F, dict(u=function.eval(Gi, dict(c=cv))))
        try:
            a = function.eval(function.replace_arguments(F, {'u': Gi}), dict(c=cv))
            bad = bool(abs(a - b) > 1e-9)
            msgs.append(f'(a) eval(replace(int basis@u, u: int basis*c)) = {float(a):.6g}, by value {float(b):.6g}')
        except Exception as e:
            bad = True
            msgs.append(f'(a) raised {short_exc(e)[:80]}')
        fails |= bad
        topo, geom = mesh.rectilinear([2, 1])
        J = function.J(geom)
        basis = topo.basis('std', degree=1)
        U = function.Argument('u', (6,))
        c = function.Argument('c', (6,))
        Gi = topo.integral(basis * c * J, degree=1)
        F = topo.boundary.integral((U + U) * J, degree=2)
        cv = numpy.arange(1., 7.)
        b = function.eval(F, dict(u=function.eval(Gi, dict(c=cv))))
        try:
            a = function.eval(function.replace_arguments(F, {'u': Gi}), dict(c=cv))
            bad = not numpy.allclose(a, b, rtol=1e-9)
            msgs.append(f'(b) eval(replace(boundary int (u+u), u: int basis*c)) = {a.tolist()}, by value {b.tolist()}')
        except Exception as e:
            bad = True
            msgs.append(f'(b) replace(boundary int (u+u), u: int basis*c) raised {type(e).__name__} in {traceback.extract_tb(e.__traceback__)[-1].name}')
        fails |= bad
    return fails, '; '.join(msgs)


REPRODUCERS = {MECH_KEY: repro_argument_key, MECH_CAST: repro_unsafe_cast, MECH_RAW: repro_raw_membership, MECH_LOOP: repro_loop_capture}


# ------------------------------------------------------------------ coverage

def finalize(m, tier, seed):
    c = m.counters

    def sub(prefix):
        return {k[len(prefix):]: v for k, v in sorted(c.items()) if k.startswith(prefix)}

    cov = dict(evaluations=c.get('evaluations', 0), distinct_nontrivial=len(m.sets.get('distinct', ())), rule=RULE, samples=m.samples[:3],
               cases=sub('cases/'), features=sub('feature/'), operations_used=len(m.sets.get('ops', ())), operations=sorted(m.sets.get('ops', ())),
               replace=sub('replace/'), linearize=sub('linearize/'), spellings=sub('spellings/'), factor=sub('factor/'), values=sub('values/'),
               rejection_exception_types=sorted(m.sets.get('values/rejection-exception-types', ())),
               factor_nonpoly_other_exception_types=sorted(m.sets.get('factor/nonpoly/other-exception-types', ())),
               maxima=dict(m.maxima), marginal=c.get('marginal', 0), marginal_fd=c.get('marginal-fd', 0), generator_rejected_constructions=c.get('generator/rejected-constructions', 0),
               cases_skipped_deadline=c.get('cases_skipped_deadline', 0), harness_exceptions=c.get('harness-exceptions', 0),
               watchdog_skipped=dict(total=c.get('watchdog-skipped', 0), **sub('watchdog-skipped/')),
               arguments_metadata_surprises=c.get('replace/arguments-metadata/surprise', 0) + c.get('linearize/arguments-metadata/surprise', 0)
               + c.get('factor/arguments-metadata/surprise', 0) + c.get('spellings/arguments-metadata/differs-from-dict', 0))
    n = NCASES[tier]
    ran = sum(cov['cases'].values())
    inc = None
    floor = {'replace/evaluations': .25 * n, 'replace/nested': .02 * n, 'replace/inside-integrand': .01 * n, 'linearize/fd-compared': .08 * n,
             'linearize/array-valued-with-array-argument': .02 * n, 'spellings/replace/agree': .04 * n, 'spellings/linearize/agree': .02 * n,
             'factor/evaluations': .08 * n, 'factor/derivative/argument-ndim>=3-unequal-leading-lengths': .008 * n, 'linearize/argument-ndim>=3': .004 * n,
             'replace/argument-ndim>=3': .02 * n, 'values/wrong-shape/tried': .15 * n, 'values/wider-kind/tried': .05 * n}
    low = [f'{k}={c.get(k, 0)}<{int(v)}' for k, v in floor.items() if c.get(k, 0) < v]
    kinds_needed = ['swap', 'chain', 'rename-new', 'const', 'expr-new', 'expr-self', 'integral']
    missing = [k for k in kinds_needed if not c.get('replace/kind/' + k)]
    if ran < .4 * n:
        inc = f'only {ran} of {n} cases ran before the deadline'
    elif c.get('watchdog-skipped', 0) > .02 * n:
        inc = f"{c.get('watchdog-skipped')} cases hit the {CASE_CPU_S}s per-case CPU-time watchdog"
    elif c.get('harness-exceptions', 0) > .01 * n:
        inc = f"{c.get('harness-exceptions')} harness exceptions"
    elif low:
        inc = 'monitor reach below floor: ' + ', '.join(low)
    elif missing:
        inc = 'replacement kinds never exercised: ' + ', '.join(missing)
    elif c.get('marginal', 0) > .005 * max(1, cov['evaluations']):
        inc = f"{c.get('marginal')} marginal float comparisons"
    return dict(coverage=cov, inconclusive=inc)
