"""C08 — Differential-geometric operators obey their defining identities.

Monitor shape: reference-model monitor.  Every case builds a real nutils
topology (own small generator, vlib/c08_meshes.py), a polynomial invertible
geometry x = Phi(xi) expressed in the mesh's own geometry, and random polynomial
(tensor) fields p(x).  The real operators (grad/div/curl/laplace/symgrad/
surfgrad/normal/tangent/J/jump/opposite, with and without ``spaces=``) are
evaluated through ``sample.eval`` / ``integrate`` on interior, boundary and
interface samples and compared with an independent numpy-only polynomial
oracle (vlib/c08_poly.py): exact derivatives at the physical points, exact
outward normals from the cofactor rule / facet tangents / element centroids,
exact box integrals for the change of variables and the divergence theorem.
"""

import os, json, traceback, hashlib
import numpy
from vlib.runner import Result, rng_for
from vlib import runner as _runner
from vlib import tolerance
from vlib import c08_meshes as meshes
from vlib import c08_geo as geo
from vlib.c08_poly import Poly, parray, peval, pabs, pgrad, pdet, pcompose, ptojson, pfromjson, pmaxdegree, selftest

PROPERTY = 'C08'
LEVEL = 'exploration'
RULE = ('case = (mesh spec from own generator: line / rectilinear 1-3D uniform+graded / unitsquare square,triangle,mixed,multipatch / '
        'perturbed Kuhn triangulations+tetrahedralisations through mesh.simplex with both element orientations / products topoX*topoY; '
        'each with a random history of refined / refined_by) x (geometry: random affine map of either orientation, singular values in [.6,1.8], '
        'plus quadratic/cubic perturbation with Lipschitz constant <= .5 on the normalised domain) x (random sparse polynomial scalar/vector/tensor '
        'field of degree <= 4) x (sample scheme). kinds: pointwise (interior/boundary/interface + same points located on another parametrisation), '
        'integral (closed forms, refinement invariance, divergence theorem global and element-wise), basislevel (geometry and fields expressed in a std/spline/h-/th- basis of degree 1-2 of a level-k topology, evaluated and integrated on level k+1/k+2/hierarchical/trimmed topologies, their boundaries and interfaces, with exact references and a cross-check against the original expressions), trimmed (topo.trim by planes/spheres in root or physical coordinates, maxrefine 0-2, on simplex/square/mixed meshes incl. uniformly refined ones: normals on all facets incl. the trimmed group, divergence theorem over the same trimmed topology), manifold_bnd (surface operators on boundaries/'
        'interfaces of a volume mesh), manifold_emb (codimension-1 embedding of a 1-2D mesh), product (per-space operators via spaces=). '
        'non-trivial = at least one identity with a non-constant reference was compared on >=1 point; distinct = hash of '
        '(kind, mesh spec, geometry, field, samples)')
ASSUMPTIONS = ['the oracle (vlib/c08_poly.py: sparse multivariate polynomials, numpy only) is exact up to rounding; it self-tests at worker start',
               'geometries are polynomial diffeomorphisms of box-shaped parameter domains; periodic topologies and gmsh meshes are not generated; trimmed domains have no closed-form oracle (binned cut positions): exact identities there are facet-local or compare boundary and volume integrals over the same trimmed topology',
               'curvature(), Laplace-Beltrami and integrals over curved embedded manifolds have no closed-form oracle here and are only covered through the identities they are built from',
               'float tolerance: pass <=1e-9*scale, violation >1e-5*scale (vlib.tolerance), scale = magnitude of the monomials of the reference']
BUDGET_S = {'quick': 110, 'thorough': 1500}
if os.environ.get('VERIF_C08_BUDGET'):   # development aid only (overloaded machine)
    BUDGET_S = {k: int(os.environ['VERIF_C08_BUDGET']) for k in BUDGET_S}
NCASES = {'quick': 440, 'thorough': 6000}
if os.environ.get('VERIF_C08_NCASES'):   # development aid only
    NCASES = {k: int(os.environ['VERIF_C08_NCASES']) for k in NCASES}
CHUNK = 8
KINDS = ['pointwise', 'pointwise', 'trimmed', 'integral', 'basislevel', 'manifold_bnd', 'manifold_emb', 'product']
TRI_MAXDEG, TET_MAXDEG, TENSOR_MAXDEG = 6, 7, 12


def ncases(tier):
    return _runner.scaled(NCASES[tier]) if hasattr(_runner, 'scaled') else NCASES[tier]


def plan(tier, seed):
    n = ncases(tier)
    return [dict(start=i, stop=min(n, i + CHUNK)) for i in range(0, n, CHUNK)]


# ====================================================================== helpers

class Checker:
    'records comparisons; one per executed case'

    def __init__(self, res, case):
        self.res, self.case = res, case
        self.nontrivial = False
        self.failed = False
        self.reach = None     # extra counter name incremented by every comparison (reach floors)

    def cmp(self, name, skind, obs, ref, scale=1., nontrivial=True):
        res = self.res
        obs = numpy.asarray(obs, dtype=float)
        ref = numpy.asarray(ref, dtype=float)
        res.count('ident/' + name)
        res.count(f'ident_by_sample/{skind}/{name}')
        res.count('comparisons')
        res.count('values_compared', int(ref.size))
        if self.reach:
            res.count(self.reach)
        v, det = tolerance.compare(obs, ref, scale=scale, check_kind=False)
        if ref.size and nontrivial:
            self.nontrivial = True
        if v == tolerance.PASS:
            return True
        if v == tolerance.MARGINAL:
            res.count('marginal')
            res.count('marginal/' + name)
            res.note(f'marginal {name} {skind}: {det}')
            return True
        self.failed = True
        res.violation(name, self.case, f'[{skind}] {det}; obs={obs.ravel()[:6].tolist()} ref={ref.ravel()[:6].tolist()}')
        return False

    def positive(self, name, skind, val, scale):
        'val must be > 0 (orientation tests); |val| tiny relative to scale is marginal'
        res = self.res
        val = numpy.asarray(val, dtype=float)
        scale = numpy.maximum(numpy.asarray(scale, dtype=float), 1e-300)
        res.count('ident/' + name)
        res.count(f'ident_by_sample/{skind}/{name}')
        res.count('comparisons')
        res.count('values_compared', int(val.size))
        if self.reach:
            res.count(self.reach)
        if val.size:
            self.nontrivial = True
        rel = val / scale
        if (rel > 1e-9).all():
            return True
        if (rel > -1e-9).all():
            res.count('marginal')
            res.count('marginal/' + name)
            return True
        self.failed = True
        bad = int((rel <= -1e-9).sum())
        res.violation(name, self.case, f'[{skind}] {bad}/{val.size} points have the wrong sign, min relative value {float(rel.min()):.3e}')
        return False


class Scene:
    def __init__(self, meshspec, gj, style):
        self.b = meshes.build(meshspec)
        self.topo, self.g = self.b.topo, self.b.geom
        self.gj = gj
        self.n, self.m = gj['n'], gj['m']
        self.Phi = geo.geometry_polys(gj)
        self.DPhi = pgrad(self.Phi, self.n)
        self.x = geo.nutils_geometry(gj, self.g, style)
        self.style = style

    def xs(self):
        return [self.x[i] for i in range(self.m)]


def field_ops(P, f, x, m, kw=None, nd=None, want=None):
    """dict name -> (nutils function, reference fn(X)->array, scale fn(X)->float).  P: object
    array of Poly in the physical coordinates (derivatives w.r.t. the first nd variables)."""
    from nutils import function
    kw = kw or {}
    nd = m if nd is None else nd
    S = P.shape
    dP = pgrad(P, P.flat[0].n)[..., :nd]
    ops = {}

    def sc(A, mult=1.):
        return lambda X: mult * float(pabs(A, X).max()) if len(X) else 1.
    ops['grad'] = (function.grad(f, x, **kw), lambda X: peval(dP, X), sc(dP))
    needs2 = want is None or any(w in want for w in ('laplace', 'hessian'))
    if needs2 and len(S) <= 1:
        ddP = pgrad(dP, P.flat[0].n)[..., :nd]
        lap = parray(0, S, lambda idx: sum((ddP[idx + (i, i)] for i in range(nd)), Poly(P.flat[0].n)))
        if len(S) <= 1:
            ops['laplace'] = (function.laplace(f, x, **kw), lambda X: peval(lap, X), sc(ddP, nd))
        if len(S) == 0 or (len(S) == 1 and nd < 3):
            ops['hessian'] = (function.grad(function.grad(f, x, **kw), x, **kw), lambda X: peval(ddP, X), sc(ddP))
    if S and S[-1] == nd:
        div = parray(0, S[:-1], lambda idx: sum((dP[idx + (i, i)] for i in range(nd)), Poly(P.flat[0].n)))
        ops['div'] = (function.div(f, x, **kw), lambda X: peval(div, X), sc(dP, nd))
        ops['symgrad'] = (function.symgrad(f, x, **kw), lambda X: .5 * (peval(dP, X) + numpy.swapaxes(peval(dP, X), -1, -2)), sc(dP))
        if nd == 3 and m == 3:
            def curlref(X):
                D = peval(dP, X)   # [..., i, j] = d_j f_i
                return numpy.stack([D[..., 2, 1] - D[..., 1, 2], D[..., 0, 2] - D[..., 2, 0], D[..., 1, 0] - D[..., 0, 1]], axis=-1)
            ops['curl'] = (function.curl(f, x, **kw), curlref, sc(dP, 2))
    if want is not None:
        ops = {k: v for k, v in ops.items() if k in want}
    return ops


def element_points(smp):
    return [numpy.asarray(smp.getindex(i)) for i in range(smp.nelems)]


def centroids_of(smp, G):
    return numpy.array([G[idx].mean(0) if len(idx) else numpy.full(G.shape[1], numpy.nan) for idx in element_points(smp)])


def box_faces(G, lo, hi):
    """for points on the boundary of the box: (mask of points lying on exactly one face, reference outward normals)"""
    w = hi - lo
    onlo = numpy.abs(G - lo) <= 1e-9 * w
    onhi = numpy.abs(G - hi) <= 1e-9 * w
    nfaces = onlo.sum(1) + onhi.sum(1)
    nref = onhi.astype(float) - onlo.astype(float)
    return nfaces, nref


def facet_faces(smp, G, lo, hi):
    """Per boundary ELEMENT of the sample decide from the coordinates of all its points whether it lies on a face
    of the parameter box: returns (onface, nref, offbox) per point.  A facet whose points share exactly one face
    is on that face (a vertex in a box corner then still gets the facet's own face); a facet sharing no face is
    not on the box (a trimmed cut, even if one of its vertices touches the box); anything else is left undecided."""
    w = hi - lo
    onlo = numpy.abs(G - lo) <= 1e-9 * w
    onhi = numpy.abs(G - hi) <= 1e-9 * w
    onface = numpy.zeros(len(G), dtype=bool)
    offbox = numpy.zeros(len(G), dtype=bool)
    nref = numpy.zeros(G.shape)
    for idx in element_points(smp):
        if not len(idx):
            continue
        clo, chi = onlo[idx].all(0), onhi[idx].all(0)
        k = int(clo.sum() + chi.sum())
        if k == 1:
            onface[idx] = True
            nref[idx] = chi.astype(float) - clo.astype(float)
        elif k == 0:
            offbox[idx] = True
    return onface, nref, offbox


def normalize(v):
    return v / numpy.linalg.norm(v, axis=-1, keepdims=True)


def measure_ratio(D, nu=None):
    """sqrt(det((D T)^T (D T))) per point; T = orthonormal basis of the complement of nu in parameter
    space (T = I when nu is None).  D: (npoints, m, n)."""
    out = numpy.empty(len(D))
    for k in range(len(D)):
        if nu is None:
            DT = D[k]
        else:
            u, s, vt = numpy.linalg.svd(nu[k][None, :])
            DT = D[k] @ vt[1:].T
        out[k] = numpy.sqrt(abs(numpy.linalg.det(DT.T @ DT))) if DT.shape[1] else 1.
    return out


def check_facet_normals(ck, sc, smp, skind, G, N, cent=None, ethis=None, eopp=None, D=None, exact_from_faces=True, allow_offbox=False):
    """All normal monitors on a boundary/interface sample of the scene.  N: observed normals (npoints, m)."""
    res = ck.res
    lo, hi = sc.b.lo, sc.b.hi
    if D is None:
        D = peval(sc.DPhi, G)                      # (npoints, m, n)
    ck.cmp('|n|=1', skind, numpy.linalg.norm(N, axis=1), numpy.ones(len(N)))
    # tangents from point differences on the same (flat in parameter space) facet
    if sc.n >= 2:
        worst, tscale, spanned = 0., 0., 0
        for idx in element_points(smp):
            if len(idx) < 2:
                continue
            Gk = G[idx]
            d = Gk[None, :, :] - Gk[:, None, :]           # [a,k] = G_k - G_a
            T = numpy.einsum('amn,akn->akm', D[idx], d)    # tangent vectors at point a
            dots = numpy.einsum('akm,am->ak', T, N[idx])
            worst = max(worst, float(numpy.abs(dots).max()))
            tscale = max(tscale, float(numpy.linalg.norm(T, axis=-1).max()))
            if numpy.linalg.matrix_rank(Gk[1:] - Gk[0], tol=1e-9) == sc.n - 1:
                spanned += 1
        if tscale:
            res.count('facets_with_spanning_tangents', spanned)
            ck.cmp('n.t=0', skind, [worst], [0.], scale=tscale)
    # pulled back covector: DPhi^T n is a positive multiple of the outward parameter-space normal
    cov = numpy.einsum('kmn,km->kn', D, N)
    if skind.startswith('boundary') and exact_from_faces:
        one, nref, offbox = facet_faces(smp, G, lo, hi)
        if offbox.any() and not allow_offbox:
            res.count('harness/boundary_point_not_on_box')
            res.note(f'boundary point not on the box for mesh {sc.b.desc}')
        if one.any():
            if sc.m == sc.n:
                ex = numpy.linalg.solve(numpy.swapaxes(D[one], 1, 2), nref[one][..., None])[..., 0]   # DPhi^-T n_ref
            else:
                Gm = numpy.einsum('kmi,kmj->kij', D[one], D[one])
                ex = numpy.einsum('kmi,ki->km', D[one], numpy.linalg.solve(Gm, nref[one][..., None])[..., 0])  # D G^-1 n_ref
            ck.cmp('n==exact outward normal (cofactor rule on box face)', skind, N[one], normalize(ex))
    if cent is not None and ethis is not None:
        ok = numpy.isfinite(cent[ethis]).all(1)
        v = numpy.einsum('kn,kn->k', cov, G - cent[ethis])
        s = numpy.linalg.norm(cov, axis=1) * numpy.linalg.norm(G - cent[ethis], axis=1)
        ck.positive('n points out of its element (centroid test)', skind, v[ok], s[ok])
        if eopp is not None:
            ok = numpy.isfinite(cent[eopp]).all(1)
            v = numpy.einsum('kn,kn->k', cov, G - cent[eopp])
            s = numpy.linalg.norm(cov, axis=1) * numpy.linalg.norm(G - cent[eopp], axis=1)
            ck.positive('n points into the opposite element (centroid test)', skind, -v[ok], s[ok])
    return D, cov


def try_f_index(topo, res):
    try:
        return topo.f_index
    except NotImplementedError:
        res.count('refusal/f_index NotImplementedError')
        return None


# ====================================================================== case generation

def pick_samples(rng, n, tier):
    interior = [['gauss', int(rng.integers(1, 5))], ['bezier', int(rng.integers(2, 4))], ['uniform', int(rng.integers(1, 3))]][int(rng.choice(3, p=[.6, .25, .15]))]
    if n == 3 and interior[0] != 'gauss':
        interior = ['bezier', 2]
    facet = [['gauss', int(rng.integers(2, 5))], ['bezier', 2], ['uniform', 2]][int(rng.choice(3, p=[.7, .2, .1]))]
    return dict(interior=interior, boundary=facet, interface=facet)


def random_shape(rng, m):
    if m == 3:
        return [(), (), (3,), (3,), (3,), (2,), (2, 3), (3, 3)][int(rng.integers(0, 8))]
    return [(), (), (m,), (m,), (m, m), (2,), (2, m), (m, 2)][int(rng.integers(0, 8))]


def pick_dim(rng, p=(.15, .58, .27)):
    return int(rng.choice([1, 2, 3], p=p))


def random_mesh(rng, n, tier, allow_product=True, **kw):
    if allow_product and n >= 2 and rng.random() < (.12 if n == 2 else .05):
        a = int(rng.integers(1, n))
        spec = dict(kind='product', X=meshes.random_spec(rng, a, tier, space='X', history=rng.random() < .3),
                    Y=meshes.random_spec(rng, n - a, tier, space='Y', history=rng.random() < .3))
        if n == 2 and rng.random() < .3:
            spec['history'] = [['refined']] if rng.random() < .7 else [['refined_by', [round(float(rng.random()), 4)]]]
        return spec
    return meshes.random_spec(rng, n, tier, **kw)


def spec_extent(spec):
    'bounding box of a spec without building it'
    k = spec['kind']
    if k == 'line':
        e = [meshes._extent(spec['nodes'])]
    elif k == 'rect':
        e = [meshes._extent(v) for v in spec['nodes']]
    elif k == 'unitsquare':
        e = [(0., 1.), (0., 1.)]
    elif k == 'simplex':
        e = [(0., float(v)) for v in spec['extent']]
    else:
        e = list(zip(*spec_extent(spec['X']))) + list(zip(*spec_extent(spec['Y'])))
    return [a for a, b in e], [b for a, b in e]


def spec_simplexdim(spec):
    k = spec['kind']
    if k == 'unitsquare':
        return 2 if spec['etype'] in ('triangle', 'mixed') else 0
    if k == 'simplex':
        return len(spec['shape'])
    if k == 'product':
        return max(spec_simplexdim(spec['X']), spec_simplexdim(spec['Y']))
    return 0


def spec_affine(spec):
    if spec['kind'] == 'product':
        return spec_affine(spec['X']) and spec_affine(spec['Y'])
    return not (spec['kind'] == 'unitsquare' and spec['etype'] == 'multipatch')


def alt_spec(rng, spec):
    'another parametrisation of the same box: a refinement of the same mesh or a different mesh kind'
    lo, hi = spec_extent(spec)
    n = len(lo)
    r = rng.random()
    if r < .45 or spec['kind'] == 'product':
        alt = json.loads(json.dumps(spec))
        op = ['refined'] if rng.random() < .5 else ['refined_by', [round(float(f), 4) for f in rng.random(int(rng.integers(1, 4)))]]
        if spec['kind'] == 'product' and op[0] == 'refined_by':
            op = ['refined']
        alt['history'] = (alt.get('history') or []) + [op]
        return alt, 'refinement'
    if n == 2 and lo == [0., 0.] and hi == [1., 1.] and r < .8:
        et = str(rng.choice(['square', 'triangle', 'mixed', 'multipatch']))
        return dict(kind='unitsquare', etype=et, nelems=int(rng.integers(1, 3 if et == 'multipatch' else 4))), 'other mesh kind'
    if n >= 2 and all(a == 0. for a in lo) and r < .8:
        return dict(kind='simplex', shape=[int(rng.integers(1, 3)) for _ in range(n)], extent=list(hi), seed=int(rng.integers(0, 2**31)),
                    amount=round(float(rng.uniform(0, .25)), 3)), 'other mesh kind'
    nodes = []
    for a, b in zip(lo, hi):
        k = int(rng.integers(1, 4))
        inner = numpy.sort(rng.uniform(a + .1 * (b - a), b - .1 * (b - a), k - 1))
        nodes.append([float(a)] + [round(float(v), 6) for v in inner] + [float(b)])
    alt = dict(kind='rect', nodes=nodes) if n > 1 or rng.random() < .5 else dict(kind='line', nodes=nodes[0])
    return alt, 'other nodes'


def gen_case(seed, i, tier):
    rng = rng_for(seed, 'c08', i)
    kind = KINDS[i % len(KINDS)]
    style = str(rng.choice(['power', 'mul'], p=[.7, .3]))
    case = dict(index=i, kind=kind, style=style)
    if kind == 'pointwise':
        n = pick_dim(rng)
        spec = random_mesh(rng, n, tier)
        lo, hi = spec_extent(spec)
        deg = int(rng.choice([1, 2, 3], p=[.25, .4, .35]))
        case.update(mesh=spec, geom=geo.gen_geometry(rng, lo, hi, deg), samples=pick_samples(rng, n, tier))
        k = int(rng.integers(1, 5))
        case['field'] = ptojson(geo.random_field(rng, n, random_shape(rng, n), k))
        case['vec'] = [round(float(v), 4) for v in rng.normal(size=n)]
        allops = ['div', 'symgrad', 'curl', 'laplace', 'hessian']
        case['facet_ops'] = dict(boundary=[str(rng.choice(allops))], interface=[str(rng.choice(allops))])
        case['parts'] = [['interior'], ['boundary'], ['interface']][int(rng.choice(3, p=[.4, .28, .32]))]
        if case['parts'] == ['interior'] and rng.random() < .5:
            case['alt'], case['alt_kind'] = alt_spec(rng, spec)
    elif kind == 'integral':
        n = pick_dim(rng)
        spec = random_mesh(rng, n, tier)
        lo, hi = spec_extent(spec)
        sd = spec_simplexdim(spec)
        extra = 0 if spec_affine(spec) else n
        vlim = {0: TENSOR_MAXDEG, 2: TRI_MAXDEG, 3: TET_MAXDEG}[sd]
        flim = {0: TENSOR_MAXDEG, 2: TRI_MAXDEG if spec['kind'] == 'product' else TENSOR_MAXDEG, 3: TRI_MAXDEG}[sd]   # facets of X*Y contain whole X elements
        # choose geometry degree md and field degrees so that the exact integrands fit the available Gauss schemes
        for _ in range(50):
            md = int(rng.choice([1, 2, 3], p=[.3, .4, .3]))
            kf = int(rng.integers(0, 5))
            kF = int(rng.integers(0 if rng.random() < .15 else 1, 5))
            if (kf * md + n * (md - 1) + extra <= vlim and kF * md + (n - 1) * (md - 1) + max(0, extra - 1) <= flim
                    and max(kF - 1, 0) * md + n * (md - 1) + extra <= vlim):
                break
        else:
            md, kf, kF = 1, 1, 1
        case.update(mesh=spec, geom=geo.gen_geometry(rng, lo, hi, md))
        case['f'] = ptojson(geo.random_field(rng, n, (), kf))
        if rng.random() < .12:
            F = parray(n, (n,), lambda idx: Poly.var(n, idx[0]))   # F = x: the closure / volume identities of the property record
        else:
            F = geo.random_field(rng, n, (n,), kF)
        case['F'] = ptojson(F)
        if rng.random() < .5:
            case['alt'], case['alt_kind'] = alt_spec(rng, spec)
        case['wseed'] = int(rng.integers(0, 2**31))
    elif kind == 'trimmed':
        n = int(rng.choice([2, 3], p=[.85, .15]))
        if n == 2:
            o = str(rng.choice(['simplex', 'simplex', 'unitsquare:triangle', 'unitsquare:triangle', 'unitsquare:mixed', 'unitsquare:square', 'rect']))
            spec = meshes.random_spec(rng, 2, tier, kinds=[o], history=False)
        else:
            if rng.random() < .7:
                spec = dict(kind='simplex', shape=[1, 1, 1], extent=[round(float(v), 4) for v in rng.uniform(.6, 1.6, 3)], seed=int(rng.integers(0, 2**31)),
                            amount=0.)
            else:
                spec = dict(kind='rect', nodes=[meshes.random_nodes(rng, 2) for _ in range(3)])
        # only uniform refinement before trimming (trim of a hierarchical topology is not available)
        if rng.random() < (.4 if n == 2 else .25):
            spec['history'] = [['refined']]
        maxrefine = int(rng.choice([0, 1, 2], p=[.2, .5, .3])) if n == 2 else int(rng.choice([0, 1], p=[.4, .6]))
        lo, hi = spec_extent(spec)
        # all trimmed pieces are simplices: Gauss limits of the simplex schemes apply everywhere
        vlim, flim = (TRI_MAXDEG, TENSOR_MAXDEG) if n == 2 else (TET_MAXDEG, TRI_MAXDEG)
        for _ in range(50):
            md = int(rng.choice([1, 2, 3], p=[.3, .45, .25]))
            kF = int(rng.integers(1, 4))
            if kF * md + (n - 1) * (md - 1) <= flim and (kF - 1) * md + n * (md - 1) <= vlim:
                break
        else:
            md, kF = 1, 1
        case.update(mesh=spec, geom=geo.gen_geometry(rng, lo, hi, md), maxrefine=maxrefine)
        shape = str(rng.choice(['plane', 'sphere']))
        coords = str(rng.choice(['root', 'phys'], p=[.65, .35]))
        d = rng.normal(size=n)
        ls = dict(shape=shape, coords=coords, sign=float(rng.choice([-1., 1.])), p0=[round(float(v), 4) for v in rng.uniform(-.35, .35, n)],
                  a=[round(float(v), 5) for v in d / numpy.linalg.norm(d)], r=round(float(rng.uniform(.4, .85)), 4))
        case['levelset'] = ls
        case['facet'] = ['gauss', int(rng.integers(2, 4))]
        case['field'] = ptojson(geo.random_field(rng, n, random_shape(rng, n)[:1], int(rng.integers(1, 4))))
        case['F'] = ptojson(geo.random_field(rng, n, (n,), kF))
        case['wseed'] = int(rng.integers(0, 2**31))
    elif kind == 'basislevel':
        n = int(rng.choice([1, 2, 3], p=[.15, .6, .25]))
        spec = meshes.random_spec(rng, n, tier, kinds=['line', 'rect', 'simplex', 'unitsquare:square', 'unitsquare:triangle', 'unitsquare:mixed'], history=False)
        if n == 3:   # keep the level k+2 meshes small
            spec = dict(kind='rect', nodes=[meshes.random_nodes(rng, 2) for _ in range(3)]) if spec['kind'] == 'rect' else \
                dict(kind='simplex', shape=[1, 1, 1], extent=spec['extent'], seed=spec['seed'], amount=spec['amount'])
        structured = spec['kind'] in ('line', 'rect') or spec.get('etype') == 'square'
        uniform = structured and (spec['kind'] == 'unitsquare' or all(isinstance(v, int) for v in (spec['nodes'] if spec['kind'] == 'rect' else [spec['nodes']])))
        # the topology the basis lives on: level 0, level 1, or a hierarchical refinement
        bh = [[], [['refined']], [['refined_by', [round(float(f), 4) for f in rng.random(int(rng.integers(1, 3)))]]]][int(rng.choice(3, p=[.3, .45, .25]))]
        if n == 3 and bh and bh[0][0] == 'refined' and rng.random() < .5:
            bh = []
        d = int(rng.choice([1, 2]))
        btype = 'spline' if uniform and rng.random() < .4 else 'std'
        # the finer topology the functions are evaluated on
        fr = lambda: [round(float(f), 4) for f in rng.random(int(rng.integers(1, 4)))]
        opts = [[['refined']], [['refined'], ['refined']], [['refined_by', fr()]], [['refined'], ['refined_by', fr()]]]
        p = [.4, .2, .2, .2] if n < 3 else [.6, .0, .3, .1]
        eh = opts[int(rng.choice(4, p=p))]
        lo, hi = spec_extent(spec)
        gd = int(rng.integers(1, d + 1))
        case.update(mesh=spec, basis_hist=bh, eval_hist=eh, btype=btype, bdegree=d, geom=geo.gen_geometry(rng, lo, hi, gd))
        # trim only uniformly refined levels (trim of a hierarchical topology has no boundary/interfaces: not C08's subject)
        if n == 2 and rng.random() < .3 and all(op[0] == 'refined' for op in bh + eh):
            dd = rng.normal(size=2)
            case['trim'] = dict(shape='plane', coords='root', sign=float(rng.choice([-1., 1.])), p0=[round(float(v), 4) for v in rng.uniform(-.35, .35, 2)],
                                a=[round(float(v), 5) for v in dd / numpy.linalg.norm(dd)], r=.5, maxrefine=int(rng.integers(0, 2)))
        case['field'] = ptojson(geo.random_field(rng, n, random_shape(rng, n)[:1], d))
        case['F'] = ptojson(geo.random_field(rng, n, (n,), d))
        case['samples'] = pick_samples(rng, n, tier)
        case['parts'] = [['interior'], ['boundary'], ['interface'], ['integral']][int(rng.choice(4, p=[.3, .25, .15, .3]))]
    elif kind == 'manifold_bnd':
        n = int(rng.choice([2, 3], p=[.6, .4]))
        spec = random_mesh(rng, n, tier)
        lo, hi = spec_extent(spec)
        deg = int(rng.choice([1, 2, 3], p=[.25, .4, .35]))
        case.update(mesh=spec, geom=geo.gen_geometry(rng, lo, hi, deg))
        case['facet'] = [['gauss', int(rng.integers(2, 5))], ['bezier', 2], ['uniform', 2]][int(rng.choice(3, p=[.7, .2, .1]))]
        case['field'] = ptojson(geo.random_field(rng, n, random_shape(rng, n)[:1], int(rng.integers(1, 5))))
        case['F'] = ptojson(geo.random_field(rng, n, (n,), int(rng.integers(1, 4))))
        case['on'] = str(rng.choice(['boundary', 'boundary', 'interfaces']))
    elif kind == 'manifold_emb':
        n = int(rng.choice([1, 2], p=[.35, .65]))
        spec = meshes.random_spec(rng, n, tier)
        lo, hi = spec_extent(spec)
        flat = bool(rng.random() < .4)
        sd = spec_simplexdim(spec)
        deg = int(rng.choice([1, 2, 3], p=[.25, .4, .35]))
        kF = int(rng.integers(1, 4))
        if flat:
            extra = 0 if spec_affine(spec) else n
            lim = TRI_MAXDEG if sd else TENSOR_MAXDEG
            while deg > 1 and max(kF, 1) * deg + n * (deg - 1) + extra > lim:
                deg -= 1
            while kF > 1 and kF * deg + n * (deg - 1) + extra > lim:
                kF -= 1
        case.update(mesh=spec, geom=geo.gen_geometry(rng, lo, hi, deg, emb=1, flat=flat, amode='general' if rng.random() < .8 else None))
        case['samples'] = pick_samples(rng, n, tier)
        case['parts'] = [['interior'], ['boundary'], ['interface'], ['integral']][int(rng.choice(4, p=[.35, .25, .15, .25]))] if flat else \
            [['interior'], ['boundary'], ['interface']][int(rng.choice(3, p=[.45, .35, .2]))]
        case['field'] = ptojson(geo.random_field(rng, n + 1, random_shape(rng, n + 1)[:1], int(rng.integers(1, 5))))
        case['F'] = ptojson(geo.random_field(rng, n + 1, (n + 1,), kF))
    elif kind == 'product':
        a = int(rng.choice([1, 2], p=[.6, .4]))
        b = int(rng.choice([1, 2], p=[.8, .2])) if a == 1 else 1
        X = meshes.random_spec(rng, a, tier, space='X', history=rng.random() < .4)
        Y = meshes.random_spec(rng, b, tier, space='Y', history=rng.random() < .4)
        opspace = str(rng.choice(['X', 'Y']))
        S, O = (X, Y) if opspace == 'X' else (Y, X)
        ns, no = (a, b) if opspace == 'X' else (b, a)
        lo, hi = spec_extent(S)
        sd = spec_simplexdim(S)
        extra = 0 if spec_affine(S) and spec_affine(O) else 2
        lim = TRI_MAXDEG if max(sd, spec_simplexdim(O)) else TENSOR_MAXDEG
        md = int(rng.choice([1, 2, 3], p=[.3, .4, .3]))
        kF = int(rng.integers(1, 4))
        mdeg = int(rng.integers(0, 3))   # degree of the O-dependence of the geometry
        while md > 1 and kF * (md + mdeg) + ns * (md - 1 + mdeg) + extra > lim:
            md -= 1
        while mdeg > 0 and kF * (md + mdeg) + ns * (md - 1 + mdeg) + extra > lim:
            mdeg -= 1
        while kF > 1 and kF * (md + mdeg) + ns * (md - 1 + mdeg) + extra > lim:
            kF -= 1
        case.update(mesh=dict(kind='product', X=X, Y=Y), opspace=opspace, geom=geo.gen_geometry(rng, lo, hi, md))
        # M(eta) = I + E(eta), |E|_inf <= .4 on the normalised O box; s(eta) shift
        olo, ohi = spec_extent(O)
        E = parray(no, (ns, ns), lambda idx: Poly(no))
        s = parray(no, (ns,), lambda idx: Poly(no))
        if mdeg:
            for i_ in range(ns):
                w = rng.dirichlet(numpy.ones(ns)) * .4 * rng.uniform(.3, 1.)
                for j_ in range(ns):
                    e = numpy.zeros(no, dtype=int)
                    for _ in range(int(rng.integers(1, mdeg + 1))):
                        e[rng.integers(0, no)] += 1
                    E[i_, j_] = Poly(no, {tuple(e): round(float(rng.choice([-1, 1]) * w[j_]), 6)})
                e = numpy.zeros(no, dtype=int)
                for _ in range(int(rng.integers(1, mdeg + 1))):
                    e[rng.integers(0, no)] += 1
                s[i_] = Poly(no, {tuple(e): round(float(rng.uniform(-1, 1)), 6)})
        case['E'] = ptojson(E)
        case['s'] = ptojson(s)
        case['oc'] = [(p + q) / 2 for p, q in zip(olo, ohi)]
        case['oh'] = [(q - p) / 2 for p, q in zip(olo, ohi)]
        case['field'] = ptojson(geo.random_field(rng, ns + no, random_shape(rng, ns)[:1], int(rng.integers(1, 4))))
        case['F'] = ptojson(geo.random_field(rng, ns + no, (ns,), kF))
        case['samples'] = pick_samples(rng, a + b, tier)
        case['parts'] = [['interior'], ['boundary'], ['integral']][int(rng.choice(3, p=[.35, .3, .35]))]
    return case


# ====================================================================== execution

def case_hash(case):
    c = {k: v for k, v in case.items() if k != 'index'}
    return hashlib.sha1(json.dumps(c, sort_keys=True).encode()).hexdigest()[:16]


def tags(case, res, sc=None):
    spec = case['mesh']

    def mk(s):
        if s['kind'] == 'product':
            return f"product({mk(s['X'])}*{mk(s['Y'])})"
        return s['kind'] + (':' + s['etype'] if 'etype' in s else '')
    gj = case['geom']
    orient = 'n/a'
    if gj['n'] == gj['m']:
        orient = 'reversing' if numpy.linalg.det(numpy.asarray(gj['A'])) < 0 else 'preserving'
    gk = f"{gj['amode']}-deg{gj['degree'] if any(gj['r']) else 1}-{orient}" + ('-flat' if gj.get('flat') else '')
    fdeg = pmaxdegree(pfromjson(case['field'] if 'field' in case else case['F']))
    res.add('triples', f"{mk(spec)}|{meshes.history_tag(spec)}|dim{gj['n']}->{gj['m']}|{gk}|fielddeg{fdeg}")
    res.add('mesh_kinds', f"{mk(spec)}|{meshes.history_tag(spec)}")
    res.add('geometry_kinds', gk)
    res.count('orientation/' + orient)
    res.count('dim/%d' % gj['n'])
    res.count('kind/' + case['kind'])


def execute(case, res):
    res.count('evaluations')
    ck = Checker(res, case)
    try:
        try:
            {'pointwise': run_pointwise, 'integral': run_integral, 'manifold_bnd': run_manifold_bnd,
             'manifold_emb': run_manifold_emb, 'product': run_product, 'trimmed': run_trimmed, 'basislevel': run_basislevel}[case['kind']](case, ck)
        except meshes.Refused as e:
            res.count('refusal/' + str(e)[:80])
            res.count('cases_refused')
        except NotImplementedError as e:
            # documented refusal: counted, never a violation
            fr = traceback.extract_tb(e.__traceback__)[-1]
            res.count(f'refusal/NotImplementedError in {fr.name} ({case["kind"]})')
            res.count('cases_refused')
    except Exception:
        # an exception out of nutils on a valid case is an observation against the property (operators must evaluate)
        tb = traceback.format_exc()
        res.violation('exception while evaluating operators', case, tb[-1800:])
        ck.failed = True
    if ck.nontrivial:
        res.add('distinct', case_hash(case))
        tags(case, res)
    return ck


def eval_named(smp, named):
    'evaluate a dict name->function jointly'
    keys = list(named)
    vals = smp.eval([named[k] for k in keys])
    return dict(zip(keys, vals))


def run_pointwise(case, ck):
    from nutils import function
    res = ck.res
    sc = Scene(case['mesh'], case['geom'], case['style'])
    n = sc.n
    P = pfromjson(case['field'])
    f = geo.nutils_parray(P, sc.xs(), case['style'])
    ops = field_ops(P, f, sc.x, n)
    topo, g, x = sc.topo, sc.g, sc.x
    Jx, Jg = function.J(x), function.J(g)

    # documented refusal: curl outside 3D
    if n != 3:
        try:
            function.curl(numpy.stack([x[0]] * 3), x)
            res.violation('curl accepted a non-3D geometry', case, 'no ValueError')
        except ValueError:
            res.count('refusal/curl needs a 3D geometry (ValueError)')

    # ---- interior
    parts = case['parts']
    smp = topo.sample(*case['samples']['interior'])
    if 'interior' in parts:
        named = dict(g=g, x=x, Jx=Jx, Jg=Jg)
        named.update({k: v[0] for k, v in ops.items()})
        V = eval_named(smp, named)
        G = V['g']
        X = peval(sc.Phi, G)
        res.count('points/interior', len(G))
        ck.cmp('x==Phi(g)', 'interior', V['x'], X, scale=float(pabs(sc.Phi, G).max()), nontrivial=False)
        for k, (fn, ref, scl) in ops.items():
            ck.cmp(k, 'interior', V[k], ref(X), scale=scl(X))
        D = peval(sc.DPhi, G)
        ck.cmp('J(x)==|det DPhi| J(g)', 'interior', V['Jx'], numpy.abs(numpy.linalg.det(D)) * V['Jg'])
        interior_vals = V
    else:
        G = smp.eval(g)     # only the element centroids are needed
    cent = centroids_of(smp, G)

    # ---- boundary and interfaces
    fidx = try_f_index(topo, res)
    vec = numpy.asarray(case['vec'])
    for skind in ('boundary', 'interface'):
        if skind not in parts:
            continue
        ftopo = topo.boundary if skind == 'boundary' else topo.interfaces
        if len(ftopo) == 0:
            res.count(f'empty/{skind}')
            continue
        smp = ftopo.sample(*case['samples'][skind])
        nrm = function.normal(x)
        named = dict(g=g, x=x, n=nrm, Jx=Jx, Jg=Jg, tangent=function.tangent(x, vec))
        fops = {k: v for k, v in ops.items() if k == 'grad' or k in case['facet_ops'][skind]}
        named.update({k: v[0] for k, v in fops.items()})
        named['ngrad'] = function.ngrad(f, x)
        if P.shape and P.shape[-1] == n:
            named['dotnorm'] = function.dotnorm(f, x)
        if fidx is not None:
            named['ethis'] = fidx
        if skind == 'interface':
            named['nopp'] = function.opposite(nrm)
            named['jumpx'] = function.jump(x)
            named['jumpgrad'] = function.jump(ops['grad'][0])
            if fidx is not None:
                named['eopp'] = function.opposite(fidx)
        V = eval_named(smp, named)
        G = V['g']
        X = peval(sc.Phi, G)
        N = V['n']
        res.count(f'points/{skind}', len(G))
        ck.cmp('x==Phi(g)', skind, V['x'], X, scale=float(pabs(sc.Phi, G).max()), nontrivial=False)
        for k, (fn, ref, scl) in fops.items():
            ck.cmp(k, skind, V[k], ref(X), scale=scl(X))
        D, cov = check_facet_normals(ck, sc, smp, skind, G, N, cent, V.get('ethis'), V.get('eopp'))
        nu = normalize(cov)
        ck.cmp('J(x)==|cof DPhi nu| J(g)', skind, V['Jx'], measure_ratio(D, nu) * V['Jg'])
        gref = ops['grad'][1](X)
        gs = ops['grad'][2](X)
        ck.cmp('ngrad==p\'(x).n', skind, V['ngrad'], numpy.einsum('k...i,ki->k...', gref, N), scale=gs)
        if 'dotnorm' in V:
            ck.cmp('dotnorm==p(x).n', skind, V['dotnorm'], numpy.einsum('k...i,ki->k...', peval(P, X), N), scale=float(pabs(P, X).max()))
        tg = V['tangent']
        ck.cmp('tangent(x,v).n=0', skind, numpy.einsum('ki,ki->k', tg, N), numpy.zeros(len(N)), scale=float(numpy.abs(vec).max()))
        ck.cmp('tangent(x,v)==v-(v.n)n', skind, tg, vec - (N @ vec)[:, None] * N, scale=float(numpy.abs(vec).max()))
        if skind == 'interface':
            ck.cmp('n+opposite(n)=0', skind, N + V['nopp'], numpy.zeros_like(N))
            ck.cmp('jump(x)=0', skind, V['jumpx'], numpy.zeros_like(X), scale=float(pabs(sc.Phi, G).max()))
            ck.cmp('jump(grad p)=0', skind, V['jumpgrad'], numpy.zeros_like(gref), scale=gs)

    # ---- the same physical points on another parametrisation of the same domain
    if 'alt' in case and 'interior' in parts:
        try:
            sc2 = Scene(case['alt'], case['geom'], case['style'])
        except meshes.Refused as e:
            res.count('refusal/' + str(e)[:80])
            return
        names = [k for k in ('grad', case['facet_ops']['boundary'][0]) if k in ops]
        sel = numpy.unique(numpy.linspace(0, len(interior_vals['g']) - 1, 24).astype(int))
        V0 = {k: interior_vals[k][sel] for k in ['g'] + names}
        G0 = V0['g']
        try:
            smp2 = sc2.topo.locate(sc2.g, G0, tol=1e-10, eps=1e-10)
        except Exception as e:
            res.count('refusal/locate failed: ' + type(e).__name__)
            res.note('locate failed: ' + str(e)[:200])
            return
        f2 = geo.nutils_parray(P, sc2.xs(), case['style'])
        ops2 = field_ops(P, f2, sc2.x, n, want=names)
        V2 = eval_named(smp2, dict(g=sc2.g, x=sc2.x, **{k: ops2[k][0] for k in names}))
        res.count('points/located', len(G0))
        res.count('alt/' + case['alt_kind'])
        ck.cmp('located points coincide', 'located', V2['g'], G0, scale=float(numpy.abs(G0).max()), nontrivial=False)
        X2 = peval(sc.Phi, V2['g'])
        for k in names:
            scl = ops[k][2](X2)
            # the located points agree to ~1e-11 only: compare against the oracle at the located points, and the two
            # parametrisations with a scale that accounts for the field's variation over that distance
            ck.cmp(k, 'located', V2[k], ops[k][1](X2), scale=scl)
            ck.cmp(f'{k}: same on both parametrisations', 'located', V2[k], V0[k], scale=scl * 100)


def abs_integral_bound(p, lo, hi):
    'upper bound of int |monomials| over the box: the magnitude entering the cancellations of the exact integral'
    mx = numpy.maximum(numpy.abs(lo), numpy.abs(hi))
    vol = float(numpy.prod(hi - lo))
    return max(1., vol * sum(abs(c) * float(numpy.prod(mx**numpy.array(e))) for e, c in p.terms.items()))


def integral_degree(p, extra):
    return max(0, p.degree()) + extra


def box_probe_points(lo, hi, k=3):
    'a small grid of parameter points covering the box incl. its boundary (oracle-side magnitude estimates)'
    axes = [numpy.linspace(a, b, k) for a, b in zip(lo, hi)]
    return numpy.stack(numpy.meshgrid(*axes, indexing='ij'), -1).reshape(-1, len(lo))


def run_integral(case, ck):
    from nutils import function
    res = ck.res
    sc = Scene(case['mesh'], case['geom'], case['style'])
    n = sc.n
    topo, g, x = sc.topo, sc.g, sc.x
    lo, hi = sc.b.lo, sc.b.hi
    extra = 0 if sc.b.affine else n
    vlim = {0: 10**6, 1: 10**6, 2: TRI_MAXDEG, 3: TET_MAXDEG}[sc.b.simplexdim]
    flim = {0: 10**6, 1: 10**6, 2: TRI_MAXDEG if hasattr(sc.b, 'factors') else 10**6, 3: TRI_MAXDEG}[sc.b.simplexdim]   # facets of X*Y contain whole X elements
    f0 = pfromjson(case['f'])[()]
    F = pfromjson(case['F'])
    detD = pdet(sc.DPhi)
    sgn = 1. if detD((lo + hi)[None] / 2)[0] > 0 else -1.
    Jx = function.J(x)
    fx = geo.nutils_poly(f0, sc.xs(), case['style'])
    Fx = geo.nutils_parray(F, sc.xs(), case['style'])
    nrm = function.normal(x)

    # exact values (oracle)
    integrand = f0.compose(list(sc.Phi)) * detD * sgn            # (3) change of variables
    exact_f = integrand.integrate_box(lo, hi)
    scale_f = abs_integral_bound(integrand, lo, hi)
    dF = pgrad(F, n)
    divF = sum((dF[i, i] for i in range(n)), Poly(n))
    vint = divF.compose(list(sc.Phi)) * detD * sgn                # (4) divergence theorem
    exact_div = vint.integrate_box(lo, hi)
    exact_vol = (detD * sgn).integrate_box(lo, hi)
    Fphi = pcompose(F, list(sc.Phi))
    geomdeg = pmaxdegree(sc.Phi)
    deg_f = integral_degree(integrand, extra)
    bdeg = max(0, pmaxdegree(Fphi)) + (n - 1) * max(0, geomdeg - 1) + max(0, extra - 1)
    vdeg = max(integral_degree(vint, extra), integral_degree(detD, extra))
    do_f = deg_f <= vlim
    do_div = bdeg <= flim and vdeg <= vlim
    if not do_f:
        res.count('skipped/volume integrand beyond available Gauss degree')
    if not do_div:
        res.count('skipped/divergence integrand beyond available Gauss degree')
    if not (do_f or do_div):
        return
    Xp = peval(sc.Phi, box_probe_points(lo, hi))
    Fmag = float(pabs(F, Xp).max())
    dFmag = float(pabs(dF, Xp).max())

    basis = None
    if do_div:
        try:
            basis = topo.basis('discont', degree=0)
            w = basis @ numpy.random.default_rng(case['wseed']).uniform(.5, 2., len(basis))
        except (NotImplementedError, ValueError, AssertionError) as e:
            res.count(f'refusal/discont basis: {type(e).__name__}')
            basis = None

    # one volume evaluation, one boundary evaluation, one interface evaluation
    vfuncs = dict(vol=Jx)
    if do_f:
        vfuncs['f'] = fx * Jx
    if do_div:
        vfuncs['div'] = function.div(Fx, x) * Jx
        if basis is not None:
            vfuncs['wdiv'] = w * function.div(Fx, x) * Jx
    degv = max([deg_f] * do_f + [vdeg] * do_div)
    res.maximum('max_gauss_degree', degv)
    keys = list(vfuncs)
    VI = dict(zip(keys, topo.integrate([vfuncs[k] for k in keys], degree=degv)))
    if do_f:
        ck.cmp('int f(x) J == closed form', 'interior', [VI['f']], [exact_f], scale=scale_f)
        try:
            if 'alt' not in case:
                raise meshes.Refused('no alt')
            sc2 = Scene(case['alt'], case['geom'], case['style'])
            ex2 = 0 if sc2.b.affine else n
            lim2 = {0: 10**6, 1: 10**6, 2: TRI_MAXDEG, 3: TET_MAXDEG}[sc2.b.simplexdim]
            d2 = integral_degree(integrand, ex2)
            if d2 <= lim2:
                f2 = geo.nutils_poly(f0, sc2.xs(), case['style'])
                I2 = sc2.topo.integrate(f2 * function.J(sc2.x), degree=d2)
                ck.cmp('int f(x) J: same on both parametrisations', 'interior', [I2], [VI['f']], scale=scale_f)
                ck.cmp('int f(x) J == closed form', 'interior(alt)', [I2], [exact_f], scale=scale_f)
                res.count('alt/' + case['alt_kind'])
            else:
                res.count('skipped/alt integrand beyond available Gauss degree')
        except meshes.Refused as e:
            if str(e) != 'no alt':
                res.count('refusal/' + str(e)[:80])
    ck.cmp('int J == closed form volume', 'interior', [VI['vol']], [exact_vol])
    if not do_div:
        return
    res.maximum('max_gauss_degree', bdeg)
    bnd = topo.boundary
    bfuncs = dict(B=(Fx @ nrm) * Jx, area=Jx)
    if basis is not None:
        bfuncs['wB'] = w * (Fx @ nrm) * Jx
    keys = list(bfuncs)
    BI = dict(zip(keys, bnd.integrate([bfuncs[k] for k in keys], degree=bdeg)))
    dscale = max(1., Fmag * abs(BI['area']), abs(VI['vol']) * dFmag * n)
    ck.cmp('divergence theorem: boundary integral == closed form of int div F', 'boundary', [BI['B']], [exact_div], scale=dscale)
    ck.cmp('divergence theorem: volume integral == closed form of int div F', 'interior', [VI['div']], [exact_div], scale=dscale)
    if basis is None:
        return
    # element-wise divergence theorem with random piecewise constant weights (uses interface normals and jumps)
    ifc = topo.interfaces
    t2 = 0.
    if len(ifc):
        t2, isz = ifc.integrate([function.jump(w * Fx) @ nrm * Jx, Jx], degree=bdeg)
        dscale = max(dscale, Fmag * abs(isz) * 2)
    ck.cmp('element-wise divergence theorem (boundary - interface jumps - volume == 0)', 'interface' if len(ifc) else 'boundary',
           [BI['wB'] - t2 - VI['wdiv']], [0.], scale=dscale * 2)


def surface_checks(ck, skind, V, X, Nproj, P, F, m):
    """shared by both manifold kinds.  V: evaluated nutils values with keys sg (surfgrad f), sgx (surfgrad x),
    sdiv (div(F,x,-1)); Nproj: unit normals used for the projector (npoints, m)."""
    dP = pgrad(P, m)
    gref = peval(dP, X)
    gs = float(pabs(dP, X).max()) if len(X) else 1.
    Pr = numpy.eye(m) - numpy.einsum('ki,kj->kij', Nproj, Nproj)
    sg = V['sg']
    ck.cmp('n.surfgrad f=0', skind, numpy.einsum('k...i,ki->k...', sg, Nproj), numpy.zeros(sg.shape[:-1]), scale=gs)
    ck.cmp('surfgrad f==(I-nn^T) p\'(x)', skind, sg, numpy.einsum('k...j,kij->k...i', gref, Pr), scale=gs)
    ck.cmp('surfgrad x==I-nn^T', skind, V['sgx'], Pr)
    dF = pgrad(F, m)
    dFv = peval(dF, X)
    ck.cmp('surface div F==tr((I-nn^T) F\'(x))', skind, V['sdiv'], numpy.einsum('kij,kji->k', dFv, Pr), scale=float(pabs(dF, X).max()) * m if len(X) else 1.)


def run_manifold_bnd(case, ck):
    from nutils import function
    res = ck.res
    sc = Scene(case['mesh'], case['geom'], case['style'])
    n = sc.n
    topo, g, x = sc.topo, sc.g, sc.x
    P = pfromjson(case['field'])
    F = pfromjson(case['F'])
    f = geo.nutils_parray(P, sc.xs(), case['style'])
    Fx = geo.nutils_parray(F, sc.xs(), case['style'])
    man = topo.boundary if case['on'] == 'boundary' else topo.interfaces
    skind = 'boundary' if case['on'] == 'boundary' else 'interface'
    if len(man) == 0:
        res.count(f'empty/{skind}')
        return
    smp = man.sample(*case['facet'])
    nrm = function.normal(x)
    fullgrad = function.grad(f, x)
    named = dict(g=g, n=nrm, sg=function.surfgrad(f, x), sgx=function.surfgrad(x, x), sdiv=function.div(Fx, x, -1), fullgrad=fullgrad,
                 sg_method=function.grad(f, x, n - 1))
    V = eval_named(smp, named)
    G = V['g']
    X = peval(sc.Phi, G)
    N = V['n']
    res.count(f'points/manifold-{skind}', len(G))
    check_facet_normals(ck, sc, smp, skind, G, N)
    surface_checks(ck, 'manifold-' + skind, V, X, N, P, F, n)
    Pr = numpy.eye(n) - numpy.einsum('ki,kj->kij', N, N)
    gs = float(pabs(pgrad(P, n), X).max())
    ck.cmp('surfgrad f==projected nutils grad', 'manifold-' + skind, V['sg'], numpy.einsum('k...j,kij->k...i', V['fullgrad'], Pr), scale=gs)
    ck.cmp('grad(f,x,ndims=n-1)==surfgrad', 'manifold-' + skind, V['sg_method'], V['sg'], scale=gs)


def run_manifold_emb(case, ck):
    from nutils import function
    res = ck.res
    sc = Scene(case['mesh'], case['geom'], case['style'])
    n, m = sc.n, sc.m
    topo, g, x = sc.topo, sc.g, sc.x
    lo, hi = sc.b.lo, sc.b.hi
    P = pfromjson(case['field'])
    F = pfromjson(case['F'])
    f = geo.nutils_parray(P, sc.xs(), case['style'])
    Fx = geo.nutils_parray(F, sc.xs(), case['style'])
    Next = function.normal(x, refgeom=g)
    Jx, Jg = function.J(x), function.J(g)

    def oracle_normal(D):
        if n == 1:
            t = D[:, :, 0]
            return normalize(numpy.stack([t[:, 1], -t[:, 0]], axis=1))
        return normalize(numpy.cross(D[:, :, 0], D[:, :, 1]))

    # interior of the manifold
    parts = case['parts']
    smp = topo.sample(*case['samples']['interior'])
    if 'interior' in parts:
        named = dict(g=g, x=x, N=Next, sg=function.surfgrad(f, x), sgx=function.surfgrad(x, x), sdiv=function.div(Fx, x, -1), Jx=Jx, Jg=Jg)
        V = eval_named(smp, named)
        G = V['g']
        X = peval(sc.Phi, G)
        D = peval(sc.DPhi, G)
        res.count('points/manifold-interior', len(G))
        ck.cmp('x==Phi(g)', 'manifold-interior', V['x'], X, scale=float(pabs(sc.Phi, G).max()), nontrivial=False)
        No = oracle_normal(D)
        ck.cmp('|N_exterior|=1', 'manifold-interior', numpy.linalg.norm(V['N'], axis=1), numpy.ones(len(G)))
        ck.cmp('N_exterior.t=0', 'manifold-interior', numpy.einsum('km,kmn->kn', V['N'], D), numpy.zeros((len(G), n)), scale=float(numpy.abs(D).max()))
        sign = numpy.sign(numpy.einsum('km,km->k', V['N'], No))
        res.count('exterior_normal_sign/' + ('consistent' if abs(sign.sum()) == len(sign) else 'mixed'))
        ck.cmp('N_exterior==+-normalised cross product of the tangents', 'manifold-interior', V['N'] * sign[:, None], No)
        surface_checks(ck, 'manifold-interior', V, X, No, P, F, m)
        ck.cmp('J(x)==sqrt det(DPsi^T DPsi) J(g)', 'manifold-interior', V['Jx'], measure_ratio(D) * V['Jg'])
    else:
        G = smp.eval(g)
    cent = centroids_of(smp, G)

    # boundary of the manifold: co-normal
    fidx = try_f_index(topo, res)
    for skind in ('boundary', 'interface'):
        if skind not in parts:
            continue
        ftopo = topo.boundary if skind == 'boundary' else topo.interfaces
        if len(ftopo) == 0:
            res.count(f'empty/{skind}')
            continue
        fs = ftopo.sample(*case['samples'][skind])
        nu = function.normal(x)
        named = dict(g=g, nu=nu, N=Next, Jx=Jx, Jg=Jg)
        if fidx is not None:
            named['ethis'] = fidx
            if skind == 'interface':
                named['eopp'] = function.opposite(fidx)
        if skind == 'interface':
            named['nuopp'] = function.opposite(nu)
        Vb = eval_named(fs, named)
        Gb = Vb['g']
        Db = peval(sc.DPhi, Gb)
        res.count(f'points/manifold-{skind}', len(Gb))
        _, cov = check_facet_normals(ck, sc, fs, skind, Gb, Vb['nu'], cent, Vb.get('ethis'), Vb.get('eopp'), D=Db)
        ck.cmp('conormal.N_exterior=0', skind, numpy.einsum('km,km->k', Vb['nu'], oracle_normal(Db)), numpy.zeros(len(Gb)))
        ck.cmp('J(x)==facet measure ratio J(g)', skind, Vb['Jx'], measure_ratio(Db, normalize(cov)) * Vb['Jg'])
        if skind == 'interface':
            ck.cmp('n+opposite(n)=0', skind, Vb['nu'] + Vb['nuopp'], numpy.zeros_like(Vb['nu']))

    # flat manifolds: exact area integral and divergence theorem in the plane
    if case['geom']['flat'] and 'integral' in parts:
        extra = 0 if sc.b.affine else n
        lim = {0: 10**6, 1: 10**6, 2: TRI_MAXDEG}[sc.b.simplexdim]
        A = numpy.asarray(case['geom']['A'])
        C = A[:, :n]
        Nplane = oracle_normal(C[None])[0]
        Pr = numpy.eye(m) - numpy.outer(Nplane, Nplane)
        # in-plane map xi -> xh + r(xh): measure = sqrt(det C^T C) |det D(inner)|
        inner = [(Poly.var(n, i) + Poly.fromjson(n, case['geom']['r'][i])) for i in range(n)]
        xh = [(Poly.var(n, i) - case['geom']['c'][i]) * (1. / case['geom']['h'][i]) for i in range(n)]
        inner = numpy.array([p.compose(xh) for p in inner], dtype=object)
        detin = pdet(pgrad(inner, n))
        sgn = 1. if detin((lo + hi)[None] / 2)[0] > 0 else -1.
        meas = detin * (sgn * float(numpy.sqrt(numpy.linalg.det(C.T @ C))))
        dF = pgrad(F, m)
        sdiv = sum((dF[i, j] * float(Pr[j, i]) for i in range(m) for j in range(m) if Pr[j, i]), Poly(m))
        vint = sdiv.compose(list(sc.Phi)) * meas
        exact = vint.integrate_box(lo, hi)
        vdeg = integral_degree(vint, extra)
        bdeg = max(0, pmaxdegree(pcompose(F, list(sc.Phi)))) + (n - 1) * max(0, pmaxdegree(sc.Phi) - 1) + max(0, extra - 1)
        if vdeg > lim:
            res.count('skipped/manifold integrand beyond available Gauss degree')
            return
        res.maximum('max_gauss_degree', max(vdeg, bdeg))
        Vv, area = topo.integrate([function.div(Fx, x, -1) * Jx, Jx], degree=max(vdeg, integral_degree(meas, extra)))
        B, length = topo.boundary.integrate([(Fx @ function.normal(x)) * Jx, Jx], degree=bdeg)
        bs = topo.boundary.sample('gauss', 1)
        Xb = peval(sc.Phi, bs.eval(g))
        dscale = max(1., float(pabs(F, Xb).max()) * abs(length), float(pabs(dF, Xb).max()) * abs(area) * m)
        ck.cmp('area of flat manifold == closed form', 'manifold-interior', [area], [meas.integrate_box(lo, hi)])
        ck.cmp('divergence theorem on flat manifold: surface integral == closed form', 'manifold-interior', [Vv], [exact], scale=dscale)
        ck.cmp('divergence theorem on flat manifold: conormal boundary integral == closed form', 'boundary', [B], [exact], scale=dscale)


def levelset_poly(ls, gj, Phi):
    """oracle: the level set as a Poly in the root-geometry variables.  'root': in the normalised box coordinates
    xh=(g-c)/h; 'phys': in the physical coordinates x=Phi(g), centred at Phi(p0)."""
    n = gj['n']
    c, h = numpy.asarray(gj['c']), numpy.asarray(gj['h'])
    p0 = numpy.asarray(ls['p0'])
    if ls['coords'] == 'root':
        y = [(Poly.var(n, i) - (c[i] + h[i] * p0[i])) * (1. / h[i]) for i in range(n)]
        rad = ls['r']
    else:
        x0 = peval(Phi, (c + h * p0)[None])[0]
        y = [Phi[i] - float(x0[i]) for i in range(n)]
        # radius relative to the size of the image of the box
        A = numpy.asarray(gj['A'])
        rad = ls['r'] * float(numpy.linalg.svd(A, compute_uv=False).min()) if not geo.geometry_is_identity(gj) else ls['r'] * float(h.min())
    if ls['shape'] == 'plane':
        phi = sum((y[i] * float(ls['a'][i]) for i in range(n)), Poly(n))
    else:
        phi = Poly.const(n, rad**2) - sum((y[i] * y[i] for i in range(n)), Poly(n))
    return phi * float(ls['sign']), rad


def levelset_nutils(ls, gj, g, x, Phi, rad):
    'nutils side of the same level set, built from the nutils geometry arrays'
    n = gj['n']
    c, h = numpy.asarray(gj['c']), numpy.asarray(gj['h'])
    p0 = numpy.asarray(ls['p0'])
    if ls['coords'] == 'root':
        y = [(g[i] - float(c[i] + h[i] * p0[i])) / float(h[i]) for i in range(n)]
    else:
        x0 = peval(Phi, (c + h * p0)[None])[0]
        y = [x[i] - float(x0[i]) for i in range(n)]
    if ls['shape'] == 'plane':
        phi = sum(y[i] * float(ls['a'][i]) for i in range(n))
    else:
        phi = rad**2 - sum(y[i] * y[i] for i in range(n))
    return phi * float(ls['sign'])


def run_trimmed(case, ck):
    """Trimmed topologies: topo.trim(levelset, maxrefine).  The trimmed domain is a polytopal approximation of
    {levelset>0} (cut positions are binned), so there is no closed form; exact monitors are |n|=1, n.t=0 on every
    (flat) boundary facet, the cofactor rule on the untrimmed box faces, and the divergence theorem boundary ==
    volume over the SAME trimmed topology (global and element-wise).  Orientation of the 'trimmed' facets: the
    outward normal must point towards decreasing level set."""
    from nutils import function
    res = ck.res
    sc = Scene(case['mesh'], case['geom'], case['style'])
    n = sc.n
    g, x = sc.g, sc.x
    ls = case['levelset']
    phi, rad = levelset_poly(ls, case['geom'], sc.Phi)
    phi_nut = levelset_nutils(ls, case['geom'], g, x, sc.Phi, rad)
    try:
        topo = sc.topo.trim(phi_nut, maxrefine=case['maxrefine'])
    except NotImplementedError:
        raise meshes.Refused('trim: NotImplementedError')
    if len(topo) == 0:
        res.count('empty/trimmed topology')
        return
    bnd = topo.boundary
    try:
        ntrim = len(bnd['trimmed'])
    except KeyError:
        ntrim = 0
    if not ntrim:
        res.count('empty/no trimmed boundary')
    res.count('trimmed/cases')
    res.count('trimmed/trimmed facets', ntrim)
    res.count(f"trimmed/maxrefine{case['maxrefine']}")
    res.count(f"trimmed/{ls['shape']}-{ls['coords']}")
    P = pfromjson(case['field'])
    F = pfromjson(case['F'])
    f = geo.nutils_parray(P, sc.xs(), case['style'])
    Fx = geo.nutils_parray(F, sc.xs(), case['style'])
    Jx, Jg = function.J(x), function.J(g)
    nrm = function.normal(x)
    ops = field_ops(P, f, x, n, want=['grad'])

    # ---- pointwise on the whole boundary of the trimmed domain
    smp = bnd.sample(*case['facet'])
    V = eval_named(smp, dict(g=g, x=x, n=nrm, Jx=Jx, Jg=Jg, grad=ops['grad'][0]))
    G, N = V['g'], V['n']
    X = peval(sc.Phi, G)
    res.count('points/trimmed-boundary', len(G))
    ck.cmp('x==Phi(g)', 'boundary(trimmed domain)', V['x'], X, scale=float(pabs(sc.Phi, G).max()), nontrivial=False)
    ck.cmp('grad', 'boundary(trimmed domain)', V['grad'], ops['grad'][1](X), scale=ops['grad'][2](X))
    D, cov = check_facet_normals(ck, sc, smp, 'boundary(trimmed domain)', G, N, exact_from_faces=False)
    ck.cmp('J(x)==|cof DPhi nu| J(g)', 'boundary(trimmed domain)', V['Jx'], measure_ratio(D, normalize(cov)) * V['Jg'])
    one, nref, tr = facet_faces(smp, G, sc.b.lo, sc.b.hi)
    if one.any():
        ex = numpy.linalg.solve(numpy.swapaxes(D[one], 1, 2), nref[one][..., None])[..., 0]
        ck.cmp('n==exact outward normal (cofactor rule on box face)', 'boundary(trimmed domain)', N[one], normalize(ex))
    if tr.any():
        res.count('points/on trimmed facets', int(tr.sum()))
        gphi = peval(pgrad(numpy.array([phi], dtype=object), n)[0], G[tr])        # grad_g phi
        c = -numpy.einsum('kn,kn->k', cov[tr], gphi) / (numpy.linalg.norm(cov[tr], axis=1) * numpy.linalg.norm(gphi, axis=1) + 1e-300)
        if phi.degree() == 1 and sc.b.affine:
            # level set linear in the element coordinates: the vertex interpolation used by trim is exact, the trimmed
            # facets lie on the plane up to the 2^-8 binning of the cut positions, so the sign is decidable
            res.count('ident/trimmed normal points towards decreasing level set')
            res.count('ident_by_sample/boundary/trimmed normal points towards decreasing level set')
            res.count('comparisons')
            res.count('values_compared', int(tr.sum()))
            ck.nontrivial = True
            amb = numpy.abs(c) <= .2
            if amb.any():
                res.count('trimmed/ambiguous orientation points (|cos|<=.2, not judged)', int(amb.sum()))
            if (c < -.2).any():
                ck.failed = True
                res.violation('trimmed normal points towards decreasing level set', case,
                              f'[boundary(trimmed domain)] {int((c < -.2).sum())}/{len(c)} points on trimmed facets have an inward normal; min cos={float(c.min()):.3f}')
        else:
            # curved cut: the polytopal approximation may legitimately disagree with the true level set where it is
            # under-resolved; recorded, not judged (the divergence theorem below decides exactly)
            res.count('trimmed/curved cut: points agreeing with level-set gradient', int((c > 0).sum()))
            res.count('trimmed/curved cut: points disagreeing with level-set gradient (not judged)', int((c <= 0).sum()))

    # ---- divergence theorem over the same trimmed topology (exact for polynomial F)
    dF = pgrad(F, n)
    geomdeg = pmaxdegree(sc.Phi)
    bdeg = max(0, pmaxdegree(pcompose(F, list(sc.Phi)))) + (n - 1) * max(0, geomdeg - 1)
    divF = sum((dF[i, i] for i in range(n)), Poly(n))
    detD = pdet(sc.DPhi)
    vdeg = max(integral_degree(divF.compose(list(sc.Phi)) * detD, 0), integral_degree(detD, 0))
    vlim, flim = (TRI_MAXDEG, 10**6) if n == 2 else (TET_MAXDEG, TRI_MAXDEG)
    if not sc.b.affine:
        vdeg, bdeg = vdeg + n, bdeg + n - 1
    if vdeg > vlim or bdeg > flim:
        res.count('skipped/trimmed integrand beyond available Gauss degree')
        return
    res.maximum('max_gauss_degree', max(vdeg, bdeg))
    basis = None
    try:
        basis = topo.basis('discont', degree=0)
        w = basis @ numpy.random.default_rng(case['wseed']).uniform(.5, 2., len(basis))
    except (NotImplementedError, ValueError, AssertionError) as e:
        res.count(f'refusal/discont basis: {type(e).__name__}')
    vf = [function.div(Fx, x) * Jx, Jx] + ([w * function.div(Fx, x) * Jx] if basis is not None else [])
    bf = [(Fx @ nrm) * Jx, Jx] + ([w * (Fx @ nrm) * Jx] if basis is not None else [])
    VI = topo.integrate(vf, degree=vdeg)
    BI = bnd.integrate(bf, degree=bdeg)
    Xp = peval(sc.Phi, box_probe_points(sc.b.lo, sc.b.hi))
    Fmag, dFmag = float(pabs(F, Xp).max()), float(pabs(dF, Xp).max())
    dscale = max(1., Fmag * abs(BI[1]), abs(VI[1]) * dFmag * n)
    ck.cmp('divergence theorem on trimmed domain: boundary integral == volume integral', 'boundary(trimmed domain)', [BI[0]], [VI[0]], scale=dscale)
    detsign = 1. if detD(((sc.b.lo + sc.b.hi) / 2)[None])[0] > 0 else -1.
    ck.positive('int J over trimmed domain > 0', 'interior', [VI[1]], [abs(float((detD * detsign).integrate_box(sc.b.lo, sc.b.hi)))])
    if basis is not None:
        ifc = topo.interfaces
        t2 = 0.
        if len(ifc):
            t2, isz = ifc.integrate([function.jump(w * Fx) @ nrm * Jx, Jx], degree=bdeg)
            dscale = max(dscale, Fmag * abs(isz) * 2)
        ck.cmp('element-wise divergence theorem on trimmed domain', 'interface' if len(ifc) else 'boundary', [BI[2] - t2 - VI[2]], [0.], scale=dscale * 2)


def run_basislevel(case, ck):
    """Geometry and fields expressed in a basis (std/spline, hierarchical variants) of a level-k topology and
    evaluated / integrated on strictly finer topologies (level k+1, k+2, hierarchical, trimmed).  The coefficients
    come from the oracle polynomials (least squares on the unisolvent bezier lattice, residual must vanish), so the
    basis-defined functions equal the polynomials x=Phi(g), q(g), Q(g) exactly and every identity has an exact
    reference; each quantity is also cross-checked against the same quantity built from the original expressions."""
    from nutils import function
    res = ck.res
    ck.reach = 'basislevel/identities with basis level coarser than sample level'
    gj = case['geom']
    b = meshes.build(case['mesh'])
    n = b.n
    g = b.geom
    sc = Scene.__new__(Scene)
    sc.b, sc.g, sc.gj, sc.n, sc.m, sc.style = b, g, gj, n, n, case['style']
    sc.Phi = geo.geometry_polys(gj)
    sc.DPhi = pgrad(sc.Phi, n)
    tk = meshes.apply_history(b.topo, case['basis_hist'])
    hier = bool(case['basis_hist']) and case['basis_hist'][0][0] == 'refined_by'
    d = case['bdegree']
    btype = ('th-' if (case['index'] // len(KINDS)) % 2 else 'h-') + case['btype'] if hier else case['btype']
    try:
        basis = tk.basis(btype, degree=d)
    except (NotImplementedError, AssertionError, ValueError) as e:
        raise meshes.Refused(f'basis {btype} degree {d} on {type(tk).__name__}: {type(e).__name__}')
    q = pfromjson(case['field'])
    Q = pfromjson(case['F'])
    B, Gk = tk.sample('bezier', d + 1).eval([basis, g])
    targets = numpy.concatenate([peval(sc.Phi, Gk), peval(q, Gk).reshape(len(Gk), -1), peval(Q, Gk)], axis=1)
    coef = numpy.linalg.lstsq(B, targets, rcond=None)[0]
    resid = float(numpy.abs(B @ coef - targets).max())
    if resid > 1e-10 * max(1., float(numpy.abs(targets).max())):
        res.count(f'skipped/basis {btype}{d} does not reproduce the polynomial (residual)')
        res.note(f'basis {btype} degree {d} on {b.desc} {case["basis_hist"]}: residual {resid:.2e}')
        return
    nq = int(numpy.prod(q.shape)) if q.shape else 1
    xh = coef[:, :n].T @ basis
    qh = coef[:, n:n + nq].T @ basis
    qh = numpy.reshape(qh, q.shape) if q.shape else qh[0]
    Qh = coef[:, n + nq:].T @ basis
    sc.x = xh
    # the same things from the original expressions
    xo = geo.nutils_geometry(gj, g, case['style'])
    gs = [g[i] for i in range(n)]
    qo = geo.nutils_parray(q, gs, case['style'])
    topo = meshes.apply_history(tk, case['eval_hist'])
    trimmed = 'trim' in case
    if trimmed:
        phi, rad = levelset_poly(case['trim'], gj, sc.Phi)
        topo = topo.trim(levelset_nutils(case['trim'], gj, g, xo, sc.Phi, rad), maxrefine=case['trim']['maxrefine'])
        if len(topo) == 0:
            res.count('empty/trimmed topology')
            return
    sc.topo = topo
    res.count('basislevel/cases')
    res.count(f"basislevel/basis on {'hierarchical' if hier else 'level %d' % len(case['basis_hist'])}, evaluated on +{'+'.join(op[0] for op in case['eval_hist'])}{'+trim' if trimmed else ''}")
    res.count(f'basislevel/{btype} degree {d}')
    affine_geom = pmaxdegree(sc.Phi) <= 1

    # exact references in terms of the parameter-space polynomials
    dq = pgrad(q, n)
    ddq = pgrad(dq, n)

    def refs(G):
        Dinv = numpy.linalg.inv(peval(sc.DPhi, G))
        gr = numpy.einsum('k...j,kji->k...i', peval(dq, G), Dinv)
        out = dict(grad=gr)
        if q.shape == (n,):
            out['div'] = numpy.einsum('kii->k', gr)
            out['symgrad'] = .5 * (gr + numpy.swapaxes(gr, -1, -2))
            if n == 3:
                out['curl'] = numpy.stack([gr[..., 2, 1] - gr[..., 1, 2], gr[..., 0, 2] - gr[..., 2, 0], gr[..., 1, 0] - gr[..., 0, 1]], axis=-1)
        if affine_geom:
            H = numpy.einsum('kai,k...ab,kbj->k...ij', Dinv, peval(ddq, G), Dinv)
            out['laplace'] = numpy.einsum('k...ii->k...', H)
        return out

    def nutils_ops(f, x):
        ops = dict(grad=function.grad(f, x))
        if q.shape == (n,):
            ops.update(div=function.div(f, x), symgrad=function.symgrad(f, x))
            if n == 3:
                ops['curl'] = function.curl(f, x)
        if affine_geom:
            ops['laplace'] = function.laplace(f, x)
        return ops

    def opscale(G):
        Dinv = numpy.linalg.inv(peval(sc.DPhi, G))
        s1 = float(pabs(dq, G).max()) * float(numpy.abs(Dinv).max()) * n
        return dict(grad=s1, div=s1 * n, symgrad=s1, curl=2 * s1, laplace=float(pabs(ddq, G).max()) * float(numpy.abs(Dinv).max())**2 * n**3)

    parts = case['parts']
    Jx, Jg, Jo = function.J(xh), function.J(g), function.J(xo)
    smp = topo.sample(*case['samples']['interior'])
    if 'interior' in parts:
        ops = nutils_ops(qh, xh)
        named = dict(g=g, x=xh, Jx=Jx, Jg=Jg, Jo=Jo, grad_o=function.grad(qo, xo))
        named.update(ops)
        V = eval_named(smp, named)
        G = V['g']
        res.count('points/basislevel-interior', len(G))
        ck.cmp('x_h==Phi(g)', 'interior', V['x'], peval(sc.Phi, G), scale=float(pabs(sc.Phi, G).max()))
        R, S = refs(G), opscale(G)
        for k in ops:
            ck.cmp(k, 'interior', V[k], R[k], scale=S[k])
        ck.cmp('J(x)==|det DPhi| J(g)', 'interior', V['Jx'], numpy.abs(numpy.linalg.det(peval(sc.DPhi, G))) * V['Jg'])
        ck.cmp('basis-defined == original expression: J', 'interior', V['Jx'], V['Jo'])
        ck.cmp('basis-defined == original expression: grad', 'interior', V['grad'], V['grad_o'], scale=S['grad'])
        return
    cent = None
    fidx = None
    if not trimmed and ('boundary' in parts or 'interface' in parts):
        cent = centroids_of(smp, smp.eval(g))
        fidx = try_f_index(topo, res)
    for skind in ('boundary', 'interface'):
        if skind not in parts:
            continue
        ftopo = topo.boundary if skind == 'boundary' else topo.interfaces
        if len(ftopo) == 0:
            res.count(f'empty/{skind}')
            continue
        fs = ftopo.sample(*case['samples'][skind])
        nrm = function.normal(xh)
        named = dict(g=g, x=xh, n=nrm, Jx=Jx, Jg=Jg, Jo=Jo, n_o=function.normal(xo), grad=function.grad(qh, xh), sg=function.surfgrad(qh, xh))
        if fidx is not None:
            named['ethis'] = fidx
        if skind == 'interface':
            named.update(nopp=function.opposite(nrm), jumpx=function.jump(xh), jumpgrad=function.jump(named['grad']))
            if fidx is not None:
                named['eopp'] = function.opposite(fidx)
        V = eval_named(fs, named)
        G, N = V['g'], V['n']
        res.count(f'points/basislevel-{skind}', len(G))
        R, S = refs(G), opscale(G)
        ck.cmp('x_h==Phi(g)', skind, V['x'], peval(sc.Phi, G), scale=float(pabs(sc.Phi, G).max()))
        ck.cmp('grad', skind, V['grad'], R['grad'], scale=S['grad'])
        D, cov = check_facet_normals(ck, sc, fs, skind, G, N, cent, V.get('ethis'), V.get('eopp'), allow_offbox=trimmed)
        ck.cmp('J(x)==|cof DPhi nu| J(g)', skind, V['Jx'], measure_ratio(D, normalize(cov)) * V['Jg'])
        Pr = numpy.eye(n) - numpy.einsum('ki,kj->kij', N, N)
        ck.cmp('surfgrad f==(I-nn^T) p\'(x)', skind, V['sg'], numpy.einsum('k...j,kij->k...i', R['grad'], Pr), scale=S['grad'])
        ck.cmp('basis-defined == original expression: J', skind, V['Jx'], V['Jo'])
        ck.cmp('basis-defined == original expression: normal', skind, N, V['n_o'])
        if skind == 'interface':
            ck.cmp('n+opposite(n)=0', skind, N + V['nopp'], numpy.zeros_like(N))
            ck.cmp('jump(x)=0', skind, V['jumpx'], numpy.zeros_like(N), scale=float(pabs(sc.Phi, G).max()))
            ck.cmp('jump(grad p)=0', skind, V['jumpgrad'], numpy.zeros_like(R['grad']), scale=S['grad'])
    if 'integral' in parts:
        lo, hi = b.lo, b.hi
        detD = pdet(sc.DPhi)
        sgn = 1. if detD(((lo + hi) / 2)[None])[0] > 0 else -1.
        from vlib.c08_poly import pcofactor
        cof = pcofactor(sc.DPhi)                      # DPhi^-1 = cof^T / det
        dQ = pgrad(Q, n)
        divint = sum((dQ[i, j] * cof[i, j] for i in range(n) for j in range(n)), Poly(n)) * sgn     # tr(DQ DPhi^-1) |det|
        gd = pmaxdegree(sc.Phi)
        vdeg = max(integral_degree(divint, 0), integral_degree(detD, 0))
        bdeg = max(0, pmaxdegree(Q)) + (n - 1) * max(0, gd - 1)
        nrm = function.normal(xh)
        VI = topo.integrate([function.div(Qh, xh) * Jx, Jx, Jo], degree=vdeg)
        BI = topo.boundary.integrate([(Qh @ nrm) * Jx, Jx], degree=bdeg)
        res.maximum('max_gauss_degree', max(vdeg, bdeg))
        Gp = box_probe_points(lo, hi)
        Dinvmax = float(numpy.abs(numpy.linalg.inv(peval(sc.DPhi, Gp))).max())
        dscale = max(1., float(pabs(Q, Gp).max()) * abs(BI[1]), float(pabs(dQ, Gp).max()) * Dinvmax * n * n * abs(VI[1]))
        ck.cmp('basis-defined == original expression: int J', 'interior', [VI[1]], [VI[2]])
        if trimmed:
            ck.cmp('divergence theorem on trimmed domain: boundary integral == volume integral', 'boundary(trimmed domain)', [BI[0]], [VI[0]], scale=dscale)
        else:
            ck.cmp('int J == closed form volume', 'interior', [VI[1]], [(detD * sgn).integrate_box(lo, hi)])
            exact = divint.integrate_box(lo, hi)
            ck.cmp('divergence theorem: boundary integral == closed form of int div F', 'boundary', [BI[0]], [exact], scale=dscale)
            ck.cmp('divergence theorem: volume integral == closed form of int div F', 'interior', [VI[0]], [exact], scale=dscale)


def run_product(case, ck):
    from nutils import function
    res = ck.res
    b = meshes.build(case['mesh'])
    bx, by = b.factors
    opspace = case['opspace']
    bs, bo = (bx, by) if opspace == 'X' else (by, bx)
    ns, no = bs.n, bo.n
    gj = case['geom']
    style = case['style']
    Phi = geo.geometry_polys(gj)                        # Poly in ns vars
    xs_nut = geo.nutils_geometry(gj, bs.geom, style)     # nutils, on the operator space
    E, s = pfromjson(case['E']), pfromjson(case['s'])
    oc, oh = case['oc'], case['oh']
    eta_nut = [(bo.geom[i] - oc[i]) / oh[i] for i in range(no)]
    # nutils geometry G = (I+E(eta)) Phi(xi_S) + s(eta)
    M_nut = [[(1. if i == j else 0.) + geo.nutils_poly(E[i, j], eta_nut, style) for j in range(ns)] for i in range(ns)]
    G_nut = numpy.stack([sum(M_nut[i][j] * xs_nut[j] for j in range(ns)) + geo.nutils_poly(s[i], eta_nut, style) for i in range(ns)])
    # oracle in the joint variables z = (xi_S (ns), xi_O (no))
    nz = ns + no
    lift_s = [Poly.var(nz, i) for i in range(ns)]
    eta = [(Poly.var(nz, ns + i) - oc[i]) * (1. / oh[i]) for i in range(no)]
    Phi_z = [p.compose(lift_s) for p in Phi]
    Gz = numpy.empty(ns, dtype=object)
    for i in range(ns):
        Gz[i] = sum(((Poly.const(nz, 1. if i == j else 0.) + E[i, j].compose(eta)) * Phi_z[j] for j in range(ns)), Poly(nz)) + s[i].compose(eta)
    Bz = pgrad(Gz, nz)[:, :ns]                           # dG/dxi_S
    # fields p(G, xi_O): polynomials in ns+no variables
    P = pfromjson(case['field'])
    F = pfromjson(case['F'])
    args_nut = [G_nut[i] for i in range(ns)] + [bo.geom[i] for i in range(no)]
    f = geo.nutils_parray(P, args_nut, style)
    Fx = geo.nutils_parray(F, args_nut, style)
    spaces = [bs.spaces[0][0]]
    kw = dict(spaces=spaces)
    ops = field_ops(P, f, G_nut, ns, kw=kw, nd=ns)
    topo = b.topo
    zgeom = numpy.concatenate([bs.geom, bo.geom])
    lo = numpy.concatenate([bs.lo, bo.lo])
    hi = numpy.concatenate([bs.hi, bo.hi])
    JS = function.J(G_nut, spaces=spaces)
    JS0 = function.J(bs.geom)
    JO = function.J(bo.geom)

    def physical(Z):
        return numpy.concatenate([peval(Gz, Z), Z[:, ns:]], axis=1)

    ftopo = (bs.topo.boundary * bo.topo) if opspace == 'X' else (bo.topo * bs.topo.boundary)
    nrm = function.normal(G_nut, spaces=spaces)
    parts = case['parts']
    if 'interior' in parts:
        # interior
        smp = topo.sample(*case['samples']['interior'])
        named = dict(z=zgeom, G=G_nut, JS=JS, JS0=JS0)
        named.update({k: v[0] for k, v in ops.items()})
        V = eval_named(smp, named)
        Z = V['z']
        Xp = physical(Z)
        res.count('points/product-interior', len(Z))
        ck.cmp('x==Phi(g)', 'product-interior', V['G'], peval(Gz, Z), scale=float(pabs(Gz, Z).max()), nontrivial=False)
        for k, (fn, ref, scl) in ops.items():
            ck.cmp(k + ' (spaces=)', 'product-interior', V[k], ref(Xp), scale=scl(Xp))
        Bv = peval(Bz, Z)
        ck.cmp('J(x,spaces=)==|det dG/dxi_S| J(g_S)', 'product-interior', V['JS'], numpy.abs(numpy.linalg.det(Bv)) * V['JS0'])

    if 'boundary' in parts:
        # boundary of the operator space times the other space
        fs = ftopo.sample(*case['samples']['boundary'])
        named = dict(z=zgeom, n=nrm, grad=ops['grad'][0], ngrad=function.ngrad(f, G_nut, spaces=spaces), JS=JS, JS0=JS0)
        V = eval_named(fs, named)
        Z = V['z']
        Xp = physical(Z)
        Bv = peval(Bz, Z)
        res.count('points/product-boundary', len(Z))
        nfaces, nref = box_faces(Z[:, :ns], bs.lo, bs.hi)
        one = nfaces == 1
        if (nfaces == 0).any():
            res.count('harness/boundary_point_not_on_box')
        ex = normalize(numpy.linalg.solve(numpy.swapaxes(Bv[one], 1, 2), nref[one][..., None])[..., 0])
        ck.cmp('|n|=1', 'product-boundary', numpy.linalg.norm(V['n'], axis=1), numpy.ones(len(Z)))
        ck.cmp('n==exact outward normal (cofactor rule on box face)', 'product-boundary', V['n'][one], ex)
        gref = ops['grad'][1](Xp)
        ck.cmp('grad (spaces=)', 'product-boundary', V['grad'], gref, scale=ops['grad'][2](Xp))
        ck.cmp('ngrad==p\'(x).n', 'product-boundary', V['ngrad'], numpy.einsum('k...i,ki->k...', gref, V['n']), scale=ops['grad'][2](Xp))
        nu = nref.copy()
        ck.cmp('J(x,spaces=)==|cof nu| J(g_S)', 'product-boundary', V['JS'][one], measure_ratio(Bv[one], nu[one]) * V['JS0'][one])

    if 'integral' not in parts:
        return
    # integrals: per-space divergence theorem integrated over the other space
    extra = 0 if b.affine else 2
    lim = TRI_MAXDEG if b.simplexdim else 10**6
    detB = pdet(Bz)
    sgn = 1. if detB((lo + hi)[None] / 2)[0] > 0 else -1.
    dF = pgrad(F, nz)
    divF = sum((dF[i, i] for i in range(ns)), Poly(nz))
    zsub = list(Gz) + [Poly.var(nz, ns + i) for i in range(no)]
    vint = divF.compose(zsub) * detB * sgn
    exact = vint.integrate_box(lo, hi)
    Fz = pcompose(F, zsub)
    bdeg = max(0, pmaxdegree(Fz)) + max(0, (ns - 1) * max(0, pmaxdegree(Gz) - 1)) + extra
    vdeg = integral_degree(vint, extra)
    if max(bdeg, vdeg) > lim:
        res.count('skipped/product integrand beyond available Gauss degree')
        return
    res.maximum('max_gauss_degree', max(bdeg, vdeg))
    Vv, vol = topo.integrate([function.div(Fx, G_nut, spaces=spaces) * JS * JO, JS * JO], degree=max(vdeg, integral_degree(detB, extra)))
    B, area = ftopo.integrate([(Fx @ nrm) * JS * JO, JS * JO], degree=bdeg)
    Zb = ftopo.sample('gauss', 1).eval(zgeom)
    Xb = physical(Zb)
    dscale = max(1., float(pabs(F, Xb).max()) * abs(area), float(pabs(dF, Xb).max()) * abs(vol) * ns)
    ck.cmp('int J(x,spaces=) J(y) == closed form volume', 'product-interior', [vol], [(detB * sgn).integrate_box(lo, hi)])
    ck.cmp('per-space divergence theorem: volume integral == closed form', 'product-interior', [Vv], [exact], scale=dscale)
    ck.cmp('per-space divergence theorem: boundary integral == closed form', 'product-boundary', [B], [exact], scale=dscale)


# ====================================================================== protocol

_SELFTEST = None


def run_units(units, ctx):
    global _SELFTEST
    res = Result()
    if _SELFTEST is None:
        _SELFTEST = selftest()
    if _SELFTEST:
        raise RuntimeError('oracle self-test failed: ' + '; '.join(_SELFTEST))
    res.count('oracle_selftests')
    import warnings
    warnings.simplefilter('ignore')
    for u in units:
        for i in range(u['start'], u['stop']):
            if ctx.expired():
                res.count('cases_skipped_deadline')
                continue
            case = gen_case(ctx.seed, i, ctx.tier)
            execute(case, res)
            if i % 131 == 0:
                res.sample(dict(index=case['index'], kind=case['kind'], mesh=case['mesh'], geom_A=case['geom']['A'], geom_degree=case['geom']['degree']))
    return res


def replay(case):
    res = Result()
    execute(case, res)
    return res.violations


def repro_transformlinear_target():
    import numpy
    import treelog
    from nutils import mesh, function
    with treelog.set(treelog.NullLog()):
        dom, geom = mesh.rectilinear([2, 2])
        r1 = dom.refined
        basis = r1.basis('std', degree=1)
        x = r1.project(geom, onto=basis.vector(2), geometry=geom, degree=2)
        g2 = x @ basis.vector(2)      # the same geometry, expressed in a basis of the refined topology
        a1 = float(r1.integral(function.J(g2), degree=2).eval())
        a2 = float(r1.refined.integral(function.J(g2), degree=2).eval())
    return bool(abs(a1 - 4) > 1e-6 or abs(a2 - 4) > 1e-6), f'area of [0,2]^2 with a geometry expressed in a basis of dom.refined: {a1} on dom.refined, {a2} on dom.refined.refined (expected 4)'


REPRODUCERS = {'C08-transformlinear-target-ignored': repro_transformlinear_target}


def finalize(m, tier, seed):
    c = m.counters
    pre = lambda p: {k[len(p):]: v for k, v in sorted(c.items()) if k.startswith(p)}
    bysample = {}
    for k, v in c.items():
        if k.startswith('ident_by_sample/'):
            _, sk, name = k.split('/', 2)
            bysample.setdefault(sk, {})[name] = v
    cov = dict(evaluations=c.get('evaluations', 0), distinct_nontrivial=len(m.sets.get('distinct', ())), rule=RULE, samples=m.samples[:4],
               comparisons=c.get('comparisons', 0), values_compared=c.get('values_compared', 0),
               identities_checked=pre('ident/'), identities_by_sample_kind=bysample, points=pre('points/'), case_kinds=pre('kind/'),
               dims=pre('dim/'), orientation=pre('orientation/'), alt_parametrisations=pre('alt/'),
               mesh_kinds=sorted(m.sets.get('mesh_kinds', ())), geometry_kinds=sorted(m.sets.get('geometry_kinds', ())),
               n_triples=len(m.sets.get('triples', ())), triples_sample=sorted(m.sets.get('triples', ()))[:40],
               refusals=pre('refusal/'), skipped=pre('skipped/'), empty=pre('empty/'), cases_refused=c.get('cases_refused', 0),
               marginal=c.get('marginal', 0), marginal_by_identity=pre('marginal/'), harness=pre('harness/'),
               trimmed=pre('trimmed/'), basislevel=pre('basislevel/'), facets_with_spanning_tangents=c.get('facets_with_spanning_tangents', 0), exterior_normal_sign=pre('exterior_normal_sign/'),
               max_gauss_degree=m.maxima.get('max_gauss_degree'), cases_skipped_deadline=c.get('cases_skipped_deadline', 0))
    inc = None
    need = ['grad', 'div', 'curl', 'laplace', 'symgrad', 'hessian', '|n|=1', 'n.t=0', 'n+opposite(n)=0', 'jump(x)=0',
            'n==exact outward normal (cofactor rule on box face)', 'n points out of its element (centroid test)',
            'int f(x) J == closed form', 'divergence theorem: boundary integral == closed form of int div F',
            'element-wise divergence theorem (boundary - interface jumps - volume == 0)', 'n.surfgrad f=0', 'surfgrad f==(I-nn^T) p\'(x)',
            'grad (spaces=)', 'per-space divergence theorem: boundary integral == closed form',
            'trimmed normal points towards decreasing level set', 'divergence theorem on trimmed domain: boundary integral == volume integral']
    missing = [k for k in need if not cov['identities_checked'].get(k)]
    if cov['evaluations'] < 0.5 * ncases(tier):
        inc = f"only {cov['evaluations']} of {ncases(tier)} cases ran before the deadline"
    elif missing:
        inc = 'identities never reached: ' + ', '.join(missing)
    elif c.get('basislevel/identities with basis level coarser than sample level', 0) < 0.5 * ncases(tier):
        inc = 'too few identities evaluated with a basis level coarser than the sample level: %d' % c.get('basislevel/identities with basis level coarser than sample level', 0)
    elif not all(bysample.get(s) for s in ('interior', 'boundary', 'interface')):
        inc = 'a sample kind was never reached'
    elif cov['marginal'] > 0.005 * max(1, cov['comparisons']):
        inc = f"{cov['marginal']} of {cov['comparisons']} comparisons fell in the marginal band"
    elif cov['harness']:
        inc = f"harness inconsistency: {cov['harness']}"
    elif cov['distinct_nontrivial'] < 0.4 * ncases(tier):
        inc = 'too few distinct non-trivial cases'
    return dict(coverage=cov, inconclusive=inc)
