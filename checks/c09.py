"""C09 — Integration is exact quadrature of point evaluation.

Monitor shape
  (A) executable reference model of the sample algebra (vlib/c09_model.py) advanced in lock-step with the real
      constructors (topo.sample, Sample.new with index, *, +, take_elements, subset, zip, locate(weights=),
      rename_spaces, (topo*topo).sample / .take) on random expressions nested to depth <= 4; monitors: spaces /
      nelems / npoints / ndims, getindex(i) per element, sample.eval(f) against the model's point table (values
      from numpy oracles and from element-by-element direct evaluation), sample.integrate(f) == sum_p w_p f_p with
      weights from the model, with f_p from sample.eval, and with the sample's own evaluable weights.
  (B) exactness (vlib/c09_exact.py): every (reference, Gauss degree <= table maximum, monomial in the exact set)
      triple against closed forms; children by affine pull-back and their sum; with_children subsets, trimmed
      (mosaic) references by the partition identity and by an independent Duffy-Gauss-Legendre rule over the
      reference's own simplices; points inside; weights sum to the volume (also uniform/bezier incl. dedup);
      Gauss samples of refined / hierarchical / trimmed topologies integrate physical monomials exactly.
"""

import json, hashlib, traceback, itertools, warnings, time
import numpy
from vlib.runner import Result, rng_for
from vlib import tolerance

PROPERTY = 'C09'
LEVEL = 'exploration'
RULE = ('(A) random sample expressions: leaves topo.sample(scheme, degree) on rectilinear 1-3D / perturbed simplex 2-3D / unitsquare '
        'mixed meshes, optionally refined, refined_by, sub-selected, trimmed, boundary; Sample.new with a random index; '
        '(topoA*topoB).sample and .take; locate(weights); inner nodes *, +, take_elements (sorted / permuted / repeated), subset, zip '
        '(partner fitted to the point count), rename_spaces; depth <= 4; 6 integrands per case built from element index, local '
        'coordinates, geometry powers, Jacobian, std basis. non-trivial = at least one algebra node or a custom-index/located/'
        'topology-product leaf; distinct = hash of the expression skeleton (operators, topology ops, scheme, degree). '
        '(B) finite tables enumerated completely: every monomial of the exact set for every (reference, degree).')
ASSUMPTIONS = [
    'model leaves take per-element points/weights from Reference.getpoints (the same tables nutils uses); the tables themselves are judged by part B against closed forms and a Duffy Gauss-Legendre rule built from numpy.polynomial.legendre.leggauss',
    'bezier degree 1 is excluded (degenerate 0/0 coordinates); uniform on tetrahedra and bezier on trimmed triangle*line are documented refusals',
    'take_elements on a union returns the first summand\'s elements first (observed, undocumented); the model follows it',
    'point order inside a zipped or located element is the sample\'s choice (only the set per element is demanded, then adopted)',
    'exactness band on reference elements: pass <= 1e-12, violation > 1e-10 (tables carry 15-16 digits); values elsewhere use the 1e-9/1e-5 policy',
    'locate targets are strictly interior points of affine elements (barycentric >= 0.08); located coordinates are compared at 1e-8',
]
import os as _os
_SCALE = float(_os.environ.get('VERIF_C09_BUDGET_SCALE', '1') or 1)     # >1 only to finish the same workload on an oversubscribed machine
BUDGET_S = {'quick': int(100 * _SCALE), 'thorough': int(1380 * _SCALE)}
NCASES = {'quick': 800, 'thorough': 12000}
CHUNK = 25
MINFRAC = .3      # fewer sample cases than this fraction of NCASES before the deadline: inconclusive
VTK_FINDING = 'C09-vtk-tensor-typeerror'
EMPTYMUL_FINDING = 'C09-empty-product-eval'


# ------------------------------------------------------------------------------------------------ plan

def plan(tier, seed):
    units = []
    quick = tier == 'quick'
    # part B first (finite tables, heavier units first)
    for fd in ([1, 1, 1], [2, 1], [1, 2], [3], [1, 1], [2], [1]):
        nd = sum(fd)
        degs = list(range(1, 7)) if quick else list(range(0, 8))
        if quick and nd == 3:
            degs = [1, 2, 4, 6]
        if 3 in fd:
            degs = [d for d in degs if d <= 7]
        elif 2 in fd:
            degs = [d for d in degs if d <= 6]
        for chunk in ([degs[:2], degs[2:]] if nd == 3 and quick else [degs[:3], degs[3:5], degs[5:]] if nd == 3 else [degs]):
            units.append(dict(kind='children', fdims=fd, degrees=chunk, nsub=(3 if quick else 120) if nd == 3 else None))
    for k in range(0, 16 if quick else 300, 2):
        units.append(dict(kind='topo', start=k, stop=k + 2))
    ntrim = 6 if quick else 120
    for fd in ([1, 1, 1], [2, 1], [1, 2], [3], [1, 1], [2], [1]):
        for k in range(0, ntrim, 2):
            units.append(dict(kind='trim', fdims=fd, start=k, stop=k + 2))
    units.append(dict(kind='plain'))
    n = NCASES[tier]
    units += [dict(kind='A', start=i, stop=min(n, i + CHUNK)) for i in range(0, n, CHUNK)]
    return units


# ------------------------------------------------------------------------------------------------ part A

def gen_case(seed, i):
    from vlib import c09_model as M
    rng = rng_for(seed, 'c09', i)
    maxdepth = int(rng.choice([0, 1, 2, 3, 4], p=[.06, .24, .3, .25, .15]))
    for attempt in range(20):
        g = M.Gen(rng, maxdepth)
        expr = g.expr(maxdepth, 400)
        if M.depth_of(expr) <= 4:
            break
    return dict(index=i, recipes=g.recipes, expr=expr, fseed=int(rng.integers(0, 2**31)))


def has_vtk_tensor(case):
    from vlib import c09_model as M
    def leaves(e):
        if e[0] in ('new', 'custom'):
            yield e[2], e[4]
        elif e[0] in ('topomul', 'topotake'):
            for p in e[1]:
                yield p[1], e[2]
        else:
            for c in e[1:]:
                if isinstance(c, list) and c and isinstance(c[0], str) and c[0] in M.KINDS:
                    yield from leaves(c)
    return any(s == 'vtk' and case['recipes'][rid]['kind'] != 'simplex' for rid, s in leaves(case['expr']))


def execute(case, res):
    from vlib import c09_model as M
    res.count('evaluations')
    expr = case['expr']
    ex = M.Exec([dict(r) for r in case['recipes']], res)
    depth = M.depth_of(expr)
    kinds = M.kinds_of(expr)
    try:
        real, model = ex.run(expr)
    except M.Rejected as r:
        res.count('A/rejected_cases')
        res.add('A/rejected_kinds', r.where + ':' + type(r.exc).__name__)
        return
    except M.Skip as s:
        res.count('A/skipped_cases')
        res.add('A/skip_reasons', str(s))
        return
    except Exception as e:
        mech = VTK_FINDING if isinstance(e, TypeError) and 'unhashable' in str(e) and has_vtk_tensor(case) else None
        res.violation('exception in sample construction', case, traceback.format_exc()[-1800:], mechanism=mech)
        return
    res.count('A/cases_built')
    res.count(f'A/depth/{depth}')
    res.maximum('A/max_npoints', int(model.N))
    res.maximum('A/max_nelems', int(model.nelems))
    for k in set(kinds):
        res.count('A/cases_with/' + k)
    res.add('A/real_types', type(real).__name__)
    nontrivial = depth >= 1 or expr[0] != 'new'
    if nontrivial:
        res.add('distinct', hashlib.sha1(json.dumps(M.skeleton(expr)).encode()).hexdigest()[:16])
    for monitor, detail in ex.problems:
        res.violation(monitor, case, detail)
    if ex.problems:
        return
    if model.N == 0:
        res.count('A/empty_samples')
    if model.nelems > 200 or len(model.spaces) > 5:
        res.count('A/structure_only_too_large')      # structure monitors ran; evaluation of very wide products is left out for cost
        return
    try:
        probs, evaluated = M.check_values(ex, real, model, numpy.random.default_rng(case['fseed']), tolerance)
    except Exception as e:
        tb = traceback.format_exc()
        mech = EMPTYMUL_FINDING if isinstance(e, AssertionError) and 'in reshape' in tb and M.empty_product(real) else None
        res.violation('exception in eval/integrate', case, tb[-1800:], mechanism=mech)
        return
    if evaluated:
        res.count('A/cases_evaluated')
        res.count(f'A/evaluated_depth/{depth}')
        for k in set(kinds):
            res.count('A/evaluated_with/' + k)
    for monitor, detail in probs:
        res.violation(monitor, case, detail)


def fold_obs(res):
    from vlib import c09_model as M
    for k, v in M.OBS.items():
        res.count(k, v)
    M.OBS.clear()


# ------------------------------------------------------------------------------------------------ part B units

def run_b_unit(u, ctx, res):
    from vlib import c09_exact as X
    from vlib import c09_model as M
    judge = X.Judge()
    kind = u['kind']
    label = dict(u, seed=ctx.seed, tier=ctx.tier)
    if kind == 'plain':
        quick = ctx.tier == 'quick'
        cat = [([1], range(0, 17 if quick else 41)), ([2], range(0, 8)), ([3], range(0, 9)), ([1, 1], range(0, 9 if quick else 13)),
               ([1, 1, 1], range(0, 7 if quick else 9)), ([2, 1], range(0, 8)), ([1, 2], range(0, 8))]
        if not quick:
            cat += [([2, 2], range(0, 8)), ([3, 1], range(0, 9)), ([1, 3], range(0, 9)), ([1, 1, 1, 1], range(0, 6)), ([1, 2, 1], range(0, 7))]
        for fd, degs in cat:
            for p in degs:
                X.check_plain(fd, p, judge, res)
            X.check_other_schemes(fd, judge, res)
            res.add('B/exhaustive', f'{X.refname(fd)}: all monomials of the exact set for degrees {degs.start}..{degs.stop - 1}')
        # per-factor degree tuples on tensor products
        for fd, tuples in ([1, 1], [(1, 4), (5, 2), (0, 7)]), ([2, 1], [(2, 5), (6, 1), (3, 3)]), ([1, 2], [(5, 2), (1, 6)]), ([1, 1, 1], [(1, 3, 5)]):
            for t in tuples:
                X.check_plain(fd, t, judge, res)
                res.count('B/tuple_degrees')
    elif kind == 'children':
        fd = u['fdims']
        n = 2**sum(fd)
        subs = [m for m in itertools.product([0, 1], repeat=n) if 0 < sum(m) < n]
        rng = ctx.rng('children', tuple(fd))
        if u['nsub']:
            subs = [subs[i] for i in rng.choice(len(subs), u['nsub'], replace=False)]
        else:
            res.add('B/exhaustive', f'{X.refname(fd)}: all {len(subs)} proper non-empty child subsets for with_children')
        for p in u['degrees']:
            X.check_children(fd, p, judge, res, subs, rng)
        # two-level nesting: a child that itself has a subset of children
        ref = X.mkref(fd)
        for rep in range(2):
            inner = [c if rng.random() < .6 else c.empty for c in ref.child_refs]
            if not any(inner):
                inner[0] = ref.child_refs[0]
            wc1 = ref.with_children(inner)
            outer = [wc1 if (k == 0 or rng.random() < .4) else (c if rng.random() < .5 else c.empty) for k, c in enumerate(ref.child_refs)]
            wc2 = ref.with_children(outer)
            for p in u['degrees'][:2]:
                X.check_region(wc2, p, judge, res, f'{X.refname(fd)} nested with_children')
            X.check_concat_schemes(wc2, judge, res, f'{X.refname(fd)} nested with_children')
            res.count('B/nested_with_children')
    elif kind == 'trim':
        fd = u['fdims']
        nd = sum(fd)
        for k in range(u['start'], u['stop']):
            rng = ctx.rng('trim', tuple(fd), k)
            c = rng.normal(size=nd)
            c0 = -float(c @ rng.uniform(.15, .85, size=nd))
            coef = dict(c0=c0, c=c.tolist())
            if k % 3 == 2:
                coef.update(q=float(rng.normal()), m=rng.uniform(0, 1, nd).tolist())
            maxdeg = 6 if 2 in fd or nd == 2 else 7
            degs = sorted(set(int(d) for d in rng.choice(numpy.arange(1, maxdeg + 1), 3 if nd < 3 else 2, replace=False)))
            if nd == 3:
                degs = [min(d, 4) for d in degs]
            for mr in ((0, 1, 2) if nd < 3 else (0, 1)):
                if ctx.expired():
                    res.count('B/units_cut_by_deadline')
                    break
                X.check_trim(fd, coef, mr, int(rng.choice([4, 8, 8, 16])), sorted(set(degs)), judge, res, rng)
    elif kind == 'topo':
        for k in range(u['start'], u['stop']):
            rng = ctx.rng('topo', k)
            recipe = M.gen_recipe(rng)
            while recipe['kind'] == 'unitsquare':
                recipe = M.gen_recipe(rng)
            nd = M._recipe_dims(recipe)
            coefs = [dict(c=rng.normal(size=nd).round(4).tolist(), t=float(numpy.round(rng.uniform(.3, .7), 3))) for _ in range(2)]
            if rng.random() < .5:
                coefs[1]['q'] = float(numpy.round(rng.normal(), 3))
            ops_list = [[], [['refined']], [['refined_by', int(rng.integers(0, 2**31))]], [['trim', coefs[0], 0]], [['trim', coefs[1], 1]],
                        [['refined'], ['trim', coefs[0], 0]]]
            if nd == 3:
                ops_list = [ops_list[0], ops_list[2], ops_list[3]]
            maxdeg = {1: 8, 2: 6, 3: 5}[nd] if recipe['kind'] == 'simplex' or nd > 1 else 8
            degree = int(rng.integers(1, maxdeg + 1))
            label['recipe'], label['degree'] = recipe, degree
            for monitor, detail in M.check_topology_exactness(recipe, ops_list, degree, res, tolerance):
                res.violation(monitor, dict(label, k=k), detail)
    res.count('B/units')
    res.count('B/checked', judge.checked)
    res.count('B/marginal', judge.marginal)
    res.maximum('B/max_residual', judge.maxerr)
    for monitor, detail in judge.problems[:20]:
        res.violation(monitor, label, detail)


def run_units(units, ctx):
    from vlib import c09_exact as X
    res = Result()
    st = X.selftest()
    res.count('selftest_runs')
    if st:
        res.count('selftest_failures', len(st))
        res.note('oracle self-test failed: ' + '; '.join(st[:3]))
        return res
    for u in units:
        if u['kind'] == 'A':
            for i in range(u['start'], u['stop']):
                if ctx.expired():
                    res.count('cases_skipped_deadline')
                    continue
                t0 = time.time()
                case = gen_case(ctx.seed, i)
                execute(case, res)
                fold_obs(res)
                res.count('ms/A', int(1000 * (time.time() - t0)))
                if i % 701 == 0:
                    res.sample(dict(index=i, expr=case['expr']))
        else:
            if ctx.expired():
                res.count('B/units_skipped_deadline')
                res.add('B/skipped_units', json.dumps(u))
                continue
            t0 = time.time()
            try:
                with warnings.catch_warnings():
                    warnings.simplefilter('ignore')
                    run_b_unit(u, ctx, res)
            except Exception:
                res.violation('exception in exactness unit', dict(u, seed=ctx.seed, tier=ctx.tier), traceback.format_exc()[-1800:])
            res.count('ms/' + u['kind'], int(1000 * (time.time() - t0)))
            res.maximum('B/slowest_unit_s', round(time.time() - t0, 1))
            res.maximum('B/last_unit_done_s', round(time.time() - (ctx.deadline - BUDGET_S[ctx.tier]), 1))
    return res


def replay(case):
    res = Result()
    if 'expr' in case:
        execute(case, res)
    else:
        class Ctx:
            tier = case.get('tier', 'quick')
            seed = case.get('seed', 0)
            def expired(self): return False
            def rng(self, *key): return rng_for(self.seed, *key)
        with warnings.catch_warnings():
            warnings.simplefilter('ignore')
            run_b_unit({k: v for k, v in case.items() if k not in ('k', 'recipe', 'degree', 'seed', 'tier')}, Ctx(), res)
    return res.violations


# ------------------------------------------------------------------------------------------------ ledger reproducers

def repro_vtk():
    from nutils import mesh, element
    try:
        topo, geom = mesh.rectilinear([2, 2])
        smp = topo.sample('vtk', None)
        x = smp.eval(geom)
        pts = (element.getsimplex(1)**2).getpoints('vtk', None).coords
    except TypeError as e:
        return True, f"rectilinear([2,2]).sample('vtk', None) raised TypeError: {e}"
    ok = x.shape == (16, 2) and sorted(map(tuple, pts.tolist())) == [(0., 0.), (0., 1.), (1., 0.), (1., 1.)]
    return (not ok), f"vtk sample on 2x2 squares evaluates to shape {x.shape}; reference points {pts.tolist()}"


def repro_empty_product():
    from nutils import mesh
    A, a = mesh.line(2, space='A')
    B, b = mesh.line(2, space='B')
    empty = A.sample('gauss', 1).take_elements(numpy.array([], int))
    out = []
    for name, s in ('empty*B', empty * B.sample('gauss', 1)), ('B*empty', B.sample('gauss', 1) * empty):
        try:
            v = s.eval(b)
            if v.shape != (0,):
                out.append(f'{name}: eval shape {v.shape}')
        except AssertionError:
            out.append(f'{name}: sample.eval raised AssertionError (integrate gives {s.integrate(b)})')
    return bool(out), '; '.join(out) or 'product samples with an empty factor evaluate to shape (0,)'


REPRODUCERS = {VTK_FINDING: repro_vtk, EMPTYMUL_FINDING: repro_empty_product}


# ------------------------------------------------------------------------------------------------ finalize

def _sub(c, prefix):
    return {k[len(prefix):]: v for k, v in sorted(c.items()) if k.startswith(prefix)}


def finalize(m, tier, seed):
    c = m.counters
    cov = dict(evaluations=c.get('evaluations', 0) + c.get('B/triples', 0) + c.get('B/region_triples', 0) + c.get('B/child_triples', 0) + c.get('B/partition_triples', 0) + c.get('B/topology_triples', 0),
               distinct_nontrivial=len(m.sets.get('distinct', ())), rule=RULE, samples=m.samples[:3],
               sample_cases=dict(generated=c.get('evaluations', 0), built=c.get('A/cases_built', 0), evaluated=c.get('A/cases_evaluated', 0),
                                 rejected=c.get('A/rejected_cases', 0), skipped=c.get('A/skipped_cases', 0), skipped_deadline=c.get('cases_skipped_deadline', 0),
                                 rejected_at_eval=c.get('A/rejected_at_eval', 0), empty=c.get('A/empty_samples', 0),
                                 no_weights=c.get('A/no_weights_integration_skipped', 0)),
               constructions_by_kind=_sub(c, 'A/constructions/'), cases_by_depth=_sub(c, 'A/depth/'), evaluated_by_depth=_sub(c, 'A/evaluated_depth/'),
               evaluated_cases_containing=_sub(c, 'A/evaluated_with/'), real_sample_types=sorted(m.sets.get('A/real_types', ())),
               monitors=dict(structure_checks=c.get('A/structure_checks', 0), getindex_calls=c.get('A/getindex_calls', 0), eval_comparisons=c.get('A/eval_comparisons', 0),
                             integral_comparisons=c.get('A/integral_comparisons', 0), integral_vs_own_weights=c.get('A/integral_vs_own_weights', 0),
                             own_weight_tables=c.get('A/real_weight_tables', 0), own_weights_unavailable=c.get('A/real_weights_unavailable', 0),
                             element_crosschecks=c.get('A/element_crosschecks', 0), union_take_elements=c.get('A/union_take_elements', 0), union_take_elements_regrouped=c.get('A/union_take_elements_regrouped', 0),
                             direct_evaluations=c.get('A/direct_evaluations', 0), numpy_geometry_oracle=c.get('A/numpy_geometry_oracle', 0), marginal=c.get('A/marginal', 0)),
               rejected_kinds=sorted(m.sets.get('A/rejected_kinds', ()))[:40], skip_reasons=sorted(m.sets.get('A/skip_reasons', ())),
               worker_cpu_ms_by_unit_kind=_sub(c, 'ms/'), structure_only_too_large=c.get('A/structure_only_too_large', 0),
               max_npoints=m.maxima.get('A/max_npoints'), max_nelems=m.maxima.get('A/max_nelems'),
               exactness=dict(triples_closed_form=c.get('B/triples', 0), triples_documented=c.get('B/triples_documented', 0), triples_beyond_documented_maximum=c.get('B/triples_beyond_documented', 0),
                              child_triples=c.get('B/child_triples', 0), region_triples=c.get('B/region_triples', 0), partition_triples=c.get('B/partition_triples', 0),
                              topology_triples=c.get('B/topology_triples', 0), topology_integrals=c.get('B/topology_integrals', 0), with_children=c.get('B/with_children', 0),
                              nested_with_children=c.get('B/nested_with_children', 0), trims=c.get('B/trims', 0), trims_nontrivial=c.get('B/trims_nontrivial', 0),
                              concat_scheme_checks=c.get('B/concat_schemes', 0), bezier_points_deduplicated=c.get('B/bezier_dedup_removed', 0), scheme_point_sets=c.get('B/scheme_points', 0),
                              vtk_vertex_checks=c.get('B/vtk_vertex_checks', 0), tuple_degrees=c.get('B/tuple_degrees', 0), comparisons=c.get('B/checked', 0), marginal=c.get('B/marginal', 0),
                              max_residual=m.maxima.get('B/max_residual'), sharpness_witnesses=c.get('B/sharpness_witnesses', 0), rejected=c.get('B/rejected', 0),
                              units=c.get('B/units', 0), units_skipped_deadline=c.get('B/units_skipped_deadline', 0) + c.get('B/units_cut_by_deadline', 0),
                              reference_kinds=sorted(m.sets.get('B/kinds', ())), schemes=sorted(m.sets.get('B/schemes', ())), rejected_kinds=sorted(m.sets.get('B/rejected_kinds', ())),
                              topology_kinds=sorted(m.sets.get('B/topology_kinds', ())), exhaustive=sorted(m.sets.get('B/exhaustive', ())),
                              ref_degree_pairs=len(m.sets.get('B/ref_degree', ())), skipped_units=sorted(m.sets.get('B/skipped_units', ())),
                              slowest_unit_s=m.maxima.get('B/slowest_unit_s'), last_unit_done_s=m.maxima.get('B/last_unit_done_s')))
    sc, mon, exa = cov['sample_cases'], cov['monitors'], cov['exactness']
    need_kinds = ['new', 'custom', 'topomul', 'topotake', 'locate', 'mul', 'add', 'take', 'subset', 'zip', 'rename']
    why = []
    if c.get('selftest_failures'):
        why.append('oracle self-test (Duffy rule vs closed form) failed: ' + '; '.join(m.notes[:2]))
    if exa['marginal'] or mon['marginal'] > .005 * max(1, mon['eval_comparisons'] + mon['integral_comparisons']):
        why.append(f"{exa['marginal']} exactness residual(s) between 1e-12 and 1e-10 (max {exa['max_residual']}) / {mon['marginal']} marginal value comparison(s)")
    if sc['generated'] < MINFRAC * NCASES[tier]:
        why.append(f"only {sc['generated']} of {NCASES[tier]} sample cases ran before the deadline")
    elif sc['evaluated'] < .5 * sc['generated']:
        why.append(f"only {sc['evaluated']} of {sc['generated']} sample cases reached the eval/integrate monitors")
    if any(cov['evaluated_cases_containing'].get(k, 0) < 5 for k in need_kinds):
        why.append('constructor kinds barely reached by the value monitors: ' + ','.join(k for k in need_kinds if cov['evaluated_cases_containing'].get(k, 0) < 5))
    if any(cov['evaluated_by_depth'].get(str(d), 0) < 5 for d in (1, 2, 3, 4)):
        why.append('some nesting depth in 1..4 barely evaluated')
    if mon['integral_vs_own_weights'] < 100 or mon['integral_comparisons'] < 500 or mon['getindex_calls'] < 1000 or mon['element_crosschecks'] < 50:
        why.append('integration / ordering monitors barely reached')
    if exa['units_skipped_deadline']:
        why.append(f"{exa['units_skipped_deadline']} exactness unit(s) cut by the deadline: finite tables not enumerated completely")
    if exa['triples_documented'] < 1500 or exa['trims_nontrivial'] < 20 or exa['with_children'] < 50 or exa['topology_integrals'] < 20:
        why.append('exactness tables barely reached')
    if not {'MosaicReference', 'WithChildrenReference'} <= set(exa['reference_kinds']):
        why.append('no mosaic / with-children reference produced by trimming')
    inc = '; '.join(why) or None
    return dict(coverage=cov, inconclusive=inc)
