"""C14 — Solvers return a certified solution or raise.

Monitor shape: recording post-condition wrappers (vlib/c14_mon.py) rebound onto the REAL
``Matrix.solve``, ``Matrix._solver``, ``Matrix.solve_leniently``, ``System.solve``, ``System.step``,
``System.solve_constraints`` and ``_with_solve.solve_withinfo``; every call made anywhere below them
(also the inner linear solves of the Newton family) is checked against an independent dense numpy
recomputation of constraints and free-row residual.  The legacy wrappers (solve_linear, newton,
minimize, pseudotime, thetamethod, optimize) and ``Topology.project`` are driven from here and
checked at the call site with the same predicates.  MatrixError / SolverError are accepted refusals;
other exception types are counted as 'other-refusal' evidence.  A per-case watchdog (CPU-time itimer
plus a signal.alarm wall backstop) only ever yields 'inconclusive for that case'; every solve is
bounded by maxiter.  Deterministic reproducers of the ledger mechanisms run as family R on every run.
"""

import hashlib, itertools, json, os, traceback, warnings
import numpy
from vlib.runner import Result, rng_for
from vlib import c14_mon as mon
from vlib import c14_gen as gen
from vlib.c14_mon import S

PROPERTY = 'C14'
LEVEL = 'exploration'
RULE = ('five random case families, each case reproducible from (seed, family, index): L = dense n<=12 matrix (SPD, nonsymmetric, diagonally '
        'dominant, cond up to 1e14, exactly singular, singular free block, zero rows+cols, scaled identity; real/complex) x rhs (random, zero, '
        'within tolerance, None, multi-column) x constraints (none, bool, NaN-float, row, all) x lhs0 x every solver/preconditioner name of the '
        'backend (numpy, scipy) x atol/rtol in {0,1e-3,1e-10} x truncate, solved twice from different initial guesses; S = linear Systems (1-2 '
        'trials, functional or residual form, parameter dependent for Arnoldi reuse) through System.solve/Direct/Arnoldi/solve_linear/optimize/'
        'solve_constraints; N = nonlinear Systems (polynomial with known roots, log/sqrt/reciprocal that turn NaN/inf at the start or after a '
        'step, rootless and cycling maps, convex and non-convex functionals) x all methods x maxiter/miniter x legacy wrappers; T = System.step '
        'with time-step bisection and thetamethod histories of 3-5 steps; P = Topology.project on boundaries with droptol. non-trivial = at '
        'least one free unknown and at least one monitored call whose post-condition (or refusal) was evaluated; distinct = hash of the '
        'structural descriptor of the case (kinds, sizes, constraint pattern, solver configuration, tolerances)')
ASSUMPTIONS = ['dense numpy arithmetic (matrix export("dense") @ x, checked separately by C15) is the reference for residuals',
               'requested tolerance is read from the call: max(atol, rtol*|b_free|) for Matrix.solve, tol for System.solve, newtontol for thetamethod',
               'atol = rtol = 0 promises no number: only finiteness, constraints and (for exact solver configurations) independence of the initial guess within 1e3*cond*eps are demanded',
               'non-finite matrix/rhs (or norms that overflow): only finiteness and constraints of a RETURNED vector are demanded; non-finite lhs0/constraint values are outside the domain (counted)',
               'initial-guess independence: 1e3*cond*eps for factorisations, 1e3*cond^2*eps for the arnoldi iteration with an inexact preconditioner (GCR-type iteration, not backward stable)',
               'direct solver with an inexact preconditioner, and truncated arnoldi with an inexact preconditioner, are excluded from the initial-guess-independence monitor at atol = rtol = 0 (they make no exactness claim); discrepancy recorded as information',
               'termination is not judged: every solve is bounded by maxiter and the per-case watchdog only yields inconclusive-for-that-case',
               'MKL backend not installable offline: not covered']
_SCALE = float(os.environ.get('VERIF_C14_BUDGET_SCALE', '1') or 1)   # >1 only for sweeps on an overloaded machine
BUDGET_S = {'quick': 75 * _SCALE, 'thorough': 1320 * _SCALE}
GRACE_S = 60
NCASES = {'quick': dict(L=4000, S=300, N=300, T=90, P=40, R=1), 'thorough': dict(L=100000, S=12000, N=12000, T=3000, P=1200, R=1)}
CHUNK = dict(L=100, S=20, N=20, T=10, P=5, R=1)
CASE_CPU_S = {'quick': 6, 'thorough': 15}   # per-case CPU-time watchdog; the wall-clock alarm behind it is 10x this
NAN_FINDING = 'C14-nan-residual-returns-guess'
MULTIRHS_FINDING = 'C14-arnoldi-multirhs-zero-column'
MULTIRHS_CONS_FINDING = mon.MULTIRHS_CONS_FINDING
STEP_FINDING = mon.STEP_FINDING
COMPLEX_ARNOLDI_FINDING = 'C14-arnoldi-complex-orthogonalisation'


def plan(tier, seed):
    units = []
    for fam, n in NCASES[tier].items():
        c = CHUNK[fam]
        units += [dict(family=fam, start=i, stop=min(n, i + c)) for i in range(0, n, c)]
    order = rng_for(seed, 'c14-plan').permutation(len(units))
    units = [units[i] for i in order]
    units.sort(key=lambda u: u['family'] != 'R')   # the deterministic regression unit goes first (stable sort keeps the shuffle)
    return units


def dhash(desc):
    return hashlib.sha1(json.dumps(desc, default=str).encode()).hexdigest()[:14]


_BACKENDS = None


def backends():
    global _BACKENDS
    if _BACKENDS is None:
        from nutils import matrix
        _BACKENDS = ['numpy']
        try:
            matrix.backend('scipy')
            _BACKENDS.append('scipy')
        except Exception:
            pass
    return _BACKENDS


def attempt(fn):
    """run a call into nutils; exceptions are classified by the wrappers they pass through"""
    try:
        return True, fn()
    except mon.WallWatchdog:
        raise
    except Exception as e:
        return False, e


def refusal(where, e):
    """an exception that reached the call site: record it for entry points that have no class-level wrapper"""
    mon.record_exception(where, e)


ATOLS = [0., 1e-3, 1e-10]


# ================================================================== family L: Matrix.solve

def gen_linear(rng):
    b = str(rng.choice(backends()))
    n = int(rng.integers(1, 13))
    mkind = str(rng.choice(gen.MKINDS, p=gen.MKIND_P))
    cplx = bool(rng.random() < .18)
    A, info = gen.gen_matrix(rng, n, mkind, cplx)
    # constraints
    ckind = str(rng.choice(['none', 'bool', 'float', 'row', 'all'], p=[.3, .25, .25, .15, .05]))
    if mkind == 'zerorc' and rng.random() < .6:
        ckind = str(rng.choice(['bool', 'float']))
        cmask = info['Z'].copy()
    elif ckind == 'all':
        cmask = numpy.ones(n, dtype=bool)
        ckind = str(rng.choice(['bool', 'float']))
    else:
        cmask = rng.random(n) < .35
    if mkind == 'singfree' and n >= 3:
        cmask = numpy.zeros(n, dtype=bool)
        cmask[rng.choice(n, size=max(1, n // 3), replace=False)] = True
        if ckind in ('none', 'row'):
            ckind = 'bool'
        F = ~cmask
        k = int(F.sum())
        Sg = rng.integers(-2, 3, size=(k, k)).astype(A.dtype)
        Sg[-1] = Sg[0] if k > 1 else 0.
        A[numpy.ix_(F, F)] = Sg
    rmask = None
    if ckind == 'row':
        if rng.random() < .75:
            rmask = numpy.zeros(n, dtype=bool)
            rmask[rng.choice(n, size=int(cmask.sum()), replace=False)] = True
        else:
            rmask = rng.random(n) < .35   # usually a non-square free block: must be refused
    # start vector
    l0kind = str(rng.choice(['none', 'random', 'big'], p=[.4, .45, .15]))
    if ckind in ('bool', 'row') and rng.random() < .8 and l0kind == 'none':
        l0kind = 'random'
    def vec(scale=1.):
        v = rng.normal(size=n) * scale
        return v + 1j * rng.normal(size=n) * scale if cplx else v
    lhs0 = None if l0kind == 'none' else vec(1. if l0kind == 'random' else 50.)
    cvals = vec()
    # right-hand side
    rkind = str(rng.choice(['random', 'zero', 'tiny', 'none', 'multi', 'consistent', 'nonfinite'], p=[.42, .08, .12, .05, .15, .15, .03]))
    atol, rtol = float(rng.choice(ATOLS, p=[.45, .25, .3])), float(rng.choice(ATOLS, p=[.55, .2, .25]))
    x0 = numpy.zeros(n, dtype=A.dtype) if lhs0 is None else lhs0.astype(A.dtype)
    if ckind == 'float':
        x0 = numpy.where(cmask, cvals, x0)
    if rkind == 'random':
        rhs = vec(10. ** float(rng.integers(-2, 3)))
    elif rkind == 'zero':
        rhs = numpy.zeros(n, dtype=A.dtype)
    elif rkind == 'tiny':   # reduced right-hand side within the requested tolerance
        d = vec()
        d = d / max(numpy.linalg.norm(d), 1e-300) * (.3 * atol if atol else 1e-15)
        rhs = A @ x0 + d
    elif rkind == 'consistent':
        rhs = A @ vec()
    elif rkind == 'nonfinite':   # garbage in: only finiteness of a returned vector is demanded
        rhs = vec()
        rhs[int(rng.integers(n))] = float(rng.choice([numpy.inf, -numpy.inf, numpy.nan, 1e200]))
    elif rkind == 'multi':
        k = int(rng.integers(2, 4))
        rhs = numpy.stack([vec() for _ in range(k)], axis=1)
        sub = rng.random()
        if sub < .25:
            rhs[:, int(rng.integers(k))] = 0.
        elif sub < .4:
            rhs[:, 1] = rhs[:, 0]
    else:
        rhs = None
    if rhs is not None:
        rhs = rhs.astype(A.dtype)
    solver, precon = gen.SOLVER_PAIRS[b][int(rng.integers(len(gen.SOLVER_PAIRS[b])))]
    kw = {}
    if rng.random() < .015:
        solver = 'nonexistent'
    if rng.random() < .015:
        precon = 'nonexistent'
    if precon is not None:
        kw['precon'] = precon
    truncate = None
    if solver == 'arnoldi' and rng.random() < .4:
        truncate = int(rng.choice([1, 2, 5]))
        kw['truncate'] = truncate
    if solver in ('bicg', 'bicgstab', 'cg', 'cgs', 'gmres', 'lgmres'):
        kw['maxiter'] = int(rng.choice([3, 20, 60]))
    elif rng.random() < .15:
        kw['symmetric'] = bool(rng.random() < .5)
    api = 'solve_leniently' if rng.random() < .25 else 'solve'
    return dict(backend=b, n=n, mkind=mkind, cplx=cplx, A=A, ckind=ckind, cmask=cmask, cvals=cvals, rmask=rmask, l0kind=l0kind, lhs0=lhs0, rkind=rkind, rhs=rhs,
                atol=atol, rtol=rtol, solver=solver, precon=precon, truncate=truncate, kw=kw, api=api, logcond=info.get('logcond'))


def linear_call_args(g, lhs0):
    kw = dict(g['kw'], solver=g['solver'], atol=g['atol'], rtol=g['rtol'])
    if lhs0 is not None:
        kw['lhs0'] = lhs0
    if g['ckind'] == 'bool':
        kw['constrain'] = g['cmask']
    elif g['ckind'] == 'float':
        c = numpy.where(g['cmask'], g['cvals'].real, numpy.nan)   # float constraints are real-valued (NaN marks free)
        kw['constrain'] = c
    elif g['ckind'] == 'row':
        kw['constrain'] = g['cmask']
        kw['rconstrain'] = g['rmask']
    return kw


def run_linear(rng, case, res):
    from nutils import matrix
    g = gen_linear(rng)
    desc = [g['backend'], g['n'], g['mkind'], g['cplx'], g['ckind'], g['cmask'].astype(int).tolist() if g['ckind'] != 'none' else None,
            None if g['rmask'] is None else g['rmask'].astype(int).tolist(), g['l0kind'], g['rkind'], g['solver'], g['precon'], g['truncate'], g['atol'], g['rtol'], g['api']]
    case.update(desc=desc, A=gen.tolist(g['A']), rhs=None if g['rhs'] is None else gen.tolist(g['rhs']), lhs0=None if g['lhs0'] is None else gen.tolist(g['lhs0']),
                kw={k: v for k, v in g['kw'].items()})
    res.count('L/mkind/' + g['mkind'])
    res.count('L/ckind/' + g['ckind'])
    res.count('L/rkind/' + g['rkind'])
    res.add('solver_configs_requested', f"{g['backend']}:{g['solver']}:{g['precon']}")
    before = S.res.counters.get('Matrix.solve/calls', 0)
    with matrix.backend(g['backend']):
        M = gen.assemble(g['A'])
        kwa = linear_call_args(g, g['lhs0'])
        nwarn = S.log.nwarn
        ok, xa = attempt(lambda: getattr(M, g['api'])(g['rhs'], **kwa))
        lenient_warned = g['api'] == 'solve_leniently' and S.log.nwarn > nwarn
        nfree = int((~g['cmask']).sum()) if g['ckind'] != 'none' else g['n']
        if nfree and S.res.counters.get('Matrix.solve/calls', 0) > before:
            res.add('distinct', dhash(desc))
        # history on the SAME matrix object: further solves with the constraint pattern moved to other positions (same count),
        # then the original pattern again; every call passes through the recording post-conditions (residual, constraints)
        if g['ckind'] != 'none' and 0 < g['cmask'].sum() < g['n']:
            g2 = dict(g)
            for rep in range(2):
                perm = rng.permutation(g['n'])
                g2['cmask'] = g['cmask'][perm]
                if (g2['cmask'] == g['cmask']).all():
                    continue
                g2['cvals'] = g['cvals'][perm] if g.get('cvals') is not None else None
                res.count('L/history/moved-constraints')
                attempt(lambda: M.solve(g['rhs'], **linear_call_args(g2, g['lhs0'])))
            attempt(lambda: M.solve(g['rhs'], **kwa))
        # second solve from another start vector: for a linear problem the answer may not depend on it
        if g['ckind'] == 'row' and (g['rmask'] is None or g['rmask'].sum() != g['cmask'].sum()):
            return
        res.count('L/independence/attempted')
        v = rng.normal(size=g['n']) * float(rng.choice([1., 10.]))
        lhs0b = (v + 1j * rng.normal(size=g['n'])).astype(g['A'].dtype) if g['cplx'] else v
        if g['ckind'] in ('bool', 'row'):   # prescribed values come from lhs0: keep them
            base = numpy.zeros(g['n'], dtype=g['A'].dtype) if g['lhs0'] is None else g['lhs0']
            lhs0b = numpy.where(g['cmask'], base, lhs0b)
        kwb = linear_call_args(g, lhs0b)
        okb, xb = attempt(lambda: M.solve(g['rhs'], **kwb))
        if not (ok and okb):
            res.count('L/independence/one-refused')
            return
        if lenient_warned:   # the lenient answer was announced as not meeting the tolerance: nothing to compare
            res.count('L/independence/lenient-warned-skipped')
            return
        check_independence(g, xa, xb, kwa, kwb, res, M)


def multirhs_mechanism(g, M, kwa, kwb, bound):
    """behavioural predicate of the known arnoldi multi-column defect (the Krylov loop stops for ALL columns as soon as ONE column has a
    zero search vector): solver arnoldi, several rhs columns, and solving the columns one at a time IS independent of the start vector"""
    if g['solver'] != 'arnoldi' or g['rhs'] is None or g['rhs'].ndim != 2 or M is None:
        return False
    for j in range(g['rhs'].shape[1]):
        col = numpy.ascontiguousarray(g['rhs'][:, j])
        oka, xa = attempt(lambda: M.solve(col, **kwa))
        okb, xb = attempt(lambda: M.solve(col, **kwb))
        if not (oka and okb) or not mon.colnorm(xa - xb) <= bound:
            return False
    return True


def check_independence(g, xa, xb, kwa, kwb, res, M=None):
    A = g['A']
    n = g['n']
    J = ~g['cmask'] if g['ckind'] != 'none' else numpy.ones(n, dtype=bool)
    I = ~g['rmask'] if g['ckind'] == 'row' else J
    if not J.any():
        res.count('L/independence/no-free-dofs')
        if not mon.bits_equal(xa, xb):
            S.violate('independence', 'all entries constrained but two start vectors give different answers')
        return
    Aff = A[numpy.ix_(I, J)]
    sv = numpy.linalg.svd(Aff, compute_uv=False)
    if sv[-1] <= 1e-15 * sv[0] or sv[0] == 0:
        res.count('L/independence/singular-skipped')
        return
    cond = float(sv[0] / sv[-1])
    def start(kw):
        x0 = numpy.zeros(n, dtype=A.dtype) if kw.get('lhs0') is None else numpy.asarray(kw['lhs0'], dtype=A.dtype)
        c = kw.get('constrain')
        if c is not None and c.dtype != bool:
            x0 = numpy.where(numpy.isnan(c), x0, c)
        return x0
    x0a, x0b = start(kwa), start(kwb)
    rhs = numpy.zeros(n, dtype=A.dtype) if g['rhs'] is None else g['rhs']
    if not numpy.isfinite(mon.colnorm(rhs)):
        res.count('L/independence/nonfinite-input-skipped')
        return
    def tolof(x0):
        X0 = x0 if rhs.ndim == 1 else numpy.repeat(x0[:, None], rhs.shape[1], axis=1)
        return max(g['atol'], g['rtol'] * mon.colnorm((rhs - A @ X0)[I]))
    tola, tolb = tolof(x0a), tolof(x0b)
    d = mon.colnorm(numpy.asarray(xa) - numpy.asarray(xb))
    scale = max(mon.colnorm(xa), mon.colnorm(xb), float(numpy.linalg.norm(x0a)), float(numpy.linalg.norm(x0b)))
    # a factorisation is backward stable (error ~ cond*eps); the GCR-type arnoldi iteration with an INEXACT preconditioner stagnates
    # earlier on ill-conditioned matrices, it is only held to cond^2*eps (vacuous beyond cond ~ 1e6, sharp for well-conditioned ones)
    condfac = cond ** 2 if (g['solver'] == 'arnoldi' and g['precon'] not in gen.EXACT_PRECON) else cond
    bound = (tola + tolb) / float(sv[-1]) * (1 + 1e-6) + 1e3 * condfac * mon.EPS * scale
    exact = gen.exact_config(g['solver'], g['precon'], g['truncate'])
    if tola == 0 and tolb == 0 and not exact:
        res.count('L/independence/inexact-config-at-tol0-skipped')
        if scale > 0:
            res.maximum('inexact_config_tol0_discrepancy_rel', float(d / scale))
        return
    if bound >= .1 * max(scale, 1e-300):
        res.count('L/independence/vacuous-bound')
        return
    res.count('L/independence/checked')
    if tola == 0 and tolb == 0:
        res.count('L/independence/checked-at-tol0')
    if not d <= bound:
        if d <= 10 * bound:
            res.count('L/independence/marginal')
            return
        mech = MULTIRHS_FINDING if multirhs_mechanism(g, M, kwa, kwb, bound) else None
        if mech is None and g['cplx'] and g['solver'] == 'arnoldi' and g['precon'] in ('diag', 'spilu', 'spilu0'):
            # known mechanism: complex matrix + arnoldi with an inexact preconditioner (more than one Krylov vector: conjugation slip in the orthogonalisation)
            mech = COMPLEX_ARNOLDI_FINDING
        S.violate('independence', f'two start vectors give solutions differing by {d:.3e} > bound {bound:.3e} (cond {cond:.2e}, condition factor used {condfac:.2e}, tolerances {tola:.1e}/{tolb:.1e}, '
                  f'solver {g["solver"]}/{g["precon"]}, truncate {g["truncate"]}); xa={numpy.asarray(xa).tolist()} xb={numpy.asarray(xb).tolist()}', mech)


# ================================================================== family S: linear Systems

def pick_linargs(rng, backend, exact_only=False):
    """linear-solver keyword arguments for Direct/Newton(**linargs) and the legacy lin* keywords"""
    r = rng.random()
    if r < .45:
        return {}
    pairs = [p for p in gen.SOLVER_PAIRS[backend] if not exact_only or (p[0] in ('direct', 'arnoldi') and p[1] in gen.EXACT_PRECON)]
    s, p = pairs[int(rng.integers(len(pairs)))]
    la = dict(solver=s)
    if p is not None:
        la['precon'] = p
    if s in ('bicg', 'bicgstab', 'cg', 'cgs', 'gmres', 'lgmres'):
        la['maxiter'] = 40
    if rng.random() < .4:
        la['atol'] = float(rng.choice([1e-10, 1e-3]))
    if rng.random() < .3:
        la['rtol'] = float(rng.choice([1e-10, 1e-3]))
    return la


def free_cond(model, cons, y=0.):
    A, b = model.dense(y)
    free = numpy.concatenate([numpy.ones(model.shapes[t][0], bool) if t not in cons else (~cons[t] if cons[t].dtype == bool else numpy.isnan(cons[t])) for t in model.trials])
    if not free.any():
        return free, None, None
    sv = numpy.linalg.svd(A[numpy.ix_(free, free)], compute_uv=False)
    if sv[0] == 0 or sv[-1] <= 1e-15 * sv[0]:
        return free, None, None
    return free, float(sv[0] / sv[-1]), float(sv[-1])


def guesses(rng, model, cons, mode):
    out = {}
    for t in model.trials:
        n = model.shapes[t][0]
        need = t in cons and cons[t].dtype == bool
        if mode == 'none' and not (need and rng.random() < .7):
            continue
        out[t] = rng.normal(size=n) * float(rng.choice([1., 10.]))
    return out


def run_linsys(rng, case, res):
    from nutils import matrix, solver
    b = str(rng.choice(backends()))
    api = str(rng.choice(['solve-default', 'solve-direct', 'solve-arnoldi', 'solve_linear', 'optimize', 'solve_constraints', 'optimize-droptol', 'minimize-on-linear'],
                         p=[.16, .16, .16, .12, .08, .18, .08, .06]))
    symmetric_form = api in ('optimize', 'optimize-droptol', 'minimize-on-linear') or (api != 'solve_linear' and rng.random() < .4)
    with_param = api == 'solve-arnoldi' or rng.random() < .2
    kind = str(rng.choice(gen.LINSYS_KINDS, p=[.25, .2, .15, .12, .13, .15]))
    if api in ('solve_constraints', 'optimize-droptol') and rng.random() < .75:
        kind = 'zerocols'
    model = gen.linear_model(rng, symmetric_form, with_param, kind)
    cons, ckinds = gen.gen_constrain(rng, model.shapes, model.trials, None, p=.5)
    tol = float(rng.choice([0., 1e-3, 1e-10], p=[.35, .2, .45]))
    if api in ('solve-arnoldi', 'minimize-on-linear') and tol == 0 and rng.random() < .9:
        tol = 1e-10   # iterative methods require tol > 0 (ValueError otherwise: kept as a rare documented refusal)
    y = float(rng.normal()) if with_param else 0.
    extra = {'y': numpy.array(y)} if with_param else {}
    g0 = guesses(rng, model, cons, str(rng.choice(['none', 'random'])))
    desc = ['S', b, api, model.kind, symmetric_form, with_param, [model.shapes[t][0] for t in model.trials],
            {t: (None if t not in cons else (cons[t].astype(int).tolist() if cons[t].dtype == bool else (~numpy.isnan(cons[t])).astype(int).tolist())) for t in model.trials},
            ckinds, tol, sorted(g0)]
    case.update(desc=desc, A=model.A0.tolist(), b=model.b0.tolist(), y=y)
    res.count('S/api/' + api)
    res.count('S/kind/' + model.kind)
    with matrix.backend(b):
        ok, system = attempt(model.system)
        if not ok:
            res.count('S/system-construction-failed')
            res.add('other_refusals', f'System(): {type(system).__name__}: {str(system)[:90]}')
            return
        S.oracle = model.oracle()
        A, bb = model.dense(y)
        S.oracle['linear'] = (A, bb)
        free, cond, smin = free_cond(model, cons, y)
        if free.any():
            res.add('distinct', dhash(desc))
        linargs = pick_linargs(rng, b)

        def call(guess, method_cache={}):
            args = dict(extra, **guess)
            if api == 'solve-default':
                return system.solve(arguments=args, constrain=cons, tol=tol)
            if api == 'solve-direct':
                return system.solve(arguments=args, constrain=cons, tol=tol, method=solver.Direct(**linargs))
            if api == 'solve-arnoldi':
                m = method_cache.setdefault('m', solver.Arnoldi(maxiter=int(rng.choice([1, 2, 4])), **linargs))
                return system.solve(arguments=args, constrain=cons, tol=tol, maxiter=20, method=m)
            if api == 'minimize-on-linear':
                return system.solve(arguments=args, constrain=cons, tol=tol, maxiter=40, method=solver.Minimize(**linargs))
            if api in ('solve_constraints', 'optimize-droptol'):
                return None
            raise ValueError(api)

        if api in ('solve-default', 'solve-direct', 'solve-arnoldi', 'minimize-on-linear'):
            ok1, out1 = attempt(lambda: call(g0))
            if api == 'solve-arnoldi':
                # reuse of the SAME method object with other parameter values: cached factorisation path
                for k in range(int(rng.integers(1, 4))):
                    y2 = y + float(rng.normal()) * float(rng.choice([1e-3, .1, 1.]))
                    S.oracle['linear'] = model.dense(y2)
                    extra2 = {'y': numpy.array(y2)}
                    okk, outk = attempt(lambda: call({**g0, **extra2}))
                    res.count('S/arnoldi-reuse-solves')
                S.oracle['linear'] = (A, bb)
            # independence of the initial guess
            g1 = guesses(rng, model, cons, 'random')
            for t in model.trials:
                if t in cons and cons[t].dtype == bool:
                    base = g0.get(t, numpy.zeros(model.shapes[t][0]))
                    g1[t] = numpy.where(cons[t], base, g1[t])
            ok2, out2 = attempt(lambda: call(g1))
            res.count('S/independence/attempted')
            if ok1 and ok2 and cond is not None:
                xa = numpy.concatenate([out1[t] for t in model.trials])
                xb = numpy.concatenate([out2[t] for t in model.trials])
                scale = max(numpy.linalg.norm(xa), numpy.linalg.norm(xb), *[numpy.linalg.norm(v) for v in list(g0.values()) + list(g1.values())], 1e-300)
                la = linargs if api != 'solve-default' else {}
                exact = gen.exact_config(la.get('solver', 'arnoldi'), la.get('precon'), None) and not (api == 'solve-direct' and (la.get('atol') or la.get('rtol')))
                if api in ('solve-arnoldi', 'minimize-on-linear'):
                    exact = tol > 0
                bound = 2 * tol / smin * (1 + 1e-6) + 1e3 * cond * mon.EPS * scale
                d = float(numpy.linalg.norm(xa - xb))
                if tol == 0 and not exact:
                    res.count('S/independence/inexact-config-at-tol0-skipped')
                elif bound >= .1 * scale:
                    res.count('S/independence/vacuous-bound')
                else:
                    res.count('S/independence/checked')
                    if not d <= bound:
                        if d <= 10 * bound:
                            res.count('S/independence/marginal')
                        else:
                            S.violate('independence', f'{api}: two initial guesses give solutions differing by {d:.3e} > bound {bound:.3e} (cond {cond:.2e}, tol {tol:.1e}, linargs {la})')
        elif api == 'solve_linear':
            kw = {'lin' + k: v for k, v in linargs.items()}
            if len(model.trials) == 1:
                t = model.trials[0]
                a = model.symbols()
                c = cons.get(t)
                ok1, out1 = attempt(lambda: solver.solve_linear(t, residual=model.F(a)[0] if model.F else None, constrain=c, lhs0=g0.get(t), arguments=extra, **kw))
                if ok1:
                    check_at_callsite('legacy.solve_linear', system, {**extra, t: out1}, g0, cons, 0.)
                else:
                    refusal('legacy.solve_linear', out1)
            else:
                a = model.symbols()
                ok1, out1 = attempt(lambda: solver.solve_linear(list(model.trials), residual=model.F(a), constrain=cons, arguments={**extra, **g0}, **kw))
                if ok1:
                    check_at_callsite('legacy.solve_linear', system, out1, {**extra, **g0}, cons, 0.)
                else:
                    refusal('legacy.solve_linear', out1)
        elif api == 'optimize':
            a = model.symbols()
            kw = {'lin' + k: v for k, v in linargs.items()}
            if len(model.trials) == 1:
                t = model.trials[0]
                ok1, out1 = attempt(lambda: solver.optimize(t, model.V(a), tol=tol, constrain=cons.get(t), lhs0=g0.get(t), arguments=extra, **kw))
                if ok1:
                    check_at_callsite('legacy.optimize', system, {**extra, t: out1}, g0, cons, tol)
                else:
                    refusal('legacy.optimize', out1)
            else:
                ok1, out1 = attempt(lambda: solver.optimize(list(model.trials), model.V(a), tol=tol, constrain=cons, arguments={**extra, **g0}, **kw))
                if ok1:
                    check_at_callsite('legacy.optimize', system, out1, {**extra, **g0}, cons, tol)
                else:
                    refusal('legacy.optimize', out1)
        else:   # solve_constraints / optimize with droptol
            entries = numpy.unique(numpy.abs(A[numpy.ix_(free, free)])) if free.any() else numpy.zeros(1)
            choice = rng.random()
            if choice < .5:
                droptol = 1e-12
            elif choice < .6:
                droptol = 0.
            elif choice < .9 and len(entries) > 1:
                k = int(rng.integers(len(entries) - 1))
                droptol = float(.5 * (entries[k] + entries[k + 1]))   # between two actual magnitudes
            else:
                droptol = float(entries.max() * 2 + 1)   # everything dropped
            la = pick_linargs(rng, b, exact_only=True)
            case['droptol'] = droptol
            if api == 'solve_constraints':
                ok1, out1 = attempt(lambda: system.solve_constraints(droptol=droptol, arguments={**extra, **g0}, constrain=cons, linargs=la))
            else:
                a = model.symbols()
                kw = {'lin' + k: v for k, v in la.items()}
                if len(model.trials) == 1:
                    t = model.trials[0]
                    ok1, out1 = attempt(lambda: solver.optimize(t, model.V(a), droptol=droptol, constrain=cons.get(t), lhs0=g0.get(t), arguments=extra, **kw))
                else:
                    ok1, out1 = attempt(lambda: solver.optimize(list(model.trials), model.V(a), droptol=droptol, constrain=cons, arguments={**extra, **g0}, **kw))
                if not ok1:
                    refusal('legacy.optimize', out1)


def check_at_callsite(where, system, out, arguments, constrain, tol):
    """post-condition for legacy wrappers that return the solution themselves (same predicate as the System.solve wrapper)"""
    S.count(where + '/returned')
    mon.check_system_result(where, system, out, arguments, constrain, tol)


# ================================================================== family N: nonlinear Systems

def pick_method(rng, model, backend):
    from nutils import solver
    la = pick_linargs(rng, backend)
    names = ['default', 'newton', 'reuse', 'ls-norm', 'ls-median', 'pseudotime', 'minimize', 'direct', 'arnoldi']
    p = numpy.array([.12, .16, .12, .16, .12, .1, .14 if model.V is not None else .03, .025, .025])
    name = str(rng.choice(names, p=p / p.sum()))
    if name == 'default':
        return name, None, {}
    if name == 'newton':
        return name, solver.Newton(**la), la
    if name == 'reuse':
        return name, solver.ReuseNewton(require=float(rng.choice([.5, .1, .9])), **la), la
    if name == 'ls-norm':
        return name, solver.LinesearchNewton(strategy=solver.NormBased(minscale=float(rng.choice([.01, .3])), acceptscale=float(rng.choice([2 / 3, .9]))),
                                              relax0=float(rng.choice([1., .3])), failrelax=float(rng.choice([1e-6, 1e-2])), **la), la
    if name == 'ls-median':
        return name, solver.LinesearchNewton(strategy=solver.MedianBased(quantile=float(rng.choice([.5, .2, .8]))), failrelax=float(rng.choice([1e-6, 1e-2])), **la), la
    if name == 'pseudotime':
        a = model.symbols()
        inertia = tuple((a[t] * float(rng.choice([1., .1, 10.]))).as_evaluable_array for t in model.trials)
        return name, solver.Pseudotime(inertia=inertia, timestep=float(rng.choice([.01, 1., 100.])), **la), la
    if name == 'minimize':
        return name, solver.Minimize(rampup=float(rng.choice([.5, 1.])), rampdown=float(rng.choice([-1., -.5])), failrelax=float(rng.choice([-10., -3.])), **la), la
    if name == 'direct':
        return name, solver.Direct(**la), la
    return name, solver.Arnoldi(**la), la


def run_nonlinear(rng, case, res):
    from nutils import matrix, solver
    b = str(rng.choice(backends()))
    kind = str(rng.choice(gen.NONLINEAR_KINDS, p=numpy.array(gen.NONLINEAR_P) / sum(gen.NONLINEAR_P)))
    model = gen.nonlinear_model(rng, kind)
    guess = gen.initial_guess(rng, model)
    cons, ckinds = gen.gen_constrain(rng, model.shapes, model.trials, guess, p=.3)
    if kind in ('log', 'recip', 'sqrt', 'logbarrier'):   # constrained values inside the domain of the function
        for t, c in cons.items():
            if c.dtype != bool:
                cons[t] = numpy.where(numpy.isnan(c), c, numpy.abs(c) + .1)
    extra = dict(getattr(model, 'extra_values', {}))
    tol = float(rng.choice([1e-3, 1e-8, 1e-10, 1e-12, 0.], p=[.2, .3, .3, .15, .05]))
    maxiter = int(rng.choice([0, 1, 3, 10, 30], p=[.05, .1, .2, .35, .3]))
    miniter = int(rng.choice([0, 1, 3], p=[.75, .15, .1]))
    api = str(rng.choice(['System.solve', 'legacy.newton', 'legacy.minimize', 'legacy.pseudotime', 'legacy.optimize'], p=[.62, .16, .08, .08, .06]))
    if api in ('legacy.minimize', 'legacy.optimize') and model.V is None:
        api = 'legacy.newton'
    if api in ('legacy.newton', 'legacy.pseudotime') and model.V is not None:
        api = 'System.solve'
    res.count('N/kind/' + kind)
    res.count('N/api/' + api)
    res.count('N/guess/' + str(getattr(model, 'guess_mode', '?')))
    with matrix.backend(b):
        ok, system = attempt(model.system)
        if not ok:
            res.count('N/system-construction-failed')
            res.add('other_refusals', f'System(): {type(system).__name__}: {str(system)[:90]}')
            return
        S.oracle = model.oracle()
        args = {**extra, **guess}
        a = model.symbols()
        single = len(model.trials) == 1
        t0 = model.trials[0]
        if api == 'System.solve':
            mname, method, la = pick_method(rng, model, b)
            res.count('N/method/' + mname)
            desc = ['N', b, kind, api, mname, sorted(la.items()), model.shapes[t0][0], getattr(model, 'guess_mode', None), ckinds, tol, maxiter, miniter]
            ok1, out1 = attempt(lambda: system.solve(arguments=args, constrain=cons, tol=tol, maxiter=maxiter, miniter=miniter, method=method))
        elif api == 'legacy.newton':
            ls = rng.choice(['none', 'norm', 'median'])
            linesearch = None if ls == 'none' else solver.NormBased() if ls == 'norm' else solver.MedianBased()
            res.count('N/method/legacy-newton-' + str(ls))
            la = pick_linargs(rng, b)
            kw = {'lin' + k: v for k, v in la.items()}
            desc = ['N', b, kind, api, str(ls), sorted(la.items()), model.shapes[t0][0], getattr(model, 'guess_mode', None), ckinds, tol, maxiter, miniter]
            def f():
                if single:
                    it = solver.newton(t0, residual=model.F(a)[0], lhs0=guess.get(t0), constrain=cons.get(t0), linesearch=linesearch, arguments=extra, **kw)
                else:
                    it = solver.newton(list(model.trials), residual=model.F(a), constrain=cons, linesearch=linesearch, arguments=args, **kw)
                return it.solve(tol, maxiter=maxiter, miniter=min(miniter, maxiter))
            ok1, out1 = attempt(f)
            if not ok1:
                refusal(api, out1)
        elif api == 'legacy.minimize':
            res.count('N/method/legacy-minimize')
            desc = ['N', b, kind, api, model.shapes[t0][0], getattr(model, 'guess_mode', None), ckinds, tol, maxiter, miniter]
            ok1, out1 = attempt(lambda: solver.minimize(t0, model.V(a), lhs0=guess.get(t0), constrain=cons.get(t0), arguments=extra).solve(tol, maxiter=maxiter, miniter=min(miniter, maxiter)))
            if not ok1:
                refusal(api, out1)
        elif api == 'legacy.pseudotime':
            res.count('N/method/legacy-pseudotime')
            desc = ['N', b, kind, api, model.shapes[t0][0], getattr(model, 'guess_mode', None), ckinds, tol, maxiter, miniter]
            def f():
                if single:
                    it = solver.pseudotime(t0, residual=model.F(a)[0], inertia=a[t0], timestep=float(rng.choice([.1, 10.])), lhs0=guess.get(t0), constrain=cons.get(t0), arguments=extra)
                else:
                    it = solver.pseudotime(list(model.trials), residual=model.F(a), inertia=[a[t] for t in model.trials], timestep=1., constrain=cons, arguments=args)
                return it.solve(tol, maxiter=maxiter, miniter=min(miniter, maxiter))
            ok1, out1 = attempt(f)
            if not ok1:
                refusal(api, out1)
        else:   # legacy.optimize on a convex functional (no maxiter available: convex cases only)
            res.count('N/method/legacy-optimize')
            desc = ['N', b, kind, api, model.shapes[t0][0], getattr(model, 'guess_mode', None), ckinds, tol]
            if kind != 'quartic':
                return
            ok1, out1 = attempt(lambda: solver.optimize(t0, model.V(a), tol=tol, lhs0=guess.get(t0), constrain=cons.get(t0), arguments=extra))
            if ok1:
                check_at_callsite('legacy.optimize', system, {**extra, t0: out1}, guess, cons, tol)
            else:
                refusal(api, out1)
        case.update(desc=desc, guess={k: v.tolist() for k, v in guess.items()})
        res.add('distinct', dhash(desc))
        res.count('N/outcome/' + ('returned' if ok1 else type(out1).__name__))
        if ok1 and model.root is not None:
            res.count('N/returned-with-known-root')


# ================================================================== family T: time stepping

def time_model(rng, with_time):
    n = int(rng.integers(1, 4))
    A = gen.diagdom(rng, n)
    c = rng.uniform(0., 3., size=n) * float(rng.choice([0., 1., 30.]))
    f = rng.normal(size=n) * float(rng.choice([1., 10.]))
    m = rng.uniform(.5, 2., size=n)
    hard = bool(rng.random() < .3)   # sqrt term: NaN as soon as an iterate turns negative
    mv = gen.mv

    def R(u, t):
        r = mv(A, u) + c * u ** 3 - f * (1 + (t if with_time else 0.))
        if hard:
            r = r + numpy.sqrt(u + 2.) - 1.
        return r
    return dict(n=n, A=A, c=c, f=f, m=m, hard=hard, R=R, coef=float(numpy.abs(A).max() + 3 + 30 + numpy.abs(f).max() * 12), linear=bool((c == 0).all() and not hard))


def run_time(rng, case, res):
    from nutils import matrix, solver, function
    b = str(rng.choice(backends()))
    api = str(rng.choice(['step', 'thetamethod'], p=[.6, .4]))
    with_time = bool(rng.random() < .6)
    tm = time_model(rng, with_time)
    n, R, m = tm['n'], tm['R'], tm['m']
    u_init = rng.normal(size=n) * .5
    cons, ckinds = gen.gen_constrain(rng, {'u': (n,)}, ['u'], None, p=.25)
    timestep = float(rng.choice([.01, .5, 4., 50.]))
    tol = float(rng.choice([1e-6, 1e-10]))
    res.count('T/api/' + api)
    with matrix.backend(b):
        if api == 'step':
            use_dt = bool(rng.random() < .8) or not with_time
            shapes = {'u': (n,)}
            extra = {'u0': (n,)}
            if use_dt:
                extra['dt'] = ()
            if with_time:
                extra.update({'t': (), 't0': ()} if not use_dt else {'t': ()})

            def F(a):
                dt = a['dt'] if use_dt else (a['t'] - a['t0'])
                return [m * (a['u'] - a['u0']) / dt + R(a['u'], a['t'] if with_time else 0.)]
            model = gen.Model('step', ['u'], shapes, F=F, extra=extra, coef=tm['coef'] + 2 / min(timestep / 16, 1.), deg=3)
            ok, system = attempt(model.system)
            if not ok:
                res.count('T/system-construction-failed')
                res.add('other_refusals', f'System(): {type(system).__name__}: {str(system)[:90]}')
                return
            S.oracle = model.oracle()
            mname = str(rng.choice(['default', 'newton', 'ls-norm', 'reuse']))
            method = {'default': None, 'newton': solver.Newton(), 'ls-norm': solver.LinesearchNewton(), 'reuse': solver.ReuseNewton()}[mname]
            maxiter = int(rng.choice([1, 2, 4, 12]))
            maxretry = int(rng.choice([0, 1, 2, 3]))
            nsteps = int(rng.integers(1, 4))
            desc = ['T', b, api, n, with_time, use_dt, tm['hard'], tm['linear'], mname, maxiter, maxretry, timestep, tol, ckinds, nsteps]
            case.update(desc=desc)
            res.add('distinct', dhash(desc))
            args = {'u': u_init}
            if with_time:
                args['t'] = numpy.array(float(rng.choice([0., 1.5])))
            for k in range(nsteps):
                kw = dict(arguments=args, suffix='0', timestep=timestep, maxretry=maxretry, constrain=cons, tol=tol, method=method)
                kw['maxiter'] = maxiter
                if with_time:
                    kw['timearg'] = 't'
                if use_dt:
                    kw['timesteparg'] = 'dt'
                okk, out = attempt(lambda: system.step(**kw))
                res.count('T/steps-attempted')
                if not okk:
                    break
                args = out
        else:
            theta = float(rng.choice([1., .5, .75]))
            timetarget = str(rng.choice(['_thetamethod_time', 't']))
            a = {'u': function.Argument('u', (n,)), 't': function.Argument(timetarget, ())}
            shapes = {'u': (n,)}
            extra = {'u0': (n,), timetarget: (), timetarget + '0': ()}

            def F(a_):
                t1, t0 = a_[timetarget], a_[timetarget + '0']
                tt = (lambda t: t) if with_time else (lambda t: 0.)
                return [theta * R(a_['u'], tt(t1)) + (1 - theta) * R(a_['u0'], tt(t0)) + (m * a_['u'] - m * a_['u0']) / (t1 - t0)]
            model = gen.Model('theta', ['u'], shapes, F=F, extra=extra, coef=tm['coef'] + 2 / min(timestep / 16, 1.), deg=3)
            S.oracle = model.oracle()
            nsteps = int(rng.integers(3, 6))
            ls = str(rng.choice(['norm', 'none', 'median']))
            newtonargs = {} if ls == 'norm' else {'linesearch': None} if ls == 'none' else {'linesearch': solver.MedianBased()}
            desc = ['T', b, api, n, with_time, theta, timetarget, tm['hard'], tm['linear'], ls, timestep, tol, ckinds, nsteps]
            case.update(desc=desc)
            res.add('distinct', dhash(desc))
            c = cons.get('u')

            def f():
                it = solver.thetamethod('u', residual=R(a['u'], a['t'] if with_time else 0.), inertia=m * a['u'], timestep=timestep, theta=theta, lhs0=u_init, constrain=c,
                                        newtontol=tol, newtonargs=newtonargs, timetarget=timetarget, time0=float(rng.choice([0., 2.])))
                return list(itertools.islice(it, nsteps + 1))
            okk, hist = attempt(f)
            res.count('T/theta-histories')
            if okk:
                res.count('T/theta-histories-completed')
                # call-site restatement for the history as a whole: every item finite, constrained entries constant through the history
                for k, u in enumerate(hist):
                    u = numpy.asarray(u)
                    if not numpy.isfinite(u).all():
                        S.violate('thetamethod:non-finite', f'history item {k} not finite: {u.tolist()}')
                    if c is not None and k > 0:
                        mask = c if c.dtype == bool else ~numpy.isnan(c)
                        vals = u_init[mask] if c.dtype == bool else c[mask]
                        if not mon.bits_equal(u[mask], vals):
                            S.violate('thetamethod:constraint', f'history item {k}: constrained entries {u[mask].tolist()} != {numpy.asarray(vals).tolist()}')
            else:
                refusal('legacy.thetamethod', hist)


# ================================================================== family P: Topology.project

def run_project(rng, case, res):
    from nutils import matrix, mesh, function
    b = str(rng.choice(backends()))
    dim = int(rng.choice([1, 2]))
    shape = [int(rng.integers(1, 4)) for _ in range(dim)]
    btype = str(rng.choice(['std', 'spline']))
    degree = int(rng.choice([1, 2]))
    with matrix.backend(b):
        domain, geom = mesh.rectilinear([numpy.linspace(0, 1, k + 1) ** float(rng.choice([1., 2.])) for k in shape])
        basis = domain.basis(btype, degree=degree)
        where = str(rng.choice(['left', 'right', 'left,top' if dim == 2 else 'left,right', 'domain']))
        topo = domain if where == 'domain' else domain.boundary[where]
        fkind = str(rng.choice(['zero', 'const', 'poly']))
        x = geom[0] if dim == 1 else geom[0] + 2 * geom[1]
        fun = {'zero': 0., 'const': 1.5, 'poly': 1 + x ** 2}[fkind]
        gd = 2 * degree
        # dense recomputation of the projection matrix and rhs: plain dense integrals (not the CSR path that project itself uses)
        J = function.J(geom)
        Ad, bd = topo.integrate([numpy.einsum('i,j', basis, basis) * J, basis * fun * J], degree=gd)
        Ad, bd = numpy.asarray(Ad, dtype=float), numpy.asarray(bd, dtype=float)
        rowmax = numpy.abs(Ad).max(axis=1)
        vals = numpy.unique(rowmax)
        r = rng.random()
        if r < .4 or len(vals) < 2:
            droptol = 1e-12
        elif r < .85:
            k = int(rng.integers(len(vals) - 1))
            droptol = float(.5 * (vals[k] + vals[k + 1]))
        else:
            droptol = float(vals.max() * 2)
        from nutils import _util as util
        prior = None
        ndofs = len(rowmax)
        if rng.random() < .4:
            prior = util.NanVec(ndofs)
            pm = rng.random(ndofs) < .25
            prior[pm] = rng.normal(size=int(pm.sum()))
        la = {}
        if rng.random() < .5:
            la = dict(atol=1e-10) if rng.random() < .5 else dict(solver='direct', rtol=1e-10)
        desc = ['P', b, dim, shape, btype, degree, where, fkind, droptol, None if prior is None else numpy.isnan(numpy.asarray(prior)).astype(int).tolist(), sorted(la)]
        case.update(desc=desc)
        res.add('distinct', dhash(desc))
        ok, out = attempt(lambda: topo.project(fun, onto=basis, geometry=geom, degree=gd, droptol=droptol, constrain=prior, **la))
        S.count('Topology.project/calls')
        if not ok:
            refusal('Topology.project', out)
            return
        S.count('Topology.project/returned')
        got = numpy.asarray(out, dtype=float)
        priornan = numpy.ones(ndofs, dtype=bool) if prior is None else numpy.isnan(numpy.asarray(prior, dtype=float))
        if numpy.any(numpy.abs(rowmax - droptol) <= 1e-9 * max(droptol, 1e-300)):
            S.count('Topology.project/droptol-marginal')
            return
        expect_nan = priornan & (rowmax <= droptol)
        S.count('Topology.project/checked')
        if (numpy.isnan(got) != expect_nan).any():
            S.violate('Topology.project:nan-pattern', f'NaN pattern {numpy.isnan(got).astype(int).tolist()} != expected {expect_nan.astype(int).tolist()} (droptol {droptol}, rowmax {rowmax.tolist()})')
            return
        if expect_nan.any() and not expect_nan.all():
            S.count('Topology.project/nan-pattern-nontrivial')
        if not numpy.isfinite(got[~expect_nan]).all():
            S.violate('Topology.project:non-finite', f'non-NaN entries not finite: {got.tolist()}')
            return
        if prior is not None and (~priornan).any():
            S.count('Topology.project/constraint-checks')
            if not mon.bits_equal(got[~priornan], numpy.asarray(prior, dtype=float)[~priornan]):
                S.violate('Topology.project:constraint', 'previously constrained entries changed')
        # least-squares normal equations on the retained, not previously constrained rows
        rows = priornan & ~expect_nan
        u = numpy.where(numpy.isnan(got), 0., got)
        u0 = numpy.where(priornan, 0., numpy.asarray(prior, dtype=float)) if prior is not None else numpy.zeros(ndofs)
        rr = float(numpy.linalg.norm((Ad @ u - bd)[rows])) if rows.any() else 0.
        bred = float(numpy.linalg.norm((Ad @ u0 - bd)[rows])) if rows.any() else 0.
        tol = max(la.get('atol', 0.), la.get('rtol', 0.) * bred)
        mag = ndofs * mon.amax(Ad) * (mon.amax(u) + mon.amax(u0)) + mon.amax(bd)
        if not bd.any():
            # project documents no solve for a zero function: retained entries are set to 0 whatever the earlier constraints are
            S.count('Topology.project/zero-function-shortcut')
            if numpy.any(got[rows] != 0):
                S.violate('Topology.project:zero', f'projection of the zero function returned {got.tolist()}')
        elif tol > 0:
            v = mon.band(rr, tol, mag)   # same quadrature points and weights as project uses
            S.count('Topology.project/residual-' + v)
            if v == 'violation':
                S.violate('Topology.project:residual', f'normal-equation residual on retained rows {rr:.3e} > requested {tol:.3e}')
        elif mag > 0:
            S.maximum('project_backward_error_at_tol0', rr / mag)


# ================================================================== family R: deterministic regression cases (ledger mechanisms)

def nan_residual_variants():
    """the NaN-residual case of DESIGN §3 C14: log(u) - [0,1] from u = [-1, 2]; yields (label, thunk)"""
    from nutils import solver, function
    u = function.Argument('u', (2,))
    r = numpy.log(u) - numpy.array([0., 1.])
    u0 = numpy.array([-1., 2.])
    system = solver.System([r], trial='u')
    model = gen.Model('log', ['u'], {'u': (2,)}, F=lambda a: [numpy.log(a['u']) - numpy.array([0., 1.])], coef=8., deg=1)
    S.oracle = model.oracle()
    for name, method in [('default', None), ('Newton', solver.Newton()), ('LinesearchNewton', solver.LinesearchNewton()), ('ReuseNewton', solver.ReuseNewton())]:
        yield 'System.solve/' + name, (lambda method=method: system.solve(arguments=dict(u=u0), tol=1e-8, maxiter=25, method=method)['u'])
    yield 'legacy newton().solve', lambda: solver.newton('u', residual=r, lhs0=u0).solve(1e-8, maxiter=25)
    yield 'legacy newton(linesearch=None).solve', lambda: solver.newton('u', residual=r, lhs0=u0, linesearch=None).solve(1e-8, maxiter=25)


def run_regression(rng, case, res):
    case.update(desc=['R', 'nan-residual'])
    res.add('distinct', dhash(case['desc']))
    returned = []
    for label, thunk in nan_residual_variants():
        res.count('R/nan-variants')
        ok, out = attempt(thunk)
        if ok:
            returned.append(f'{label} returned {numpy.asarray(out).tolist()}')
    if returned:
        # the wrappers have flagged each of these already (mechanism tag); make sure at least one record exists
        if not any(m == NAN_FINDING for _, _, m in S.pending):
            S.violate('nan-residual', '; '.join(returned), NAN_FINDING)
    # the multi-column arnoldi mechanism (kept as an explicit case so that its status is visible on every run)
    S.oracle = None
    for fid, monitor, fn in [(MULTIRHS_FINDING, 'independence', repro_multirhs), (MULTIRHS_CONS_FINDING, 'Matrix.solve:constraint', repro_multirhs_cons),
                             (STEP_FINDING, 'System.step:time', repro_step_time), (COMPLEX_ARNOLDI_FINDING, 'independence', repro_complex_arnoldi)]:
        fails, what = fn()
        res.count('R/deterministic-mechanism-runs')
        if fails:
            S.violate(monitor, what, fid)


FAMILIES = dict(L=run_linear, S=run_linsys, N=run_nonlinear, T=run_time, P=run_project, R=run_regression)


# ================================================================== protocol

def run_case(seed, tier, family, index, res):
    rng = rng_for(seed, 'c14', family, index)
    case = dict(seed=seed, family=family, index=index)
    S.begin()
    res.count('evaluations')
    res.count('cases/' + family)
    mon.arm(CASE_CPU_S.get(tier, 15))
    try:
        FAMILIES[family](rng, case, res)
    except mon.WallWatchdog:
        res.count('watchdog_cases')
        res.count('watchdog/' + family)
        res.note(f'watchdog: {family} {index} desc={case.get("desc")}')
        S.pending = []     # a case cut short is inconclusive for that case
    except Exception:
        res.count('harness_exceptions')
        res.note(f'harness exception in {family} {index}: ' + traceback.format_exc()[-470:])
        S.pending = []
    finally:
        mon.disarm()
    seen = set()
    for monitor, detail, mech in S.pending:
        if (monitor, mech) in seen:
            continue
        seen.add((monitor, mech))
        res.violation(monitor, dict(case, events=S.events[:12]), detail, mechanism=mech)
    return case


def run_units(units, ctx):
    import treelog
    res = Result()
    S.res = res
    warnings.simplefilter('ignore')
    numpy.seterr(all='ignore')
    mon.install()
    res.add('backends', ','.join(backends()))
    with treelog.set(S.log):
        for u in units:
            for i in range(u['start'], u['stop']):
                if ctx.expired():
                    res.count('cases_skipped_deadline')
                    continue
                case = run_case(ctx.seed, ctx.tier, u['family'], i, res)
                if i % 331 == 0 and u['family'] != 'R':
                    res.sample({k: case[k] for k in ('seed', 'family', 'index', 'desc') if k in case})
    return res


def replay(case):
    import treelog
    res = Result()
    S.res = res
    warnings.simplefilter('ignore')
    numpy.seterr(all='ignore')
    mon.install()
    with treelog.set(S.log):
        run_case(int(case['seed']), 'thorough', case['family'], int(case['index']), res)
    return res.violations


# ------------------------------------------------------------------ ledger reproducers

def _quiet(fn):
    import treelog
    warnings.simplefilter('ignore')
    numpy.seterr(all='ignore')
    with treelog.set(treelog.NullLog() if hasattr(treelog, 'NullLog') else S.log):
        return fn()


def repro_nan_residual():
    def run():
        returned, raised = [], []
        for label, thunk in nan_residual_variants():
            try:
                out = thunk()
                returned.append(f'{label} returned {numpy.asarray(out).tolist()}')
            except Exception as e:
                raised.append(f'{label}: {type(e).__name__}')
        what = 'residual log(u)-[0,1] from u=[-1,2] (residual norm NaN), tol=1e-8: ' + ('; '.join(returned) if returned else 'every variant raised (' + ', '.join(raised) + ')')
        return bool(returned), what
    return _quiet(run)


def repro_multirhs():
    """default-tolerance arnoldi with a two-column rhs whose second column is zero"""
    from nutils import matrix
    outs = []
    for b in backends():
        with matrix.backend(b):
            A = gen.assemble(numpy.array([[2., 1.], [1., 3.]]))
            rhs = numpy.array([[1., 0.], [2., 0.]])
            try:
                x = S_orig_solve(A, rhs)
            except Exception as e:
                outs.append(f'{b}: raised {type(e).__name__}')
                continue
            ref = numpy.linalg.solve(numpy.array([[2., 1.], [1., 3.]]), rhs)
            if not numpy.allclose(x, ref, atol=1e-9):
                outs.append(f'{b}: [[2,1],[1,3]].solve([[1,0],[2,0]]) returned {numpy.asarray(x).tolist()} (expected {ref.round(3).tolist()})')
    return bool(outs), 'Matrix.solve (default arnoldi solver, atol=rtol=0) with a multi-column rhs containing a zero column: ' + ('; '.join(outs) if outs else 'solved correctly')


def S_orig_solve(A, rhs, **kw):
    f = type(A).solve
    f = getattr(f, '__wrapped__', f)
    return f(A, rhs, **kw)


def repro_multirhs_cons():
    """NaN-float constraints together with a two-column rhs"""
    from nutils import matrix
    outs = []
    for b in backends():
        with matrix.backend(b):
            A = gen.assemble(numpy.array([[2., 1., 0.], [1., 3., 1.], [0., 1., 4.]]))
            try:
                x = S_orig_solve(A, numpy.ones((3, 2)), constrain=numpy.array([10., 20., numpy.nan]), solver='direct')
            except Exception as e:
                outs.append(f'{b}: raised {type(e).__name__}: {e}')
                continue
            if x[:2].tolist() != [[10., 10.], [20., 20.]]:
                outs.append(f'{b}: constrained rows of the result are {x[:2].tolist()}')
    return bool(outs), 'Matrix.solve(ones((3,2)), constrain=[10,20,nan]) must return rows [[10,10],[20,20],..]: ' + ('; '.join(outs) if outs else 'ok')


def repro_complex_arnoldi():
    """well-conditioned complex matrix, arnoldi with the diagonal preconditioner, default tolerances"""
    from nutils import matrix
    A = numpy.array([[4 + 1j, 1, 0], [1j, 5, 1 - 1j], [0, 2, 6 + 2j]])
    b = numpy.array([1, 1j, 2 - 1j])
    outs = []
    for be in backends():
        with matrix.backend(be):
            try:
                x = S_orig_solve(gen.assemble(A), b, precon='diag')
            except Exception as e:
                outs.append(f'{be}: raised {type(e).__name__}')
                continue
            r = float(numpy.linalg.norm(A @ x - b))
            if r > 1e-9:
                outs.append(f'{be}: returned with residual {r:.2e}')
    return bool(outs), 'complex 3x3 diagonally dominant matrix .solve(b, precon="diag") [arnoldi, atol=rtol=0]: ' + ('; '.join(outs) if outs else 'converged')


def repro_step_time():
    """System.step with a failing full step: after the bisection the time argument must read t0 + timestep"""
    from nutils import function, solver
    u, u0, t, dt = function.Argument('u', (1,)), function.Argument('u0', (1,)), function.Argument('t', ()), function.Argument('dt', ())
    system = solver.System([(u - u0) / dt + 10 * u ** 3 - (1 + t)], trial='u')
    step = getattr(solver.System.step, '__wrapped__', solver.System.step)
    seen = []
    for maxiter in range(1, 12):
        try:
            out = step(system, arguments=dict(u=numpy.array([0.]), t=numpy.array(0.)), suffix='0', timearg='t', timesteparg='dt', timestep=1., maxretry=2, tol=1e-10,
                       maxiter=maxiter, method=solver.Newton())
        except solver.SolverError:
            continue
        if float(out['dt']) < 1.:   # a bisection took place
            seen.append((maxiter, float(out['t']), float(out['dt'])))
    if not seen:
        return None, 'no time-step bisection was triggered'
    bad = [s for s in seen if abs(s[1] - 1.) > 1e-9]
    return bool(bad), 'System.step(t=0, timestep=1, maxretry=2) with Newton maxiter=k forcing a bisection; (k, final t, final dt) = ' + str(bad or seen)


REPRODUCERS = {NAN_FINDING: repro_nan_residual, MULTIRHS_FINDING: lambda: _quiet(repro_multirhs), MULTIRHS_CONS_FINDING: lambda: _quiet(repro_multirhs_cons),
               STEP_FINDING: lambda: _quiet(repro_step_time), COMPLEX_ARNOLDI_FINDING: lambda: _quiet(repro_complex_arnoldi)}


MIN_REACH = ['Matrix.solve/checked', 'Matrix._solver/checked', 'Matrix.solve_leniently/checked', 'Matrix.solve/constraint-checks',
             'Matrix.solve/residual-pass', 'Matrix._solver/residual-pass', 'Matrix.solve_leniently/warned', 'Matrix._solver/refused/ToleranceNotReached',
             'Matrix._solver/refused/MatrixError', 'Matrix._solver/rhs-within-tolerance-zero', 'Matrix._solver/rhs-within-tolerance-nonzero',
             'System.solve/oracle-evaluated', 'System.solve/constraint-checks', 'System.solve/residual-pass', 'System.solve/refused/SolverError',
             'System.solve_constraints/checked', 'System.solve_constraints/nan-pattern-nontrivial', 'legacy.solve_withinfo/oracle-evaluated',
             'legacy.solve_withinfo/refused/SolverError', 'System.step/returned', 'System.step/bisection-substeps', 'System.step/time-checks',
             'Topology.project/checked', 'Topology.project/nan-pattern-nontrivial', 'L/independence/checked', 'L/independence/checked-at-tol0',
             'S/independence/checked', 'S/arnoldi-reuse-solves', 'T/theta-histories-completed', 'legacy.solve_linear/oracle-evaluated', 'legacy.optimize/oracle-evaluated',
             'R/nan-variants']


def finalize(m, tier, seed):
    c = m.counters
    planned = sum(NCASES[tier].values())
    cmon = c.get('monitor_exceptions', 0)
    def sub(prefix):
        return {k[len(prefix):]: v for k, v in sorted(c.items()) if k.startswith(prefix)}
    marg = sum(v for k, v in c.items() if k.endswith('residual-marginal') or k.endswith('independence/marginal'))
    judged = sum(v for k, v in c.items() if '/residual-' in k or k.endswith('independence/checked'))
    cov = dict(evaluations=c.get('evaluations', 0), distinct_nontrivial=len(m.sets.get('distinct', ())), rule=RULE, samples=m.samples[:4],
               backends=sorted(m.sets.get('backends', ())), not_covered=['MKL backend (not installable offline)'],
               cases_per_family=sub('cases/'), cases_skipped_deadline=c.get('cases_skipped_deadline', 0),
               watchdog_cases=c.get('watchdog_cases', 0), watchdog_per_family=sub('watchdog/'), harness_exceptions=c.get('harness_exceptions', 0), monitor_exceptions=c.get('monitor_exceptions', 0),
               monitors={name: sub(name + '/') for name in ['Matrix.solve', 'Matrix._solver', 'Matrix.solve_leniently', 'System.solve', 'System.step',
                                                            'System.solve_constraints', 'legacy.solve_withinfo', 'legacy.solve_linear', 'legacy.optimize',
                                                            'legacy.newton', 'legacy.minimize', 'legacy.pseudotime', 'legacy.thetamethod', 'Topology.project']},
               independence=dict(L=sub('L/independence/'), S=sub('S/independence/')),
               workload=dict(L_matrix_kinds=sub('L/mkind/'), L_constraints=sub('L/ckind/'), L_rhs=sub('L/rkind/'), S_api=sub('S/api/'), S_kinds=sub('S/kind/'),
                             N_kinds=sub('N/kind/'), N_api=sub('N/api/'), N_methods=sub('N/method/'), N_guess=sub('N/guess/'), N_outcomes=sub('N/outcome/'), T_api=sub('T/api/'),
                             T_other={k: c.get(k, 0) for k in ('T/steps-attempted', 'T/theta-histories', 'T/theta-histories-completed')},
                             S_arnoldi_reuse_solves=c.get('S/arnoldi-reuse-solves', 0)),
               methods_seen=sorted(m.sets.get('methods', ())), solver_configs_requested=len(m.sets.get('solver_configs_requested', ())),
               linear_solvers_returned=sorted(m.sets.get('linear_solvers_returned', ())),
               other_refusals=sorted(m.sets.get('other_refusals', ()))[:60], accepted_refusal_messages=sorted(m.sets.get('accepted_refusal_messages', ()))[:60],
               maxima=m.maxima, marginal_results=marg, judged_results=judged, raw_violation_counts=sub('violations_raw/'))
    inc = None
    if cov['evaluations'] < .6 * planned:
        inc = f"only {cov['evaluations']} of {planned} cases ran before the deadline"
    elif 'numpy,scipy' not in cov['backends']:
        inc = 'scipy backend unavailable'
    elif cov['harness_exceptions']:
        inc = f"{cov['harness_exceptions']} case(s) died in harness code: " + '; '.join(n for n in m.notes if n.startswith('harness'))[:600]
    elif cmon:
        inc = f'{cmon} exception(s) inside monitor code: ' + '; '.join(n for n in m.notes if n.startswith('monitor'))[:600]
    elif cov['watchdog_cases'] > max(3, .02 * cov['evaluations']):
        inc = f"wall watchdog fired in {cov['watchdog_cases']} cases"
    elif judged and marg > .005 * judged:
        inc = f'{marg} of {judged} tolerance judgements fell in the marginal band'
    else:
        missing = [k for k in MIN_REACH if not c.get(k)]
        if missing:
            inc = 'monitors/branches never reached: ' + ', '.join(missing)
    return dict(coverage=cov, inconclusive=inc)
