"""C11 — Element lookup and coordinate maps are consistent.

Monitor shape: the real ``Transforms`` sequences that topology operations build
(random construction histories over every mesh kind) are advanced against a
plain python-list model; every ``index_with_tail`` implementation additionally
carries a recording post-condition (contract) that also sees nutils' own calls;
``f_index`` / ``f_coords`` are compared with the sample's own element numbers and
points (own sample, boundary, interfaces incl. opposite side, refined); a
continuous field must not jump across interfaces; canonical / uppermost /
promote are compared by numpy evaluation of the affine maps (random deep chains
plus an exhaustive depth<=3 enumeration over all pooled references); locate() is
checked against ``sample.eval(geom)`` in input order, with targets known to be
inside (must be found) and known to be outside (must raise / be skipped).
"""

import json, hashlib, traceback, gc, os
import numpy
from vlib.runner import Result, rng_for, scaled

PROPERTY = 'C11'
LEVEL = 'exploration'
RULE = ('sequence cases: random base mesh (line, periodic line, non-uniform rectilinear 2-D/3-D incl. periodic, unitsquare square/triangle/mixed/'
        'multipatch, perturbed 2-D triangulation, perturbed Kuhn tetrahedralisation) followed by <=4 random operations (refined, refined_by, take, '
        'slice, subset, union, sub, and, trim, group, boundary, interfaces, boundary group, opposite); for the resulting transforms/opposites, '
        'their boundary/interfaces, their slices/masks/reorders, their refined()/edges() and rotated chainings: list model of len/iter/getitem, '
        'index/index_with_tail/contains of every (sampled) element with random child/edge tails of length<=4 in literal, canonical, uppermost and '
        'promoted form, re-created and pickled items, chains that are not in the sequence; f_index/f_coords on own, boundary, interface (both '
        'sides) and refined samples; jump of a continuous field.  chain cases: random chains of length<=6 over 11 references plus exhaustive '
        'depth<=3 enumeration.  locate cases: history + geometry variant (mesh, diagonal, affine, curved polynomial, with argument) + tolerance '
        'variant; inside, boundary and outside targets.  non-trivial = sequence with >=2 elements on which >=1 tail lookup ran / chain that at '
        'least one rewrite changed / locate call with >=1 target; distinct = hash of (base kind and shape, applied ops, nesting signature, length) '
        'resp. chain repr resp. (history, geometry, tolerance kind)')
ASSUMPTIONS = ['numpy composition of item.linear/item.offset is the reference meaning of a chain',
               'list(seq) is the reference content of a sequence',
               'for sequences with fromdims<todims membership of a foreign chain is only judged by soundness of a positive answer',
               'locate: targets on element boundaries are only required to be found when eps>0 was requested; outside targets are >=0.25 domain sizes away or gauss points of dropped elements',
               'maxprocs=1 (parallel locate is C16)']
BUDGET_S = {'quick': int(os.environ.get('C11_BUDGET_QUICK', '110')), 'thorough': int(os.environ.get('C11_BUDGET_THOROUGH', '1500'))}  # env: development on a loaded machine only
# VERIF_SCALE (vlib.runner.scaled) shrinks the plan for development runs; registered commands never set it
NSEQ = {'quick': scaled(640), 'thorough': scaled(9000)}
NCHAIN = {'quick': scaled(2000), 'thorough': scaled(40000)}
NLOC = {'quick': scaled(280), 'thorough': scaled(4000)}
SEQ_CHUNK, CHAIN_CHUNK, LOC_CHUNK = 5, 125, 4
NLOOK = 20
DUP_OPP = 'C11-two-shared-faces-same-opposite'
ENV = {'NUTILS_NPROCS': '1'}


def plan(tier, seed):
    units = [dict(kind='enum')]
    seqs = [dict(kind='seq', start=i, stop=min(NSEQ[tier], i + SEQ_CHUNK)) for i in range(0, NSEQ[tier], SEQ_CHUNK)]
    locs = [dict(kind='locate', start=i, stop=min(NLOC[tier], i + LOC_CHUNK)) for i in range(0, NLOC[tier], LOC_CHUNK)]
    chains = [dict(kind='chain', start=i, stop=min(NCHAIN[tier], i + CHAIN_CHUNK)) for i in range(0, NCHAIN[tier], CHAIN_CHUNK)]
    # spread every kind evenly over the list (key = relative position within its kind): with the runner's round-robin
    # sharding every worker then gets its share of every kind, in mixed order, so a deadline cuts all kinds evenly
    keyed = [((k + .5) / len(q), j, u) for j, q in enumerate((seqs, locs, chains)) for k, u in enumerate(q)]
    return units + [u for _, _, u in sorted(keyed, key=lambda t: t[:2])]


# ---------------------------------------------------------------- sequence cases

def _rng(caseseed, *key):
    return rng_for(caseseed, 'c11', *key)


def seq_case(seed, tier, i):
    from vlib import c11_gen
    rng = rng_for(seed, 'c11', 'seq', i)
    spec = c11_gen.random_spec(rng, tier)
    return dict(kind='seq', index=i, spec=spec, caseseed=int(rng.integers(0, 2**31)))


def execute_seq(case, res):
    from vlib import c11_gen, c11_mon as M
    M.CONTRACT.install()
    res.count('evaluations')
    res.count('seq_cases')
    rng = _rng(case['caseseed'], 'seq')
    rep = M.Reporter(res, case)
    nfail0 = len(M.CONTRACT.failures)
    try:
        b = c11_gen.build(case['spec'], res)
    except Exception as e:
        res.count(f'base_refused/{type(e).__name__}')
        return
    topo, geom, info = b['topo'], b['geom'], b['info']
    gc.collect()
    tseq = topo.transforms
    refs = topo.references
    # chains of earlier stages (same dimension) serve as candidates for "not in the sequence"
    siblings = []
    for label, st in b['stages'][:-1]:
        if st.ndims == topo.ndims and len(st):
            ks = rng.integers(0, len(st), 2)
            siblings += [tuple(st.transforms[int(k)]) for k in ks]
    M.check_sequence(tseq, refs, rng, rep, 'transforms', NLOOK, depth=1, siblings=siblings[:6])
    lookups_before = res.counters.get('lookups', 0)
    if topo.opposites is not tseq:
        mech = DUP_OPP if M.two_faces_same_opposite(tseq, topo.opposites) else None
        res.count('two_faces_same_opposite_seen', bool(mech))
        M.check_sequence(topo.opposites, refs, rng, M.Reporter(res, dict(case, part='opposites'), mech), 'opposites', NLOOK // 2, depth=0,
                         siblings=[tuple(tseq[int(k)]) for k in rng.integers(0, len(tseq), 2)])
        res.count('opposites_sequences')
    isvolume = topo.ndims == tseq.todims
    # (b) own sample
    scheme = [('gauss', 2), ('bezier', 2), ('uniform', 2), ('gauss', 1)][int(rng.integers(0, 4))]
    M.check_index_coords(topo, topo, rng, M.Reporter(res, dict(case, part='own sample')), 'own:' + scheme[0], own=True, ischeme=scheme)
    bbox = None
    if isvolume:
        try:
            X = topo.sample('bezier', 2).eval(geom)
            bbox = X.min(0), X.max(0)
        except Exception as e:
            res.count(f'geom_eval_refused/{type(e).__name__}')
    for attr in ('boundary', 'interfaces'):
        try:
            sub = getattr(topo, attr)
            nsub = len(sub)
            sub.transforms, sub.opposites
        except Exception as e:
            res.count(f'refused/{attr}:{type(e).__name__}')
            continue
        if nsub == 0 or nsub > 300:
            continue
        res.count('derived_topologies/' + attr)
        r2 = M.Reporter(res, dict(case, part=attr))
        M.check_sequence(sub.transforms, sub.references, rng, r2, attr + '.transforms', NLOOK // 2, depth=0)
        if sub.opposites is not sub.transforms:
            mech = DUP_OPP if M.two_faces_same_opposite(sub.transforms, sub.opposites) else None
            res.count('two_faces_same_opposite_seen', bool(mech))
            M.check_sequence(sub.opposites, sub.references, rng, M.Reporter(res, dict(case, part=attr + '.opposites'), mech), attr + '.opposites', NLOOK // 2, depth=0,
                             siblings=[tuple(sub.transforms[int(k)]) for k in rng.integers(0, nsub, 2)])
        M.check_index_coords(topo, sub, rng, r2, attr + ':vs parent', own=False)
        if attr == 'interfaces' or sub.opposites == sub.transforms:
            M.check_index_coords(topo, sub, rng, M.Reporter(res, dict(case, part=attr + ' opposite')), attr + ':opposite side', own=False, use_opposite=True)
        else:
            res.count('boundary_with_ghost_opposites')  # structured boundaries name a non-existent neighbour: opposite() is meaningless there
        M.check_index_coords(sub, sub, rng, r2, attr + ':own', own=True)
        if attr == 'interfaces' and bbox is not None and (bbox[1] > bbox[0]).all():
            M.check_jump(sub, geom, info, bbox, r2, 'interfaces')
    try:
        fine = topo.refined
        nf = len(fine)
        fine.transforms
    except Exception as e:
        res.count(f'refused/refined:{type(e).__name__}')
    else:
        if 0 < nf <= 400:
            M.check_index_coords(topo, fine, rng, M.Reporter(res, dict(case, part='refined sample')), 'refined:vs parent', own=False)
    # what the contract saw during all of the above (incl. nutils' own calls)
    for f in M.CONTRACT.failures[nfail0:][:3]:
        res.violation('index_with_tail post-condition', dict(case, contract=f['cls']), json.dumps(f)[:1800])
    del M.CONTRACT.failures[nfail0:]
    s = c11_gen.sig(tseq)
    if len(tseq) >= 2 and res.counters.get('lookups', 0) > 0:
        key = json.dumps([case['spec']['base']['kind'], case['spec']['base'].get('shape', case['spec']['base'].get('n')), b['applied'], s, len(tseq)])
        res.add('distinct', hashlib.sha1(key.encode()).hexdigest()[:16])
    res.add('histories', '>'.join([case['spec']['base']['kind']] + b['applied']))


# ---------------------------------------------------------------- chain cases

def execute_chain_range(seed, start, stop, res):
    from vlib import c11_mon as M
    for i in range(start, stop):
        rng = rng_for(seed, 'c11', 'chain', i)
        chain, kinds = M.random_chain(rng)
        res.count('evaluations')
        res.count('chain_cases')
        for k in kinds[1:]:
            res.count('chain_item/' + k)
        res.count('chain_ref/' + kinds[0])
        res.count(f'chain_len/{len(chain)}')
        case = dict(kind='chain', index=i, seed=seed)
        changed0 = sum(v for k, v in res.counters.items() if k.startswith('rewrites_changed/'))
        M.check_rewrites(chain, rng, M.Reporter(res, case), f'chain {i}')
        if sum(v for k, v in res.counters.items() if k.startswith('rewrites_changed/')) > changed0:
            res.add('distinct', hashlib.sha1(repr(chain).encode()).hexdigest()[:16])
        if i % 499 == 0:
            res.sample(dict(case, chain=repr(chain)))


# ---------------------------------------------------------------- locate cases

LOC_VOLUME_OPS = ['refined', 'refined_by', 'take', 'subset', 'trim', 'union', 'slice', 'sub']


def locate_case(seed, tier, i):
    from vlib import c11_gen
    rng = rng_for(seed, 'c11', 'locate', i)
    r = rng.random()
    if r < .3:
        # uniform structured meshes: candidates for the affine fast path
        nd = int(rng.choice([1, 2, 2, 3]))
        base = dict(kind='uniform', shape=[int(rng.integers(1, 5 if nd < 3 else 3)) for _ in range(nd)], seed=int(rng.integers(0, 2**31)))
        if rng.random() < .25:
            base['periodic'] = [int(rng.integers(0, nd))]
            base['shape'][base['periodic'][0]] = max(2, base['shape'][base['periodic'][0]])
    else:
        base = c11_gen.random_spec(rng, tier, want3d=rng.random() < .06)['base']
    ops = []
    for _ in range(int(rng.integers(0, 3))):
        name = str(rng.choice(LOC_VOLUME_OPS, p=[.2, .25, .15, .1, .15, .05, .05, .05]))
        s = int(rng.integers(0, 2**31))
        ops.append([name, s, int(rng.integers(0, 2))] if name == 'trim' else [name, s])
    manifold = rng.random() < .1
    if manifold:
        ops.append(['boundary', 0])
    geomkind = str(rng.choice(['mesh', 'diag', 'affine', 'curved', 'argument'], p=[.25, .2, .15, .3, .1]))
    tolkind = str(rng.choice(['tol', 'eps', 'both', 'loose_tol', 'loose_eps'], p=[.25, .3, .25, .1, .1]))
    return dict(kind='locate', index=i, spec=dict(base=base, ops=ops), geomkind=geomkind, tolkind=tolkind, manifold=manifold,
                caseseed=int(rng.integers(0, 2**31)), skip_missing=bool(rng.random() < .5), maxdist=bool(rng.random() < .15))


def _build_locate(case, res):
    from vlib import c11_gen
    from nutils import mesh
    spec = case['spec']
    if spec['base']['kind'] == 'uniform':
        topo, geom = mesh.rectilinear(spec['base']['shape'], periodic=spec['base'].get('periodic', ()))
        info = dict(kind='uniform', periodic=list(spec['base'].get('periodic', ())))
        stages = [('base', topo)]
        applied = []
        for op in spec['ops']:
            try:
                new = c11_gen.apply_op(topo, geom, op, info)
                if not 0 < len(new) <= 300:
                    continue
            except Exception as e:
                res.count(f'refused/{op[0]}:{type(e).__name__}')
                continue
            topo = new
            applied.append(op[0])
            stages.append((op[0], topo))
        return dict(topo=topo, geom=geom, stages=stages, applied=applied, info=info)
    return c11_gen.build(spec, res)


def _geometry(geom, kind, lo, hi, rng):
    """-> (function, arguments, lipschitz bound of d geom / d (mesh geom))"""
    from nutils import function
    nd = len(lo)
    size = numpy.where(hi > lo, hi - lo, 1.)
    if kind == 'mesh':
        return geom, {}, 1.
    if kind == 'diag':
        s = rng.uniform(.3, 2.5, nd) * rng.choice([1., 1., -1.], nd)
        return geom * s + rng.uniform(-1, 1, nd), {}, float(abs(s).max())
    if kind == 'affine':
        A = numpy.eye(nd) + rng.uniform(-.35, .35, (nd, nd))
        return (A @ geom) + rng.uniform(-1, 1, nd), {}, float(numpy.linalg.norm(A, 2))
    if kind == 'argument':
        return geom * function.Argument('c11scale', ()), {'c11scale': numpy.array(1.75)}, 1.75
    u = (geom - lo) / size
    if nd == 1:
        g = u + .3 * u**2
        L = 1.6
    else:
        g = numpy.stack([u[d] + .12 * u[(d + 1) % nd]**2 for d in range(nd)])
        L = 1.3
    return g * size, {}, L


def execute_locate(case, res):
    from vlib import c11_mon as M
    from nutils import topology, function
    M.CONTRACT.install()
    M.LOCATE_PROBE.install()
    res.count('evaluations')
    res.count('locate_cases')
    rng = _rng(case['caseseed'], 'locate')
    rep = M.Reporter(res, case)
    nfail0 = len(M.CONTRACT.failures)
    try:
        b = _build_locate(case, res)
    except Exception as e:
        res.count(f'base_refused/{type(e).__name__}')
        return
    topo, geom = b['topo'], b['geom']
    if len(topo) == 0:
        return
    try:
        X0 = topo.sample('bezier', 2).eval(geom)
    except Exception as e:
        res.count(f'geom_eval_refused/{type(e).__name__}')
        return
    lo, hi = X0.min(0), X0.max(0)
    try:
        # the curved map must be a diffeomorphism on every *base* element (subset topologies locate in their base topology first)
        Xb = b['stages'][0][1].sample('bezier', 2).eval(geom)
        lo, hi = numpy.minimum(lo, Xb.min(0)), numpy.maximum(hi, Xb.max(0))
    except Exception as e:
        res.count(f'geom_eval_refused/{type(e).__name__}')
        return
    G, args, L = _geometry(geom, case['geomkind'], lo, hi, rng)
    try:
        smp_in = topo.sample('gauss', 2)
        smp_bz = topo.sample('bezier', int(rng.integers(2, 4)))
        Xin = smp_in.eval(G, args)
        Xbz = smp_bz.eval(G, args)
    except Exception as e:
        res.count(f'geom_eval_refused/{type(e).__name__}')
        return
    glo, ghi = Xbz.min(0), Xbz.max(0)
    gsize = float(max(1e-12, (ghi - glo).max()))
    # per element size in physical units (for eps -> physical bound)
    tk = case['tolkind']
    tol, eps = dict(tol=(10.**-int(rng.integers(8, 13)), 0.), eps=(0., 10.**-int(rng.integers(8, 12))), both=(1e-9, 1e-10),
                    loose_tol=(10.**-int(rng.integers(2, 5)) * gsize, 0.), loose_eps=(0., 10.**-int(rng.integers(3, 6))))[tk]
    nin = int(rng.integers(1, 9))
    # targets on element boundaries are only demanded when eps>0 was requested and no subset post-processing is involved
    # (SubsetTopology._locate asks the base topology first, which may answer with the dropped neighbour of a kept element)
    subsetlike = any(op in ('trim', 'subset', 'sub', 'and') for op in b['applied'])
    nbz = int(rng.integers(0, 8)) if eps > 0 and not subsetlike else 0
    sel_in = rng.integers(0, len(Xin), nin)
    sel_bz = rng.integers(0, len(Xbz), nbz)
    inside = numpy.concatenate([Xin[sel_in], Xbz[sel_bz]]) if nbz else Xin[sel_in]

    def elem_of(smp, rows):
        owner = numpy.empty(smp.npoints, dtype=int)
        for j in range(smp.nelems):
            owner[smp.getindex(j)] = j
        return owner[rows]
    inside_elem = numpy.concatenate([elem_of(smp_in, sel_in), elem_of(smp_bz, sel_bz)]) if nbz else elem_of(smp_in, sel_in)
    # outside targets
    outside = []
    nd = len(glo)
    nout = int(rng.integers(0, 4))
    if case['manifold'] and eps > 0:
        nout = 0  # on a manifold the eps criterion (Newton step size) accepts the projection of any target by construction
        res.count('manifold_eps_outside_not_demanded')
    for _ in range(nout):
        x = glo + rng.uniform(0, 1, nd) * (ghi - glo)
        d = int(rng.integers(0, nd))
        margin = rng.uniform(.25, 1.5) * gsize
        x[d] = ghi[d] + margin if rng.random() < .5 else glo[d] - margin
        outside.append(x)
    dropped = 0
    if not case['manifold'] and rng.random() < .7:
        # elements of an earlier stage that have neither an ancestor nor a descendant in the final topology are outside
        final_chains = [tuple(t) for t in topo.transforms]  # keep the items alive: ids are only meaningful while they live
        final_ids = [tuple(map(id, t)) for t in final_chains]
        final_set = set(final_ids)
        prefixes = set()
        for t in final_ids:
            for n in range(1, len(t) + 1):
                prefixes.add(t[:n])
        for label, st in b['stages'][:-1]:
            if st.ndims != topo.ndims or len(st) == 0:
                continue
            cand = []
            stage_chains = [tuple(t) for t in st.transforms]
            for k, t in enumerate(stage_chains):
                ids = tuple(map(id, t))
                if ids in prefixes:
                    continue
                if any(ids[:n] in final_set for n in range(1, len(ids))):
                    continue
                cand.append(k)
            if cand:
                try:
                    sg = st.sample('gauss', 1)
                    Xg = sg.eval(G, args)
                except Exception:
                    continue
                for k in rng.choice(cand, size=min(2, len(cand)), replace=False):
                    outside.append(Xg[sg.getindex(int(k))[0]])
                    dropped += 1
                break
    res.count('locate_targets_inside', len(inside))
    res.count('locate_targets_on_element_boundary', nbz)
    res.count('locate_targets_outside', len(outside))
    res.count('locate_targets_outside_dropped_element', dropped)
    bound_ok = max(tol, eps * L * gsize) + 1e-10 * max(1., float(abs(inside).max()))
    kw = dict(tol=tol, eps=eps, arguments=args) if args else dict(tol=tol, eps=eps)
    if case['maxdist']:
        kw['maxdist'] = 3 * float(numpy.linalg.norm(ghi - glo)) + 1.
    where = f"{case['geomkind']}/{tk}"

    def run(targets, **extra):
        before = dict(M.LOCATE_PROBE.calls)
        try:
            s = topo.locate(G, targets, **kw, **extra)
            out = ('ok', s)
        except topology.LocateError as e:
            out = ('LocateError', str(e))
        except NotImplementedError as e:
            out = ('refused', f'NotImplementedError: {e}')
        except Exception as e:
            out = ('exc', f'{type(e).__name__}: {e}\n' + traceback.format_exc()[-900:])
        after = M.LOCATE_PROBE.calls
        ran = {k for k in after if after[k] != before.get(k, 0)}
        path = 'newton' if 'Topology' in ran else 'structured_affine' if 'StructuredTopology' in ran else 'other'
        if 'SubsetTopology' in ran:
            path += '+subset'
        if case['manifold']:
            path += '+manifold'
        res.count('locate_calls')
        res.count('locate_path/' + path)
        res.count('locate_geom/' + case['geomkind'])
        res.count('locate_tol/' + tk)
        return out + (path,)

    def is_eps_corner(s, Y, expect, gen_elem, err):
        """Structural predicate of the open finding C11-locate-manifold-eps-corner: manifold case AND eps>0 AND the
        target lies on the manifold (by construction) AND every badly located point is the closest point (orthogonal
        projection) of a *different* element than the one the target was generated on."""
        if not (case['manifold'] and eps > 0 and gen_elem is not None):
            return False
        try:
            located_elem = s.eval(topo.f_index)
            fine = topo.sample('bezier', 17)
            Xf = fine.eval(G, args)
        except Exception:
            return False
        for k in numpy.nonzero(err > 100 * bound_ok)[0]:
            j = int(located_elem[k])
            if j == int(gen_elem[k]):
                return False
            dmin = numpy.linalg.norm(Xf[fine.getindex(j)] - expect[k], axis=1).min()
            if err[k] > dmin * (1 + 1e-6) + 1e-9:
                return False  # the returned point is not even the closest point of the element it was assigned to
        return True

    def check_sample(s, expect, label, path, gen_elem=None):
        try:
            Y = s.eval(G, args)
        except Exception as e:
            rep.violation('evaluating the located sample raised', f'{where} {label}: {type(e).__name__}: {e}'[:800], path=path)
            return
        if Y.shape != expect.shape:
            rep.violation('located sample has a different number of points than targets', f'{where} {label} path={path}: {Y.shape} vs {expect.shape}', path=path)
            return
        if len(Y) == 0:
            return
        err = numpy.linalg.norm(Y - expect, axis=1)
        res.count('located_points', len(Y))
        worst = float(err.max())
        if worst <= bound_ok:
            return
        if worst <= 100 * bound_ok:
            res.count('locate_marginal')
            return
        # in order?  (diagnostic only)
        perm_ok = sorted(map(tuple, numpy.round(Y, 6).tolist())) == sorted(map(tuple, numpy.round(expect, 6).tolist()))
        rep.violation('located points are not within the requested tolerance of the targets (in input order)',
                      f'{where} {label} path={path}: max distance {worst:.3e} > bound {bound_ok:.3e} (tol={tol}, eps={eps}); same set in other order: {perm_ok}; targets={expect.tolist()} located={Y.tolist()}'[:1800],
                      mechanism='C11-locate-manifold-eps-corner' if is_eps_corner(s, Y, expect, gen_elem, err) else None, path=path)

    # 1. inside targets, shuffled: must be found, in input order
    order = rng.permutation(len(inside))
    targets = inside[order]
    st, s, path = run(targets)
    if st == 'refused':
        res.count('locate_refused')
        return
    if st == 'exc':
        single = type(topo).__name__ == 'StructuredTopology' and topo.ndims == 1 and len(topo) == 1 and 'read-only' in s
        rep.violation('locate raised an unexpected exception', f'{where}: {s}'[:1800], mechanism='C11-locate-single-element-line' if single else None, path=path)
        return
    if st == 'LocateError':
        rep.violation('locate raised LocateError for targets that are images of points of the topology', f'{where} path={path} tol={tol} eps={eps}: {s}; targets={targets.tolist()}'[:1800], path=path)
    else:
        check_sample(s, targets, 'inside', path, inside_elem[order])
        res.count('locate_inside_calls_ok')
    # 2. with outside targets mixed in
    if outside:
        outside = numpy.array(outside)
        allx = numpy.concatenate([inside, outside])
        isin = numpy.concatenate([numpy.ones(len(inside), bool), numpy.zeros(len(outside), bool)])
        order = rng.permutation(len(allx))
        allx, isin = allx[order], isin[order]
        all_elem = numpy.concatenate([inside_elem, -numpy.ones(len(outside), dtype=int)])[order]
        if case['skip_missing']:
            if rng.random() < .25:
                # nothing but outside targets: the result must be an empty sample
                st, s, path = run(outside, skip_missing=True)
                res.count('locate_skip_missing_all_outside_calls')
                if st == 'ok':
                    if s.npoints != 0:
                        rep.violation('skip_missing did not drop exactly the outside targets', f'{where} path={path}: kept {s.npoints} of {len(outside)} outside targets {outside.tolist()}'[:1200],
                                      mechanism='C11-locate-manifold-projection' if case['manifold'] else None, path=path)
                elif st == 'LocateError':
                    rep.violation('locate(skip_missing=True) raised LocateError', f'{where} path={path}: {s}'[:800], path=path)
                elif st == 'exc':
                    rep.violation('locate raised an unexpected exception', f'{where} (all targets outside, skip_missing=True): {s}'[:1800],
                                  mechanism='C11-locate-skip-missing-all' if s.startswith('IndexError') and '_sample' in s else None, path=path)
            st, s, path = run(allx, skip_missing=True)
            res.count('locate_skip_missing_calls')
            if st == 'ok':
                if s.npoints != int(isin.sum()):
                    rep.violation('skip_missing did not drop exactly the outside targets', f'{where} path={path}: kept {s.npoints} of {len(allx)}, expected {int(isin.sum())}; targets={allx.tolist()} inside={isin.tolist()}'[:1800],
                                  mechanism='C11-locate-manifold-projection' if case['manifold'] and s.npoints > int(isin.sum()) else None, path=path)
                else:
                    check_sample(s, allx[isin], 'skip_missing', path, all_elem[isin])
            elif st == 'LocateError':
                rep.violation('locate(skip_missing=True) raised LocateError', f'{where} path={path}: {s}'[:800], path=path)
            elif st == 'exc':
                rep.violation('locate raised an unexpected exception', f'{where}: {s}'[:1800], path=path)
        else:
            st, s, path = run(allx)
            res.count('locate_outside_calls')
            if st == 'ok':
                rep.violation('locate returned silently although targets lie outside the domain', f'{where} path={path} tol={tol} eps={eps}: outside targets {outside.tolist()}; domain bbox {glo.tolist()}..{ghi.tolist()}'[:1800],
                              mechanism='C11-locate-manifold-projection' if case['manifold'] else None, path=path)
            elif st == 'LocateError':
                res.count('locate_outside_raised')
            elif st == 'exc':
                rep.violation('locate raised an unexpected exception', f'{where}: {s}'[:1800], path=path)
    for f in M.CONTRACT.failures[nfail0:][:3]:
        res.violation('index_with_tail post-condition', dict(case, contract=f['cls']), json.dumps(f)[:1800])
    del M.CONTRACT.failures[nfail0:]
    key = json.dumps([case['spec']['base']['kind'], case['spec']['base'].get('shape', case['spec']['base'].get('n')), b['applied'], case['geomkind'], tk, case['manifold']])
    res.add('distinct', hashlib.sha1(key.encode()).hexdigest()[:16])


# ---------------------------------------------------------------- protocol

def execute(case, res):
    if case['kind'] == 'seq':
        execute_seq(case, res)
    elif case['kind'] == 'locate':
        execute_locate(case, res)
    elif case['kind'] == 'chain':
        execute_chain_range(case['seed'], case['index'], case['index'] + 1, res)
    elif case['kind'] == 'enum':
        from vlib import c11_mon as M
        M.enumerate_swaps(M.Reporter(res, case))


def run_units(units, ctx):
    from vlib import c11_mon as M
    import warnings
    warnings.simplefilter('ignore')
    res = Result()
    for u in units:
        if u['kind'] == 'enum':
            res.count('evaluations')
            M.enumerate_swaps(M.Reporter(res, dict(kind='enum')))
            continue
        if u['kind'] == 'chain':
            if ctx.expired():
                res.count('cases_skipped_deadline', u['stop'] - u['start'])
                continue
            execute_chain_range(ctx.seed, u['start'], u['stop'], res)
            continue
        for i in range(u['start'], u['stop']):
            if ctx.expired():
                res.count('cases_skipped_deadline')
                continue
            case = seq_case(ctx.seed, ctx.tier, i) if u['kind'] == 'seq' else locate_case(ctx.seed, ctx.tier, i)
            try:
                execute(case, res)
            except Exception:
                # the monitors catch what nutils raises; anything arriving here is a harness problem and must be visible
                res.violation('harness: unhandled exception in case', case, traceback.format_exc()[-1800:], mechanism='harness')
            if i % 211 == 0:
                res.sample(case)
    res.count('contract_calls', M.CONTRACT.calls)
    res.count('contract_checked', M.CONTRACT.checked)
    res.count('contract_valueerrors', M.CONTRACT.raised)
    for c in M.CONTRACT.installed:
        res.add('contract_installed_on', c)
    return res


def replay(case):
    res = Result()
    execute(case, res)
    return res.violations


# ---- ledger reproducers

def repro_manifold_zero_step():
    from nutils import mesh, topology
    topo, geom = mesh.unitsquare(2, 'square')
    try:
        s = topo.boundary['bottom'].locate(geom, [[.3, 1.7]], tol=1e-10)
    except topology.LocateError:
        return False, "unitsquare(2,'square').boundary['bottom'].locate(geom, [[.3, 1.7]], tol=1e-10) raises LocateError"
    y = s.eval(geom)
    d = float(numpy.linalg.norm(y - [[.3, 1.7]]))
    return d > 1e-5, f"unitsquare(2,'square').boundary['bottom'].locate(geom, [[.3, 1.7]], tol=1e-10) silently returns the point {y.tolist()} at distance {d:.3g} from the target"


def repro_manifold_eps_corner():
    from nutils import mesh, topology
    topo, geom = mesh.rectilinear([4, 1])
    g = geom * [.25, 1.]
    try:
        s = topo.boundary.locate(g, [[1., .9]], eps=1e-10)
    except topology.LocateError:
        return False, 'rectilinear([4,1]).boundary.locate(geom*[.25,1], [[1,.9]], eps=1e-10) raises LocateError'
    y = s.eval(g)
    d = float(numpy.linalg.norm(y - [[1., .9]]))
    return d > 1e-5, f'rectilinear([4,1]).boundary.locate(geom*[.25,1], [[1,.9]], eps=1e-10): the target lies ON the right edge, the returned point is {y.tolist()} (on the top edge) at distance {d:.3g}'


def repro_two_shared_faces():
    from nutils import mesh
    topo, geom = mesh.line(2, periodic=True)
    b = topo.subset(topo[:1]).boundary
    opp = [tuple(c) for c in b.opposites]
    try:
        found = [int(b.opposites.index(c)) for c in opp]
    except ValueError:
        found = 'ValueError'
    fails = opp[0] == opp[1] or found != [0, 1]
    return fails, f'mesh.line(2, periodic=True): b = topo.subset(topo[:1]).boundary; b.transforms = {list(b.transforms)!r}, b.opposites = {opp!r}; [b.opposites.index(c) for c in b.opposites] = {found}'


def repro_skip_missing_all():
    from nutils import mesh
    topo, geom = mesh.unitsquare(2, 'square')
    try:
        s = topo.locate(geom, [[5., 5.]], eps=1e-10, skip_missing=True)
    except Exception as e:
        return True, f"unitsquare(2,'square').locate(geom, [[5,5]], eps=1e-10, skip_missing=True) raised {type(e).__name__}: {e}"
    return s.npoints != 0, f'returned a sample with {s.npoints} points'


def repro_single_element_line():
    from nutils import mesh, topology
    topo, geom = mesh.line(1)
    try:
        y = topo.locate(geom, [.5], eps=1e-10).eval(geom)
    except topology.LocateError as e:
        return True, f'mesh.line(1): locate(geom, [.5], eps=1e-10) raised LocateError: {e}'
    except Exception as e:
        return True, f'mesh.line(1): locate(geom, [.5], eps=1e-10) raised {type(e).__name__}: {e}'
    return bool(abs(y - .5).max() > 1e-9), f'mesh.line(1): locate(geom, [.5], eps=1e-10) -> {y.tolist()}'


REPRODUCERS = {'C11-locate-manifold-projection': repro_manifold_zero_step, 'C11-locate-skip-missing-all': repro_skip_missing_all,
               'C11-locate-single-element-line': repro_single_element_line, 'C11-locate-manifold-eps-corner': repro_manifold_eps_corner,
               DUP_OPP: repro_two_shared_faces}


def finalize(m, tier, seed):
    c = m.counters

    def group(prefix):
        return {k[len(prefix):]: v for k, v in sorted(c.items()) if k.startswith(prefix)}
    classes = sorted(m.sets.get('classes', ()))
    sigs = sorted(m.sets.get('signatures', ()))
    cov = dict(evaluations=c.get('evaluations', 0), distinct_nontrivial=len(m.sets.get('distinct', ())), rule=RULE, samples=m.samples[:4],
               sequence_cases=c.get('seq_cases', 0), sequences_monitored=c.get('sequences', 0), subsequences_checked=c.get('subsequences_checked', 0),
               transforms_classes_reached=group('class_reached/'), nesting_signatures_count=len(sigs), nesting_signatures=sigs[:120],
               max_nesting_depth=m.maxima.get('max_nesting_depth'), histories_count=len(m.sets.get('histories', ())),
               ops_applied=group('ops_applied/'), refused=group('refused/'), lookups=c.get('lookups', 0), lookup_forms=group('lookup_form/'),
               rewritten_chain_not_resolved=group('rewritten_chain_not_resolved/'), tails_by_item=group('tail_item/'), tails_by_length=group('tail_len/'),
               absent_lookups=c.get('absent_lookups', 0), absent_refused=c.get('absent_refused', 0), absent_kinds=group('absent_kind/'),
               absent_resolved_to_equivalent=c.get('absent_resolved_to_equivalent', 0), out_of_scope=group('out_of_scope/'),
               sequences_violating_prefix_precondition=c.get('sequences_violating_prefix_precondition', 0), prefix_precondition_violated_in=sorted(m.sets.get('prefix_precondition_violated_in', ()))[:10],
               two_faces_same_opposite_seen=c.get('two_faces_same_opposite_seen', 0), f_coords_on_trimmed_elements=c.get('f_coords_on_trimmed_elements', 0),
               f_coords_outside_trimmed_part_of_element=c.get('f_coords_outside_trimmed_part_of_element', 0),
               boundary_with_ghost_opposites=c.get('boundary_with_ghost_opposites', 0), manifold_eps_outside_not_demanded=c.get('manifold_eps_outside_not_demanded', 0),
               getitem=group('getitem/'), getitem_refused=group('getitem_refused/'), getitem_refused_other=group('getitem_refused_other/'), getitem_accepted=group('getitem_accepted/'),
               derived_sequences=group('derived_sequences/'), derived_topologies=group('derived_topologies/'), chained_sequences=c.get('chained_sequences', 0),
               gc_lookups=c.get('gc_lookups', 0), rebuilt_chain_lookups=c.get('rebuilt_chain_lookups', 0), rebuilt_items_not_identical=c.get('rebuilt_items_not_identical', 0),
               pickled_chain_lookups=c.get('pickled_chain_lookups', 0),
               contract=dict(calls=c.get('contract_calls', 0), checked=c.get('contract_checked', 0), valueerrors=c.get('contract_valueerrors', 0), installed_on=sorted(m.sets.get('contract_installed_on', ()))),
               index_coords_evals=group('index_coords_evals/'), index_coords_elements=c.get('index_coords_elements', 0), jump_evals=c.get('jump_evals', 0), jump_points=c.get('jump_points', 0),
               chains=c.get('chains', 0), enumerated_chains=c.get('enumerated_chains', 0), chain_items=group('chain_item/'), chain_refs=group('chain_ref/'),
               rewrites=group('rewrites/'), rewrites_changed=group('rewrites_changed/'), iscanonical_checks=c.get('iscanonical_checks', 0),
               locate_cases=c.get('locate_cases', 0), locate_calls=c.get('locate_calls', 0), locate_paths=group('locate_path/'), locate_geometries=group('locate_geom/'),
               locate_tolerances=group('locate_tol/'), located_points=c.get('located_points', 0), locate_targets=dict(inside=c.get('locate_targets_inside', 0),
               on_element_boundary=c.get('locate_targets_on_element_boundary', 0), outside=c.get('locate_targets_outside', 0), outside_dropped_element=c.get('locate_targets_outside_dropped_element', 0)),
               locate_outside_raised=c.get('locate_outside_raised', 0), locate_skip_missing_calls=c.get('locate_skip_missing_calls', 0), locate_refused=c.get('locate_refused', 0),
               locate_marginal=c.get('locate_marginal', 0), marginal_float=c.get('marginal_float', 0), cases_skipped_deadline=c.get('cases_skipped_deadline', 0),
               not_covered=['maxprocs>1 (C16)', 'product (tensorial) topologies', 'gmsh meshes'])
    inc = None
    need = {'StructuredTransforms', 'IndexTransforms', 'MaskedTransforms', 'ReorderedTransforms', 'DerivedTransforms', 'UniformDerivedTransforms', 'ChainedTransforms', 'PlainTransforms'}
    ran = c.get('seq_cases', 0) + c.get('chain_cases', 0) + c.get('locate_cases', 0)
    total = NSEQ[tier] + NCHAIN[tier] + NLOC[tier]
    if c.get('seq_cases', 0) < .5 * NSEQ[tier] or c.get('locate_cases', 0) < .5 * NLOC[tier] or c.get('chain_cases', 0) < .5 * NCHAIN[tier]:
        inc = f"only {c.get('seq_cases', 0)}/{NSEQ[tier]} sequence, {c.get('chain_cases', 0)}/{NCHAIN[tier]} chain and {c.get('locate_cases', 0)}/{NLOC[tier]} locate cases ran before the deadline"
    elif need - set(classes):
        inc = f'Transforms classes never reached: {sorted(need - set(classes))}'
    elif c.get('contract_checked', 0) < 1000 or len(cov['contract']['installed_on']) < 8:
        inc = 'index_with_tail post-condition barely evaluated'
    elif c.get('lookups', 0) < 10 * c.get('seq_cases', 1) or not cov['tails_by_item'] or c.get('absent_lookups', 0) < 100:
        inc = 'lookup monitor barely reached'
    elif c.get('index_coords_elements', 0) < 500 or c.get('jump_evals', 0) < 20:
        inc = 'f_index/f_coords or jump monitor barely reached'
    elif c.get('enumerated_chains', 0) < 1000 or c.get('iscanonical_checks', 0) < 1000:
        inc = 'chain rewriting monitor barely reached'
    elif not all(any(k.startswith(p) for k in cov['locate_paths']) for p in ('newton', 'structured_affine')) or c.get('locate_outside_raised', 0) < 5 or c.get('locate_skip_missing_calls', 0) < 5:
        inc = f"locate paths not all exercised: {cov['locate_paths']}"
    elif c.get('marginal_float', 0) + c.get('locate_marginal', 0) > .005 * max(1, c.get('lookups', 0)):
        inc = 'too many marginal float comparisons'
    return dict(coverage=cov, inconclusive=inc)
