"""C03 — Compiled functions are pure functions of their arguments across calls.

Executable model: "a freshly compiled function per call" + the shadow numpy
value, both for the CURRENT contents of that call's argument objects.  Monitors:
* history monitor: f(A1), f(A2), ... on ONE compiled function (constant-
  intermediate caching on) must equal the model at every call;
* argument sanitizer: arguments are passed read-only (a write attempt from the
  generated code raises) or writable with byte snapshots before/after each call;
* result poisoning: every writable array returned by an earlier call is
  overwritten (NaN / -7777 / flipped) before the next call;
* long-lived compiled functions inside the library (solver.System, Basis tables,
  Topology.locate, sample.eval of bound integrals) are driven through their
  public entry points with changing arguments and compared with fresh objects.
"""

import traceback, warnings, copy
import numpy
from vlib.runner import Result, rng_for, scaled
from vlib import tolerance, evgen, evmon

PROPERTY = 'C03'
LEVEL = 'exploration'
RULE = ('G-ev programs (large constant sub-DAGs, constants behind Guard/loops, parts depending on some arguments only) x call histories of '
        '3-8 calls (identical dict, one argument changed, caller mutates an argument array in place between calls, extra irrelevant arguments, '
        'arguments given as lists/0-d) x compile configurations with constant-intermediate caching; library scenarios for System/Basis/locate/'
        'integrals; non-trivial = >=3 inner nodes and at least one argument; distinct = (operator skeleton, history shape)')
ASSUMPTIONS = ['shadow numpy interpreter and a fresh compile per call are the reference',
               'returned arrays that share memory with a caller-owned argument are not poisoned (aliasing an argument is not a purity violation)']
BUDGET_S = {'quick': 110, 'thorough': 1500}
NCASES = {'quick': 4000, 'thorough': 60000}
CHUNK = 25
CONFIGS = [('default', True, True), ('raw', False, False), ('simplify', True, False), ('optimize', False, True)]


def plan(tier, seed):
    n = scaled(NCASES[tier])
    units = [dict(kind='gev', start=i, stop=min(n, i + CHUNK)) for i in range(0, n, CHUNK)]
    nl = scaled(60 if tier == 'quick' else 1500)
    units += [dict(kind='lib', start=i, stop=min(nl, i + 4)) for i in range(0, nl, 4)]
    return units


def setup():
    import treelog
    treelog.set(treelog.NullLog()).__enter__()
    evmon.install_step_counter()
    evmon.install_script_capture()
    warnings.simplefilter('ignore')


def poison(a):
    if a.dtype.kind == 'f':
        a[...] = numpy.nan
    elif a.dtype.kind == 'c':
        a[...] = numpy.nan + 1j * numpy.nan
    elif a.dtype.kind in 'iu':
        a[...] = -7777
    elif a.dtype.kind == 'b':
        a[...] = ~a


def history(case, rng, base):
    """list of (kind, argdict).  Arrays may be shared between entries on purpose (in-place mutation by the caller)."""
    specs = evgen.argspecs(case)
    n = int(rng.integers(3, 9))
    cur = {k: v.copy() for k, v in base.items()}
    hist = []
    if specs and rng.random() < .25:      # the very first call fails (missing / mis-shaped argument): later calls must be unaffected
        hist.append(_bad_call(rng, specs, cur))
    hist.append(('first', cur))
    for _ in range(n - 1):
        if specs and rng.random() < .12:
            hist.append(_bad_call(rng, specs, cur))
            continue
        kind = str(rng.choice(['same-dict', 'equal-copy', 'one-changed', 'mutated-in-place', 'all-changed', 'extra-args', 'as-list', 'revisit-first']))
        if not specs and kind in ('one-changed', 'mutated-in-place', 'all-changed'):
            kind = 'same-dict'
        if kind == 'same-dict':
            nxt = cur
        elif kind == 'equal-copy':
            nxt = {k: v.copy() for k, v in cur.items()}
        elif kind in ('one-changed', 'all-changed'):
            fresh = evgen.draw_args(case, rng)
            names = [s[0] for s in specs]
            pick = names if kind == 'all-changed' else [str(rng.choice(names))]
            nxt = dict(cur)
            for k in pick:
                nxt[k] = fresh[k]
        elif kind == 'mutated-in-place':
            fresh = evgen.draw_args(case, rng)
            k = str(rng.choice([s[0] for s in specs]))
            nxt = cur                      # same dict, same array objects ...
            nxt[k][...] = fresh[k]         # ... whose contents the caller changed
        elif kind == 'extra-args':
            nxt = dict(cur)
            nxt['unused_argument'] = numpy.arange(3.)
        elif kind == 'as-list':
            nxt = {k: (v.tolist() if v.ndim and v.size else v[()] if not v.ndim else v) for k, v in cur.items()}
        else:
            nxt = next(a for k, a in hist if not k.startswith('bad-'))
        hist.append((kind, nxt))
        if kind != 'as-list':
            cur = nxt
    return hist


def _bad_call(rng, specs, cur):
    name, shape, kind, rg = specs[int(rng.integers(len(specs)))]
    bad = dict(cur)
    if rng.random() < .5 or not shape:
        del bad[name]
        return ('bad-missing', bad)
    bad[name] = numpy.zeros(tuple(n + 1 for n in shape), dtype=cur[name].dtype)
    return ('bad-shape', bad)


def asarrays(case, d):
    specs = {n: k for n, s, k, r in evgen.argspecs(case)}
    return {k: numpy.asarray(v, dtype=evgen.NPDT[specs[k]]) for k, v in d.items() if k in specs}


def check_case(case, seed_key, res, tier):
    from nutils import evaluable as ev
    res.count('evaluations')
    evmon.reset_steps()
    try:
        with evmon.wall(30):
            built, outs = evgen.build(case)
            simp = tuple(o.simplified for o in outs)
    except (AssertionError, ValueError, TypeError, IndexError):
        res.count('rejected_constructions')
        return
    except (evmon.StepBudget, evmon.WallNominate, RecursionError, Exception):
        res.count('skipped_c01_event')
        return
    rng = rng_for(*seed_key, 'hist')
    r = evgen.in_domain_args(case, rng)
    if r is None:
        res.count('out_of_domain')
        return
    base = r[0]
    hist = history(case, rng, base)
    cfgname, simplify, optimize = CONFIGS[seed_key[-1] % len(CONFIGS)]
    readonly = bool(rng.random() < .5)
    res.count('config/' + cfgname)
    res.count('argmode/' + ('readonly' if readonly else 'snapshot'))
    try:
        with evmon.wall(60), warnings.catch_warnings():
            warnings.simplefilter('ignore')
            f = ev.compile(outs, _simplify=simplify, _optimize=optimize, cache_const_intermediates=True)
    except (evmon.WallNominate, evmon.StepBudget, RecursionError):
        res.count('skipped_c01_event')
        return
    except Exception as e:
        res.count('compile_failed')   # C02's business
        return
    returned = []   # writable arrays handed out by earlier calls
    nwritable = 0
    for icall, (kind, args) in enumerate(hist):
        res.count('calls')
        res.count('hist/' + kind)
        if kind.startswith('bad-'):
            try:
                with evmon.wall(60), warnings.catch_warnings(), numpy.errstate(all='ignore'):
                    warnings.simplefilter('ignore')
                    f(args)
                res.count('bad_call_returned')
            except evmon.WallNominate:
                res.count('inconclusive_wall')
                break
            except Exception:
                res.count('bad_call_raised')
            continue
        cur = asarrays(case, args)
        try:
            ref, scale = evgen.shadow(case, cur)
        except evgen.OutOfDomain:
            res.count('history_left_domain')
            break
        # poison everything handed out earlier
        for a in returned:
            if a.flags.writeable and not any(numpy.shares_memory(a, v) for v in args.values() if isinstance(v, numpy.ndarray)):
                poison(a)
                res.count('poisoned')
        if readonly:
            for v in args.values():
                if isinstance(v, numpy.ndarray):
                    v.setflags(write=False)
        snap = {k: (v.tobytes(), v.dtype.str, v.shape) for k, v in args.items() if isinstance(v, numpy.ndarray)}
        try:
            with evmon.wall(60), warnings.catch_warnings(), numpy.errstate(all='ignore'):
                warnings.simplefilter('ignore')
                got = f(args)
        except evmon.WallNominate:
            res.count('inconclusive_wall')
            break
        except ValueError as e:
            if 'read-only' in str(e):
                res.violation('generated code writes into an argument array', pack(case, hist, icall, cfgname), traceback.format_exc()[-700:])
                return
            res.violation('call raised', pack(case, hist, icall, cfgname), f'call {icall} ({kind}): {type(e).__name__}: {str(e)[:300]}')
            return
        except Exception as e:
            res.violation('call raised', pack(case, hist, icall, cfgname), f'call {icall} ({kind}): {type(e).__name__}: {str(e)[:300]}\n' + traceback.format_exc()[-500:])
            return
        finally:
            if readonly:
                for v in args.values():
                    if isinstance(v, numpy.ndarray):
                        v.setflags(write=True)
        for k, (b, dt, sh) in snap.items():
            v = args[k]
            if v.tobytes() != b or v.dtype.str != dt or v.shape != sh:
                res.violation('argument array modified by the call', pack(case, hist, icall, cfgname), f'call {icall} ({kind}): argument {k} changed')
                return
        res.count('argument_snapshots', len(snap))
        # compare with the shadow (current contents)
        for j, (g, rf) in enumerate(zip(got, ref)):
            v, det = tolerance.compare(g, rf, scale)
            res.count('compare/' + v)
            if v == tolerance.VIOLATION:
                # is a fresh compile right?  (otherwise it is a translation matter, C02)
                try:
                    fresh = ev.compile(outs, _simplify=simplify, _optimize=optimize, cache_const_intermediates=False)(dict(cur))
                    fresh_ok = tolerance.compare(fresh[j], rf, scale)[0] != tolerance.VIOLATION
                except Exception:
                    fresh_ok = False
                if not fresh_ok:
                    res.count('fresh_compile_also_wrong')
                    return
                res.violation('result depends on the call history', pack(case, hist, icall, cfgname), f'call {icall} ({kind}), output {j}: {det}; a fresh compile returns the right value')
                return
        for g in got:
            if isinstance(g, numpy.ndarray):
                if g.flags.writeable:
                    nwritable += 1
                    returned.append(g)
                else:
                    res.count('returned_readonly')
    res.count('returned_writable', nwritable)
    if evgen.ninner(case) >= 3 and evgen.argspecs(case):
        res.add('distinct', evgen.skeleton(case)[:300] + '|' + ','.join(k for k, _ in hist))


def pack(case, hist, icall, cfg):
    def enc(d):
        return {k: evgen.encode(numpy.asarray(v)) for k, v in d.items()}
    return dict(case=case, history=[(k, enc(a)) for k, a in hist[:icall + 1]], config=cfg, desc=evgen.describe(case))


# ---------------------------------------------------------------------------
# library scenarios

def lib_case(seed, i, res):
    from nutils import mesh, function, solver
    rng = rng_for(seed, 'c03lib', i)
    which = str(rng.choice(['system', 'basis', 'locate', 'integral', 'trimarg']))
    res.count('lib/' + which)
    case = dict(lib=which, index=i)
    n = int(rng.integers(2, 5))
    if which == 'system':
        topo, geom = mesh.rectilinear([n])
        basis = topo.basis('std', degree=1)
        u = function.dotarg('u', basis)
        v = function.dotarg('v', basis)
        k = function.Argument('k', ())
        resf = topo.integral((function.grad(u, geom) @ function.grad(v, geom) * k + u**2 * v - v) * function.J(geom), degree=3)
        S = solver.System(resf, trial='u', test='v')
        vals = []
        for it in range(int(rng.integers(3, 6))):
            a = dict(u=rng.normal(size=len(basis)), k=numpy.array(float(rng.uniform(.5, 2))))
            r1 = S.assemble_residual(a)
            S2 = solver.System(topo.integral((function.grad(u, geom) @ function.grad(v, geom) * k + u**2 * v - v) * function.J(geom), degree=3), trial='u', test='v')
            ref = function.eval(function.derivative(resf, 'v'), arguments=a)
            res.count('lib_calls')
            if tolerance.compare(numpy.asarray(r1).ravel(), numpy.asarray(ref).ravel(), 1.)[0] == tolerance.VIOLATION:
                res.violation('System.assemble_residual depends on the call history', case, f'iteration {it}')
                return case
            jac, r2 = S.assemble_jacobian_residual(a)[:2]
            if tolerance.compare(numpy.asarray(r2).ravel(), numpy.asarray(ref).ravel(), 1.)[0] == tolerance.VIOLATION:
                res.violation('System.assemble_jacobian_residual depends on the call history', case, f'iteration {it}')
                return case
            jref = function.eval(function.derivative(function.derivative(resf, 'v'), 'u'), arguments=a)
            if tolerance.compare(jac.export('dense'), jref, 1., check_kind=False)[0] == tolerance.VIOLATION:
                res.violation('System jacobian depends on the call history', case, f'iteration {it}')
                return case
    elif which == 'basis':
        topo, geom = mesh.unitsquare(n, str(rng.choice(['square', 'triangle', 'mixed'])) if n > 1 else 'square')
        b = topo.basis(str(rng.choice(['std', 'discont'])), degree=int(rng.integers(1, 3)))
        first = {}
        order = [int(x) for x in rng.integers(0, len(topo), size=12)]
        for ielem in order:
            d = b.get_dofs(ielem).copy()
            c = numpy.array(b.get_coefficients(ielem), copy=True)
            nd = b.get_ndofs(ielem)
            res.count('lib_calls')
            if ielem in first:
                d0, c0, n0 = first[ielem]
                if not (numpy.array_equal(d, d0) and numpy.array_equal(c, c0) and nd == n0):
                    res.violation('Basis tables depend on the call history', case, f'element {ielem}')
                    return case
            else:
                first[ielem] = (d, c, nd)
            # poison what was handed out if writable
            for arr in (b.get_dofs(ielem), b.get_coefficients(ielem)):
                if isinstance(arr, numpy.ndarray) and arr.flags.writeable:
                    poison(arr)
                    res.count('poisoned')
    elif which == 'locate':
        topo, geom = mesh.rectilinear([n, n])
        g = geom * [1., 1.5] + [.1, 0] if rng.random() < .5 else geom + .1 * geom[::-1]**2 / (n * n)
        for it in range(3):
            X = rng.uniform(.2, n - .2, size=(int(rng.integers(1, 5)), 2))
            tgt = function.eval(g, arguments={}) if False else None
            smp0 = topo.sample('uniform', 1)
            # targets that are certainly inside: images of random local points
            pts = topo.sample('gauss', 1).eval(g)
            T = pts[rng.integers(0, len(pts), size=3)]
            loc = topo.locate(g, T, tol=1e-10)
            got = loc.eval(g)
            res.count('lib_calls')
            if tolerance.compare(got, T, 1., rtol_viol=1e-6)[0] == tolerance.VIOLATION:
                res.violation('locate result depends on the call history', case, f'round {it}: {got.tolist()} vs {T.tolist()}')
                return case
    elif which == 'integral':
        topo, geom = mesh.rectilinear([n])
        basis = topo.basis('std', degree=1)
        c = function.Argument('c', (len(basis),))
        s = function.Argument('s', ())
        f = topo.integral((basis @ c)**2 * s * function.J(geom), degree=2)
        fc = function.factor(f) if rng.random() < .3 else f
        comp = None
        for it in range(5):
            a = dict(c=rng.normal(size=len(basis)), s=numpy.array(float(rng.normal())))
            v1 = function.eval(fc, arguments=a)
            xs = numpy.linspace(0, n, n + 1)
            # exact: integral of piecewise linear squared
            cv = a['c']
            ref = sum((cv[e]**2 + cv[e] * cv[e + 1] + cv[e + 1]**2) / 3 for e in range(n)) * a['s']
            res.count('lib_calls')
            if tolerance.compare(numpy.asarray(v1), numpy.asarray(ref), 1.)[0] == tolerance.VIOLATION:
                res.violation('integral value depends on the call history', case, f'round {it}: {v1} vs {ref}')
                return case
    else:
        topo, geom = mesh.rectilinear([n, 2])
        r0 = function.Argument('r', ())
        for it in range(2):
            rad = float(rng.uniform(.4, 1.2))
            t = topo.trim(numpy.linalg.norm(geom - numpy.array([n / 2, 1.])) - r0, maxrefine=2, arguments=dict(r=numpy.array(rad)))
            vol = t.integrate(function.J(geom), degree=1)
            ref = topo.integrate(function.J(geom), degree=1) - numpy.pi * rad**2 if rad <= 1 else None
            res.count('lib_calls')
            if ref is not None and abs(vol - ref) > .15 * max(1, ref):
                res.violation('trim with arguments depends on the call history', case, f'round {it}: volume {vol} vs ~{ref} for radius {rad}')
                return case
    res.add('distinct', f'lib:{which}:{n}')
    return case


def gen_case(seed, i):
    rng = rng_for(seed, 'c03', i)
    return evgen.generate(rng, size=int(rng.integers(5, 24)), profile=str(rng.choice(['all', 'float', 'all'])))


def run_units(units, ctx):
    evgen.self_test()
    setup()
    res = Result()
    for u in units:
        for i in range(u['start'], u['stop']):
            if ctx.expired():
                res.count('skipped_deadline')
                continue
            if u['kind'] == 'gev':
                case = gen_case(ctx.seed, i)
                check_case(case, (ctx.seed, 'c03', i), res, ctx.tier)
                if i % 399 == 0:
                    res.sample(dict(index=i, desc=evgen.describe(case)))
            else:
                try:
                    c = lib_case(ctx.seed, i, res)
                    if i % 20 == 0:
                        res.sample(c, cap=4)
                except Exception as e:
                    res.count('lib_scenario_failed')
                    res.note(f'lib scenario {i}: {type(e).__name__}: {str(e)[:200]}')
    for k, v in evmon.SCRIPT_FEATURES.items():
        res.count('feature/' + k, v)
    return res


def replay(case):
    evgen.self_test()
    setup()
    res = Result()
    if 'case' in case:
        check_case(case['case'], (0, 'replay', {'default': 0, 'raw': 1, 'simplify': 2, 'optimize': 3}.get(case.get('config'), 0)), res, 'thorough')
    elif 'lib' in case:
        lib_case(0, case['index'], res)
    return res.violations


REPRODUCERS = {}


def finalize(m, tier, seed):
    c = m.counters
    cov = dict(evaluations=c.get('evaluations', 0), distinct_nontrivial=len(m.sets.get('distinct', ())), rule=RULE, samples=m.samples[:5],
               calls=c.get('calls', 0), history_steps={k[5:]: v for k, v in c.items() if k.startswith('hist/')},
               configs={k[7:]: v for k, v in c.items() if k.startswith('config/')}, argmodes={k[8:]: v for k, v in c.items() if k.startswith('argmode/')},
               comparisons={k[8:]: v for k, v in c.items() if k.startswith('compare/')},
               argument_snapshots=c.get('argument_snapshots', 0), poisoned_arrays=c.get('poisoned', 0), returned_writable=c.get('returned_writable', 0),
               returned_readonly=c.get('returned_readonly', 0), scripts_with_first_run=c.get('feature/first_run', 0),
               failing_calls=dict(raised=c.get('bad_call_raised', 0), returned=c.get('bad_call_returned', 0)),
               library=dict(calls=c.get('lib_calls', 0), scenarios={k[4:]: v for k, v in c.items() if k.startswith('lib/')}, failed=c.get('lib_scenario_failed', 0)),
               skipped_c01_event=c.get('skipped_c01_event', 0), compile_failed=c.get('compile_failed', 0), fresh_compile_also_wrong=c.get('fresh_compile_also_wrong', 0),
               history_left_domain=c.get('history_left_domain', 0), skipped_deadline=c.get('skipped_deadline', 0))
    inc = None
    if cov['evaluations'] < 0.5 * scaled(NCASES[tier]):
        inc = f"only {cov['evaluations']} programs ran before the deadline"
    elif cov['calls'] < 3 * cov['evaluations'] * 0.5:
        inc = 'histories too short'
    elif not cov['scripts_with_first_run']:
        inc = 'constant-intermediate caching (first_run) never appeared in a generated script'
    elif cov['poisoned_arrays'] < 100 or cov['argument_snapshots'] < 100:
        inc = 'sanitizers barely reached'
    elif cov['library']['calls'] < 20:
        inc = 'library scenarios barely reached'
    return dict(coverage=cov, inconclusive=inc)
