"""C15 — Matrix objects are faithful to the data they were assembled from.

Monitor shape: executable reference model (dense numpy matrix built directly
from the COO triplets) advanced in lock-step with the real Matrix object over a
random operation sequence, for every available backend, plus a backend-vs-
backend differential; and a rejection monitor that feeds single-fault mutations
of valid CSR data to assemble_csr/assemble_coo and demands MatrixError/ValueError.
"""

import json, pickle, traceback
import numpy
from vlib.runner import Result
from vlib import tolerance

PROPERTY = 'C15'
LEVEL = 'exploration'
RULE = ('random CSR/COO/block data (shapes 0..8 incl. 0xN, empty rows/cols, explicit zeros, float/complex) assembled in '
        'each backend; random sequences of <=6 matrix operations compared entry-wise with a dense numpy model; '
        'single-fault mutations of valid CSR input must be rejected. non-trivial = at least one stored entry and '
        'at least one operation beyond export; distinct = hash of (shape, pattern, dtype, op sequence)')
ASSUMPTIONS = ['numpy dense arithmetic is the reference model', 'MKL backend not installable offline: not covered',
               'scipy 1.18.1 from the offline wheelhouse is the second backend']
BUDGET_S = {'quick': 100, 'thorough': 1500}
NCASES = {'quick': 2800, 'thorough': 120000}
CHUNK = 100


def plan(tier, seed):
    n = NCASES[tier]
    return [dict(start=i, stop=min(n, i + CHUNK)) for i in range(0, n, CHUNK)]


def backends():
    from nutils import matrix
    out = ['numpy']
    try:
        matrix.backend('scipy')
        out.append('scipy')
    except Exception:
        pass
    return out


def gen_csr(rng):
    nrows = int(rng.choice([0, 1, 2, 3, 4, 5, 8], p=[.05, .1, .15, .2, .2, .2, .1]))
    ncols = int(rng.choice([0, 1, 2, 3, 4, 5, 8], p=[.03, .1, .15, .22, .2, .2, .1]))
    cplx = rng.random() < .3
    dens = rng.choice([0., .15, .4, .8, 1.])
    rowptr = [0]
    colidx, values = [], []
    for i in range(nrows):
        if rng.random() < .15:
            cols = []
        else:
            cols = [j for j in range(ncols) if rng.random() < dens]
        colidx.extend(cols)
        for j in cols:
            v = float(rng.integers(-4, 5)) if rng.random() < .5 else float(rng.normal())
            if rng.random() < .12:
                v = 0.  # explicit zero
            if cplx:
                v = v + 1j * float(rng.integers(-3, 4))
            values.append(v)
        rowptr.append(len(colidx))
    idt = rng.choice(['int64', 'int32', 'uint32', 'int16']) if rng.random() < .3 else 'int64'
    return dict(values=numpy.array(values, dtype=complex if cplx else float), rowptr=numpy.array(rowptr, dtype=idt),
                colidx=numpy.array(colidx, dtype=idt), ncols=ncols, nrows=nrows)


def dense_model(d):
    A = numpy.zeros((d['nrows'], d['ncols']), dtype=d['values'].dtype)
    for i in range(d['nrows']):
        for k in range(int(d['rowptr'][i]), int(d['rowptr'][i + 1])):
            A[i, int(d['colidx'][k])] += d['values'][k]
    return A


def jsonable(d):
    return dict(values=[[v.real, v.imag] for v in d['values'].astype(complex)], cplx=bool(d['values'].dtype.kind == 'c'),
                rowptr=[int(i) for i in d['rowptr']], colidx=[int(i) for i in d['colidx']],
                ncols=int(d['ncols']), nrows=int(d['nrows']), idt=str(d['rowptr'].dtype))


def from_jsonable(j):
    vals = numpy.array([complex(a, b) for a, b in j['values']], dtype=complex)
    if not j['cplx']:
        vals = vals.real.astype(float)
    return dict(values=vals, rowptr=numpy.array(j['rowptr'], dtype=j['idt']), colidx=numpy.array(j['colidx'], dtype=j['idt']),
                ncols=j['ncols'], nrows=j['nrows'])


OPS = ['export', 'matvec', 'matmat', 'T', 'neg', 'scale', 'div', 'add', 'sub', 'rowsupp', 'diagonal', 'submatrix', 'submatrix_again',
       'pickle', 'addself', 'add_other_backend']


def gen_ops(rng):
    n = int(rng.integers(1, 7))
    ops = []
    for _ in range(n):
        op = str(rng.choice(OPS))
        ops.append([op, int(rng.integers(0, 2**31))])
    return ops


def check_exports(M, A, res, where):
    """All three exports must denote the dense model A. Returns list of problems."""
    probs = []
    if tuple(M.shape) != A.shape:
        probs.append(f'{where}: shape {M.shape} != {A.shape}')
        return probs
    D = M.export('dense')
    v, det = tolerance.compare(D, A, check_kind=False)
    if v != tolerance.PASS:
        probs.append(f'{where}: export(dense) {det}')
    data, colidx, rowptr = M.export('csr')
    res.count('exports')
    if len(rowptr) != A.shape[0] + 1 or rowptr[0] != 0 or rowptr[-1] != len(data) or len(colidx) != len(data) or (numpy.diff(rowptr) < 0).any():
        probs.append(f'{where}: export(csr) malformed rowptr/colidx')
    else:
        B = numpy.zeros(A.shape, dtype=complex)
        ok = True
        for i in range(A.shape[0]):
            cols = colidx[rowptr[i]:rowptr[i + 1]]
            if len(cols) and ((numpy.diff(cols) <= 0).any() or cols[0] < 0 or cols[-1] >= A.shape[1]):
                ok = False
            for k in range(rowptr[i], rowptr[i + 1]):
                B[i, colidx[k]] += data[k]
        if not ok:
            probs.append(f'{where}: export(csr) columns not strictly increasing / out of range')
        elif tolerance.compare(B, A.astype(complex))[0] != tolerance.PASS:
            probs.append(f'{where}: export(csr) denotes a different matrix')
    data, (row, col) = M.export('coo')
    if not (len(data) == len(row) == len(col)):
        probs.append(f'{where}: export(coo) length mismatch')
    elif len(row) and (row.min() < 0 or row.max() >= A.shape[0] or col.min() < 0 or col.max() >= A.shape[1]):
        probs.append(f'{where}: export(coo) index out of range')
    else:
        B = numpy.zeros(A.shape, dtype=complex)
        numpy.add.at(B, (row, col), data)
        if len(set(zip(row.tolist(), col.tolist()))) != len(row):
            probs.append(f'{where}: export(coo) repeated index pair')
        if tolerance.compare(B, A.astype(complex))[0] != tolerance.PASS:
            probs.append(f'{where}: export(coo) denotes a different matrix')
    return probs


def run_sequence(backend_name, d, ops, res):
    """Apply ops to model and object in lock-step. Returns list of problem strings."""
    from nutils import matrix
    probs = []
    with matrix.backend(backend_name):
        M = matrix.assemble_csr(d['values'], d['rowptr'], d['colidx'], d['ncols'])
        A = dense_model(d)
        probs += check_exports(M, A, res, 'after assemble')
        for op, s in ops:
            rng = numpy.random.default_rng(s)
            res.count('ops/' + op)
            if op == 'export':
                pass
            elif op == 'matvec':
                x = rng.normal(size=A.shape[1])
                if A.dtype.kind == 'c' and rng.random() < .5:
                    x = x + 1j * rng.normal(size=A.shape[1])
                y = M @ x
                if tolerance.compare(y, A @ x, check_kind=False)[0] != tolerance.PASS:
                    probs.append(f'{op}: M@x != A@x')
            elif op == 'matmat':
                X = rng.normal(size=(A.shape[1], int(rng.integers(1, 4))))
                if tolerance.compare(M @ X, A @ X, check_kind=False)[0] != tolerance.PASS:
                    probs.append(f'{op}: M@X != A@X')
            elif op == 'T':
                M, A = M.T, A.T
            elif op == 'neg':
                M, A = -M, -A
            elif op == 'scale':
                c = float(rng.choice([2., -.5, 0., 3.25]))
                if rng.random() < .5:
                    M, A = M * c, A * c
                else:
                    M, A = c * M, c * A
            elif op == 'div':
                c = float(rng.choice([2., -.5, 4.]))
                M, A = M / c, A / c
            elif op in ('add', 'sub', 'add_other_backend'):
                d2 = gen_csr(rng)
                # same shape as the current matrix
                B = numpy.where(rng.random(A.shape) < .4, rng.integers(-3, 4, size=A.shape).astype(float), 0.)
                if A.dtype.kind == 'c' and rng.random() < .5:
                    B = B + 1j * numpy.where(rng.random(A.shape) < .3, 1., 0.)
                r, c = B.nonzero()
                rowptr = numpy.searchsorted(r, numpy.arange(A.shape[0] + 1))
                if op == 'add_other_backend':
                    others = [b for b in backends() if b != backend_name]
                    if not others:
                        continue
                    with matrix.backend(others[0]):
                        N = matrix.assemble_csr(B[r, c], rowptr, c, A.shape[1])
                else:
                    N = matrix.assemble_csr(B[r, c], rowptr, c, A.shape[1])
                if op == 'sub':
                    M, A = M - N, A - B
                else:
                    M, A = M + N, A + B
            elif op == 'addself':
                M, A = M + M, A + A
            elif op == 'rowsupp':
                tol = float(rng.choice([0., 0., .5, 1., 2.5]))
                exp = (abs(A) > tol).any(axis=1)
                got = M.rowsupp(tol)
                if got.shape != exp.shape or (got != exp).any():
                    probs.append(f'rowsupp({tol}): {got.tolist()} != {exp.tolist()}')
            elif op == 'diagonal':
                if A.shape[0] == A.shape[1]:
                    got = M.diagonal()
                    if tolerance.compare(got, numpy.diagonal(A), check_kind=False)[0] != tolerance.PASS:
                        probs.append(f'diagonal: {got} != {numpy.diagonal(A)}')
                else:
                    # non-square: the base class refuses (MatrixError); a backend that answers must answer correctly
                    try:
                        got = M.diagonal()
                        res.count('nonsquare_diagonal_answered')
                        if tolerance.compare(got, numpy.diagonal(A), check_kind=False)[0] != tolerance.PASS:
                            probs.append(f'diagonal (non-square): {got} != {numpy.diagonal(A)}')
                    except matrix.MatrixError:
                        res.count('nonsquare_diagonal_refused')
            elif op in ('submatrix', 'submatrix_again'):
                # two selections in a row on the SAME object exercise the one-entry cache
                M0, A0 = M, A
                for rep in range(2 if op == 'submatrix_again' else 1):
                    rows = rng.random(A0.shape[0]) < .6
                    cols = rng.random(A0.shape[1]) < .6
                    if rep == 1 and rng.random() < .5:
                        cols = ~cols if rng.random() < .5 else cols
                        rows = rows if rng.random() < .5 else ~rows
                    if rng.random() < .3:
                        rsel, csel = rows.nonzero()[0], cols.nonzero()[0]
                    else:
                        rsel, csel = rows, cols
                    S = M0.submatrix(rsel, csel)
                    As = A0[numpy.ix_(rows, cols)]
                    p = check_exports(S, As, res, f'{op}[{rep}]')
                    probs += p
                M, A = S, As
            elif op == 'pickle':
                M = pickle.loads(pickle.dumps(M))
            probs += check_exports(M, A, res, f'after {op}')
            if probs:
                break
    return probs, M, A


# ---- rejection clause: single-fault mutations of valid CSR data

def mutations(d, rng):
    """Yield (name, kwargs) of inputs that do NOT define a matrix unambiguously."""
    v, rp, ci, nc = d['values'], d['rowptr'].astype('int64'), d['colidx'].astype('int64'), d['ncols']
    n = len(v)
    nrows = len(rp) - 1
    if n:
        k = int(rng.integers(0, n))
        yield 'col>=ncols', dict(values=v, rowptr=rp, colidx=numpy.where(numpy.arange(n) == k, nc, ci), ncols=nc)
        yield 'col<0', dict(values=v, rowptr=rp, colidx=numpy.where(numpy.arange(n) == k, -1, ci), ncols=nc)
        yield 'col<-ncols', dict(values=v, rowptr=rp, colidx=numpy.where(numpy.arange(n) == k, -nc - 1, ci), ncols=nc)
        yield 'values-too-long', dict(values=numpy.append(v, 1.), rowptr=rp, colidx=ci, ncols=nc)
        yield 'colidx-too-long', dict(values=v, rowptr=rp, colidx=numpy.append(ci, 0), ncols=nc)
        yield 'colidx-too-short', dict(values=v, rowptr=rp, colidx=ci[:-1], ncols=nc)
        yield 'rowptr-last-wrong', dict(values=v, rowptr=numpy.append(rp[:-1], rp[-1] + 1), colidx=ci, ncols=nc)
        yield 'values-2d', dict(values=v[:, None], rowptr=rp, colidx=ci, ncols=nc)
        yield 'colidx-float', dict(values=v, rowptr=rp, colidx=ci.astype(float), ncols=nc)
        yield 'rowptr-float', dict(values=v, rowptr=rp.astype(float), colidx=ci, ncols=nc)
    # rows with at least two entries: swap (unsorted) or repeat
    for i in range(nrows):
        a, b = int(rp[i]), int(rp[i + 1])
        if b - a >= 2:
            ci2 = ci.copy()
            ci2[a], ci2[a + 1] = ci[a + 1], ci[a]
            yield 'unsorted', dict(values=v, rowptr=rp, colidx=ci2, ncols=nc)
            ci3 = ci.copy()
            ci3[a + 1] = ci[a]
            yield 'repeated', dict(values=v, rowptr=rp, colidx=ci3, ncols=nc)
            break
    if nrows >= 1 and n:
        rp2 = rp.copy()
        rp2[0] = 1 if rp[1] >= 1 else 0
        if rp2[0] != 0:
            yield 'rowptr-first-nonzero', dict(values=v, rowptr=rp2, colidx=ci, ncols=nc)
    if nrows >= 2:
        for i in range(1, nrows):
            if rp[i] < rp[i + 1] or rp[i - 1] < rp[i]:
                rp3 = rp.copy()
                rp3[i] = rp[i + 1] + 1 if rp[i + 1] + 1 <= n + 5 else rp[i]
                # make non-monotone: rp3[i] > rp3[i+1]
                if rp3[i] > rp3[i + 1]:
                    yield 'rowptr-nonmonotone', dict(values=v, rowptr=rp3, colidx=ci, ncols=nc)
                break


def check_rejections(d, rng, res, viol_case):
    from nutils import matrix
    out = []
    for name, kw in mutations(d, rng):
        for b in backends():
            res.count('rejection_inputs')
            res.count('mutation/' + name)
            with matrix.backend(b):
                try:
                    M = matrix.assemble_csr(**kw)
                except (matrix.MatrixError, ValueError, IndexError, TypeError, AssertionError):
                    res.count('rejected')
                    continue
                except Exception as e:
                    res.count('rejected_other_exception')
                    res.add('other_exception_types', type(e).__name__)
                    continue
                if name in ('unsorted', 'repeated'):
                    try:
                        dense = M.export('dense').tolist()
                    except Exception as e:
                        dense = repr(e)
                else:
                    dense = 'not exported (touching a matrix built from out-of-range data can crash the backend)'
                out.append((name, b, f'ambiguous input ({name}) accepted by assemble_csr on backend {b}; dense={dense}'))
    return out


def run_case(seed, i, res):
    from vlib.runner import rng_for
    rng = rng_for(seed, 'c15', i)
    d = gen_csr(rng)
    ops = gen_ops(rng)
    case = dict(index=i, data=jsonable(d), ops=ops)
    execute(case, res, rng)
    return case


def execute(case, res, rng=None):
    d = from_jsonable(case['data'])
    ops = case['ops']
    res.count('evaluations')
    nontrivial = len(d['values']) > 0 and any(op != 'export' for op, _ in ops)
    if nontrivial:
        res.add('distinct', json.dumps([case['data']['nrows'], case['data']['ncols'], case['data']['colidx'], case['data']['rowptr'], case['data']['cplx'], [o for o, _ in ops]]))
    finals = {}
    clean = True
    for b in backends():
        res.count('backend/' + b)
        try:
            probs, M, A = run_sequence(b, d, ops, res)
        except Exception as e:
            tb = traceback.format_exc()
            # exceptions from a valid op sequence on valid data are violations unless they are the documented refusals
            res.violation('exception in matrix operation', dict(case, backend=b), tb[-1500:], mechanism=None)
            continue
        for p in probs:
            res.violation('dense-model mismatch', dict(case, backend=b), p)
            clean = False
        finals[b] = M.export('dense')
    if len(finals) == 2 and clean:
        res.count('backend_differentials')
        a, b = finals.values()
        if tolerance.compare(a, b, check_kind=False)[0] != tolerance.PASS:
            res.violation('backend differential', case, f'numpy and scipy final matrices differ: {a.tolist()} vs {b.tolist()}')
    # COO + block + helpers
    other_constructors(d, res, case)
    if rng is None:
        from vlib.runner import rng_for
        rng = rng_for(0, 'c15-replay')
    for name, b, msg in check_rejections(d, rng, res, case):
        mech = None
        res.violation('ambiguous input accepted', dict(case, mutation=name, backend=b), msg, mechanism=mech)


def other_constructors(d, res, case):
    from nutils import matrix
    A = dense_model(d)
    rowidx = numpy.repeat(numpy.arange(d['nrows']), numpy.diff(d['rowptr'].astype('int64')))
    for b in backends():
        with matrix.backend(b):
            try:
                M = matrix.assemble_coo(d['values'], rowidx, d['nrows'], d['colidx'], d['ncols'])
                for p in check_exports(M, A, res, 'assemble_coo'):
                    res.violation('dense-model mismatch', dict(case, backend=b), p)
                res.count('coo_assemblies')
                # block matrix [[A, 0], [E, A]] with an empty block and a repeated block
                v, rp, ci = d['values'], d['rowptr'].astype('int64'), d['colidx'].astype('int64')
                e = (numpy.zeros(0, dtype=v.dtype), numpy.zeros(d['nrows'] + 1, dtype=int), numpy.zeros(0, dtype=int), d['ncols'])
                blk = (v, rp, ci, d['ncols'])
                B = matrix.assemble_block_csr([[blk, e], [e, blk], [blk, blk]])
                Z = numpy.zeros_like(A)
                for p in check_exports(B, numpy.block([[A, Z], [Z, A], [A, A]]), res, 'assemble_block_csr'):
                    res.violation('dense-model mismatch', dict(case, backend=b), p)
                res.count('block_assemblies')
                n = d['nrows']
                dg = numpy.arange(1., n + 1)
                for p in check_exports(matrix.diag(dg), numpy.diag(dg), res, 'diag'):
                    res.violation('dense-model mismatch', dict(case, backend=b), p)
                for p in check_exports(matrix.eye(n), numpy.eye(n), res, 'eye'):
                    res.violation('dense-model mismatch', dict(case, backend=b), p)
                for p in check_exports(matrix.empty((d['nrows'], d['ncols'])), numpy.zeros((d['nrows'], d['ncols'])), res, 'empty'):
                    res.violation('dense-model mismatch', dict(case, backend=b), p)
            except Exception:
                res.violation('exception in constructor', dict(case, backend=b), traceback.format_exc()[-1500:])


def run_units(units, ctx):
    res = Result()
    res.add('backends', ','.join(backends()))
    for u in units:
        for i in range(u['start'], u['stop']):
            if ctx.expired():
                res.count('cases_skipped_deadline')
                continue
            case = run_case(ctx.seed, i, res)
            if i % 997 == 0:
                res.sample(case)
    return res


def replay(case):
    res = Result()
    execute(case, res)
    return res.violations


# ---- ledger reproducers (fixed entries act as regression monitors)

def _accepts(rowptr, colidx, ncols, values):
    from nutils import matrix
    outs = []
    for b in backends():
        with matrix.backend(b):
            try:
                M = matrix.assemble_csr(numpy.array(values, dtype=float), numpy.array(rowptr), numpy.array(colidx), ncols)
                outs.append(f'{b}: accepted')
            except (matrix.MatrixError, ValueError):
                pass
    return outs


def repro_repeated():
    outs = _accepts([0, 2], [1, 1], 3, [1., 2.])
    return bool(outs), 'assemble_csr(values=[1,2], rowptr=[0,2], colidx=[1,1], ncols=3): ' + ('; '.join(outs) or 'rejected')


def repro_negative():
    outs = _accepts([0, 1], [-1], 3, [1.])
    return bool(outs), 'assemble_csr(values=[1], rowptr=[0,1], colidx=[-1], ncols=3): ' + ('; '.join(outs) or 'rejected')


def repro_zero_rows():
    from nutils import matrix
    outs = []
    for b in backends():
        with matrix.backend(b):
            try:
                M = matrix.empty((0, 3))
                assert M.export('dense').shape == (0, 3)
            except Exception as e:
                outs.append(f'{b}: matrix.empty((0,3)) raised {type(e).__name__}: {e}')
    return bool(outs), '; '.join(outs) or '0x3 matrix assembled in every backend'


def repro_mixed_backend_add():
    from nutils import matrix
    if 'scipy' not in backends():
        return None, 'scipy unavailable'
    with matrix.backend('numpy'):
        N = matrix.diag(numpy.array([1., 2.]))
    with matrix.backend('scipy'):
        S = matrix.diag(numpy.array([3., 4.]))
        try:
            R = (S + N).export('dense')
        except Exception as e:
            return True, f'scipy_matrix + numpy_matrix raised {type(e).__name__}: {e}'
    ok = (R == numpy.diag([4., 6.])).all()
    return (not ok), f'scipy_matrix + numpy_matrix = {R.tolist()}'


REPRODUCERS = {'C15-repeated-column-accepted': repro_repeated, 'C15-negative-column-accepted': repro_negative,
               'C15-numpy-zero-rows': repro_zero_rows, 'C15-scipy-convert-typeerror': repro_mixed_backend_add}


def finalize(m, tier, seed):
    c = m.counters
    cov = dict(evaluations=c.get('evaluations', 0), distinct_nontrivial=len(m.sets.get('distinct', ())), rule=RULE, samples=m.samples[:3],
               backends=sorted(m.sets.get('backends', ())), not_covered=['MKL backend (not installable offline)'],
               exports_checked=c.get('exports', 0), rejection_inputs=c.get('rejection_inputs', 0), rejected=c.get('rejected', 0),
               rejected_other_exception=c.get('rejected_other_exception', 0), other_exception_types=sorted(m.sets.get('other_exception_types', ())),
               ops={k[4:]: v for k, v in c.items() if k.startswith('ops/')}, mutations={k[9:]: v for k, v in c.items() if k.startswith('mutation/')},
               backend_differentials=c.get('backend_differentials', 0), coo_assemblies=c.get('coo_assemblies', 0), block_assemblies=c.get('block_assemblies', 0),
               cases_skipped_deadline=c.get('cases_skipped_deadline', 0),
               nonsquare_diagonal=dict(answered=c.get('nonsquare_diagonal_answered', 0), refused=c.get('nonsquare_diagonal_refused', 0)))
    inc = None
    if cov['evaluations'] < 0.5 * NCASES[tier]:
        inc = f"only {cov['evaluations']} of {NCASES[tier]} cases ran before the deadline"
    elif 'numpy,scipy' not in cov['backends']:
        inc = 'scipy backend unavailable: backend differential not exercised'
    elif cov['rejection_inputs'] < 100 or len(cov['mutations']) < 10:
        inc = 'rejection monitor barely reached'
    elif len(cov['ops']) < len(OPS):
        inc = 'not all operation kinds exercised'
    return dict(coverage=cov, inconclusive=inc)
