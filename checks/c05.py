"""C05 — Sparse extraction denotes exactly the dense array.

Contract monitor on the tuples returned by the real `expr.simplified.assparse`,
`evaluable.as_csr`, `function.as_coo/as_csr`: structural predicates (indices in
range, strictly lexicographic order, CSR pointer monotone / ends / strictly
increasing columns per row, dtype, 0-d form) + scatter of the listed values
into zeros must reproduce the shadow dense value (G-ev programs) or the dense
evaluation (FEM integrals).  The un-merged chunk form `_assparse` is checked
as an additional oracle (additive scatter of all chunks = dense).
"""

import traceback, warnings
import numpy
from vlib.runner import Result, rng_for, scaled
from vlib import tolerance, evgen, evmon

PROPERTY = 'C05'
LEVEL = 'exploration'
RULE = ('G-ev programs with a sparsity profile (nested Inflate with composed/duplicated dofmaps, Diagonalize, products of scattered '
        'terms, Ravel/Unravel of inflated axes, loop sums with element-dependent block sizes, empty axes, 0-d, bool/int/float/complex) '
        'plus FEM integrals on small meshes through function.as_coo/as_csr; non-trivial = the sparse form has fewer stored entries than '
        'the dense size or >=3 inner nodes; distinct = operator skeleton')
ASSUMPTIONS = ['shadow numpy interpreter is the dense reference for G-ev programs; dense evaluation by nutils for FEM integrals',
               'programs whose simplification does not terminate are C01 events and are skipped (counted)']
BUDGET_S = {'quick': 110, 'thorough': 1500}
NCASES = {'quick': 2400, 'thorough': 70000}
CHUNK = 40


def plan(tier, seed):
    n = scaled(NCASES[tier])
    units = [dict(kind='gev', start=i, stop=min(n, i + CHUNK)) for i in range(0, n, CHUNK)]
    nf = scaled(120 if tier == 'quick' else 3000)
    units += [dict(kind='fem', start=i, stop=min(nf, i + 6)) for i in range(0, nf, 6)]
    return units


def setup():
    import treelog
    treelog.set(treelog.NullLog()).__enter__()
    evmon.install_step_counter()
    evmon.install_rule_counters()
    warnings.simplefilter('ignore')


def check_coo(values, indices, shape, kind, dense, scale, res):
    """Contract on a COO tuple.  Returns problem string or None."""
    values = numpy.asarray(values)
    if values.ndim != 1:
        return f'values has ndim {values.ndim}'
    if len(indices) != len(shape):
        return f'{len(indices)} index arrays for {len(shape)} axes'
    k = {'b': 'b', 'i': 'i', 'u': 'i', 'f': 'f', 'c': 'c'}.get(values.dtype.kind)
    if k != kind:
        return f'values dtype {values.dtype} but expression kind {kind}'
    if not shape:
        if len(values) != 1:
            return f'0-d expression listed as {len(values)} values'
        v, det = tolerance.compare(values[0], dense, scale)
        return None if v != tolerance.VIOLATION else 'scalar value: ' + det
    for i, (idx, n) in enumerate(zip(indices, shape)):
        idx = numpy.asarray(idx)
        if idx.shape != values.shape:
            return f'index {i} has shape {idx.shape}, values {values.shape}'
        if idx.dtype.kind not in 'iu':
            return f'index {i} has dtype {idx.dtype}'
        if idx.size and (idx.min() < 0 or idx.max() >= n):
            return f'index {i} out of range [0,{n}): min {idx.min()} max {idx.max()}'
    res.count('coo_entries', len(values))
    if len(values) > 1:
        flat = numpy.ravel_multi_index(tuple(numpy.asarray(i) for i in indices), shape)
        if not (numpy.diff(flat) > 0).all():
            return 'index tuples are not strictly lexicographically increasing (unsorted or repeated)'
    out = numpy.zeros(shape, dtype=values.dtype if kind != 'b' else int)
    numpy.add.at(out, tuple(numpy.asarray(i) for i in indices), values if kind != 'b' else values.astype(int))
    if kind == 'b':
        out = out > 0
    v, det = tolerance.compare(out, dense, scale)
    if v == tolerance.VIOLATION:
        return 'scatter of the listed values differs from the dense array: ' + det
    return None


def check_csr(values, rowptr, colidx, ncols, dense, scale, res):
    values, rowptr, colidx = map(numpy.asarray, (values, rowptr, colidx))
    nrows = dense.shape[0]
    if rowptr.ndim != 1 or len(rowptr) != nrows + 1:
        return f'rowptr has length {len(rowptr)} for {nrows} rows'
    if rowptr[0] != 0 or rowptr[-1] != len(values) or (numpy.diff(rowptr) < 0).any():
        return f'rowptr not monotone from 0 to nnz: {rowptr.tolist()} nnz={len(values)}'
    if len(colidx) != len(values):
        return 'colidx length differs from values'
    if int(ncols) != dense.shape[1]:
        return f'ncols {int(ncols)} != {dense.shape[1]}'
    out = numpy.zeros(dense.shape, dtype=values.dtype)
    for i in range(nrows):
        cols = colidx[rowptr[i]:rowptr[i + 1]]
        if len(cols) and (cols.min() < 0 or cols.max() >= dense.shape[1]):
            return f'row {i}: column out of range'
        if len(cols) > 1 and (numpy.diff(cols) <= 0).any():
            return f'row {i}: columns not strictly increasing: {cols.tolist()}'
        out[i, cols] = values[rowptr[i]:rowptr[i + 1]]
    v, det = tolerance.compare(out, dense, scale, check_kind=False)
    if v == tolerance.VIOLATION:
        return 'CSR data denotes a different matrix: ' + det
    return None


def check_case(case, seed_key, res, tier):
    from nutils import evaluable as ev, matrix
    res.count('evaluations')
    evmon.reset_steps()
    try:
        with evmon.wall(30):
            built, outs = evgen.build(case)
            simp = tuple(o.simplified for o in outs)
            sparse = [s.assparse for s in simp]
            chunks = [s._assparse for s in simp]
    except (AssertionError, ValueError, TypeError, IndexError) as e:
        tb = traceback.format_exc()
        if 'verify_sparse_chunks' in tb or '_assparse' in tb:
            res.violation('constructing the sparse form raised', dict(case=case, desc=evgen.describe(case)), tb[-800:])
        else:
            res.count('rejected_constructions')
        return
    except (evmon.StepBudget, evmon.WallNominate, RecursionError, Exception):
        res.count('skipped_c01_event')
        return
    rng = rng_for(*seed_key, 'args')
    r = evgen.in_domain_args(case, rng)
    if r is None:
        res.count('out_of_domain')
        return
    av, ref, scale = r
    for s_ in simp:
        stack, seen = [s_], set()
        while stack and len(seen) < 200:
            x = stack.pop()
            if id(x) in seen or not isinstance(x, ev.Evaluable):
                continue
            seen.add(id(x))
            res.add('classes', type(x).__name__)
            stack.extend(x.dependencies)
    nontrivial = evgen.ninner(case) >= 3
    for j, (o, (values, indices, shape), chk, dense) in enumerate(zip(outs, sparse, chunks, ref)):
        kind = case['nodes'][case['outputs'][j]]['kind']
        for cfgname, simplify, optimize in (('default', True, True), ('raw', False, False)):
            if cfgname == 'raw' and seed_key[-1] % 3:
                continue
            try:
                with evmon.wall(60):
                    got = evmon.evaluate((values, tuple(indices)), av, simplify=simplify, optimize=optimize)
            except evmon.WallNominate:
                res.count('inconclusive_wall')
                continue
            except RecursionError:
                # resource limit, not a verdict: the sparse form of an array with > ~100 chunks (e.g. the square of an 11-piece
                # concatenation) is a left-deep sum whose depth exceeds Python's recursion limit in Evaluable.arguments
                res.count('recursion_limit')
                continue
            except Exception as e:
                res.violation('evaluating the sparse form raised', pack(case, av), f'output {j} ({cfgname}): {type(e).__name__}: {str(e)[:300]}\n' + traceback.format_exc()[-600:])
                return
            v, idx = got
            res.count('coo_checked')
            p = check_coo(v, idx, dense.shape, kind, dense, scale, res)
            if p:
                res.violation('COO data does not denote the dense array', pack(case, av), f'output {j} ({cfgname}): {p}')
                return
            if dense.size and len(v) < dense.size:
                res.count('coo_truly_sparse')
                nontrivial = True
        # chunk form (additive)
        try:
            with evmon.wall(60):
                cg = evmon.evaluate(tuple(tuple(c) for c in chk), av, simplify=True, optimize=True)
            out = numpy.zeros(dense.shape, dtype=complex if kind == 'c' else float if kind == 'f' else int)
            bad = None
            for c in cg:
                *ci, cv = [numpy.asarray(x) for x in c]
                if any(x.shape != cv.shape for x in ci):
                    bad = 'chunk index shape differs from values shape'
                    break
                if len(ci) != dense.ndim:
                    bad = 'chunk has wrong number of index arrays'
                    break
                for x, n in zip(ci, dense.shape):
                    if x.size and (x.min() < 0 or x.max() >= n):
                        bad = 'chunk index out of range'
                if bad:
                    break
                if dense.ndim:
                    numpy.add.at(out, tuple(x.ravel() for x in ci), cv.ravel().astype(out.dtype))
                else:
                    out = out + cv.astype(out.dtype)
            res.count('chunks_checked', len(cg))
            if not bad:
                cmpd = dense if kind != 'b' else None
                if kind == 'b':
                    if ((out > 0) != dense).any():
                        bad = 'chunks (or-accumulated) differ from the dense array'
                elif tolerance.compare(out.astype(dense.dtype), dense, scale)[0] == tolerance.VIOLATION:
                    bad = 'additive scatter of chunks differs from the dense array'
            if bad:
                res.violation('sparse chunks do not denote the dense array', pack(case, av), f'output {j}: {bad}')
                return
        except evmon.WallNominate:
            res.count('inconclusive_wall')
        except RecursionError:
            res.count('recursion_limit')
        except Exception as e:
            res.violation('evaluating sparse chunks raised', pack(case, av), f'output {j}: {type(e).__name__}: {str(e)[:300]}')
            return
        # CSR
        if dense.ndim == 2 and kind in 'fci':
            try:
                with evmon.wall(60):
                    csr = ev.as_csr(o)
                    cv, rp, ci, nc = evmon.evaluate(tuple(csr), av, simplify=True, optimize=True)
            except evmon.WallNominate:
                res.count('inconclusive_wall')
                continue
            except RecursionError:
                res.count('recursion_limit')
                continue
            except Exception as e:
                res.violation('as_csr raised', pack(case, av), f'output {j}: {type(e).__name__}: {str(e)[:300]}')
                return
            res.count('csr_checked')
            p = check_csr(cv, rp, ci, nc, dense, scale, res)
            if p:
                res.violation('CSR data does not denote the dense array', pack(case, av), f'output {j}: {p}')
                return
            if kind in 'fc':
                try:
                    M = matrix.assemble_csr(cv, rp, ci, int(nc))
                    if tolerance.compare(M.export('dense'), dense, scale, check_kind=False)[0] == tolerance.VIOLATION:
                        res.violation('matrix assembled from as_csr differs from the dense array', pack(case, av), f'output {j}')
                        return
                    res.count('csr_assembled')
                except matrix.MatrixError as e:
                    res.violation('assemble_csr rejects the data produced by as_csr', pack(case, av), f'output {j}: {e}')
                    return
    if nontrivial:
        res.add('distinct', evgen.skeleton(case))


def pack(case, av):
    return dict(case=case, args={k: evgen.encode(v) for k, v in av.items()}, desc=evgen.describe(case))


# ---- FEM integrals through the function-level API

def fem_case(seed, i, res):
    from nutils import mesh, function
    rng = rng_for(seed, 'c05fem', i)
    kind = str(rng.choice(['rect1', 'rect2', 'tri', 'mixed', 'hier', 'rect3']))
    n = int(rng.integers(1, 4))
    if kind == 'rect1':
        topo, geom = mesh.rectilinear([n + 1])
    elif kind == 'rect2':
        topo, geom = mesh.rectilinear([n, int(rng.integers(1, 3))])
    elif kind == 'rect3':
        topo, geom = mesh.rectilinear([1, 2, 1])
    elif kind == 'tri':
        topo, geom = mesh.unitsquare(n, 'triangle')
    elif kind == 'mixed':
        topo, geom = mesh.unitsquare(max(2, n), 'mixed')
    else:
        topo, geom = mesh.rectilinear([2, 2])
        topo = topo.refined_by([int(rng.integers(0, 4))])
    btype = str(rng.choice(['std', 'discont', 'spline'] if kind.startswith('rect') else ['h-std'] if kind == 'hier' else ['std', 'discont']))
    degree = int(rng.integers(1, 3))
    basis = topo.basis(btype, degree=degree)
    J = function.J(geom)
    which = str(rng.choice(['mass', 'stiff', 'vec', 'bnd', 'scalar', 'arg']))
    args = {}
    if which == 'mass':
        f = topo.integral(basis[:, None] * basis[None, :] * J, degree=2 * degree)
    elif which == 'stiff':
        g = function.grad(basis, geom)
        f = topo.integral((g[:, None, :] * g[None, :, :]).sum(-1) * J, degree=2 * degree)
    elif which == 'vec':
        f = topo.integral(basis * geom[0] * J, degree=2 * degree)
    elif which == 'bnd':
        f = topo.boundary.integral(basis[:, None] * basis[None, :] * J, degree=2 * degree)
    elif which == 'scalar':
        f = topo.integral(geom[0] * J, degree=2)
    else:
        u = function.Argument('u', (len(basis),))
        args['u'] = rng.normal(size=len(basis))
        f = topo.integral(basis[:, None] * basis[None, :] * (basis @ u) * J, degree=3 * degree)
    res.count('fem/' + kind + '/' + which)
    case = dict(kind=kind, n=n, btype=btype, degree=degree, which=which, index=i)
    dense = function.eval(f, arguments=args)
    coo = function.eval(function.as_coo(f), arguments=args)
    values, *indices = coo
    p = check_coo(values, indices, dense.shape, 'f', dense, max(1., float(abs(dense).max()) if dense.size else 1.), res)
    res.count('fem_coo_checked')
    if p:
        res.violation('function.as_coo does not denote the dense array', case, p)
        return case
    if dense.ndim == 2:
        v, rp, ci = function.eval(function.as_csr(f), arguments=args)
        p = check_csr(v, rp, ci, dense.shape[1], dense, max(1., float(abs(dense).max())), res)
        res.count('fem_csr_checked')
        if p:
            res.violation('function.as_csr does not denote the dense array', case, p)
        if len(values) < dense.size:
            res.count('fem_truly_sparse')
    res.add('distinct', f'fem:{kind}:{n}:{btype}:{degree}:{which}')
    return case


def gen_case(seed, i):
    rng = rng_for(seed, 'c05', i)
    return evgen.generate(rng, size=int(rng.integers(4, 22)), profile=str(rng.choice(['all', 'float', 'sparse', 'sparse'])))


def run_units(units, ctx):
    evgen.self_test()
    setup()
    res = Result()
    for u in units:
        for i in range(u['start'], u['stop']):
            if ctx.expired():
                res.count('skipped_deadline')
                continue
            if u['kind'] == 'gev':
                case = gen_case(ctx.seed, i)
                check_case(case, (ctx.seed, 'c05', i), res, ctx.tier)
                if i % 599 == 0:
                    res.sample(dict(index=i, desc=evgen.describe(case)))
            else:
                try:
                    case = fem_case(ctx.seed, i, res)
                    if i % 40 == 0:
                        res.sample(case, cap=4)
                except Exception as e:
                    res.count('fem_construction_failed')
                    res.note(f'fem case {i}: {type(e).__name__}: {str(e)[:200]}')
    return res


def replay(case):
    evgen.self_test()
    setup()
    res = Result()
    if 'case' in case:
        check_case(case['case'], (0, 'replay', 0), res, 'thorough')
    elif 'which' in case:
        fem_case(0, case['index'], res)
    return res.violations


REPRODUCERS = {}


def finalize(m, tier, seed):
    c = m.counters
    cov = dict(evaluations=c.get('evaluations', 0) + c.get('fem_coo_checked', 0), distinct_nontrivial=len(m.sets.get('distinct', ())), rule=RULE, samples=m.samples[:5],
               coo_checked=c.get('coo_checked', 0), coo_truly_sparse=c.get('coo_truly_sparse', 0), coo_entries=c.get('coo_entries', 0),
               chunks_checked=c.get('chunks_checked', 0), csr_checked=c.get('csr_checked', 0), csr_assembled=c.get('csr_assembled', 0),
               fem=dict(coo=c.get('fem_coo_checked', 0), csr=c.get('fem_csr_checked', 0), truly_sparse=c.get('fem_truly_sparse', 0), construction_failed=c.get('fem_construction_failed', 0),
                        kinds={k[4:]: v for k, v in c.items() if k.startswith('fem/')}),
               node_classes_in_sparse_programs=sorted(m.sets.get('classes', ()))[:80],
               skipped_c01_event=c.get('skipped_c01_event', 0), out_of_domain=c.get('out_of_domain', 0), rejected_constructions=c.get('rejected_constructions', 0),
               inconclusive_wall=c.get('inconclusive_wall', 0), recursion_limit=c.get('recursion_limit', 0), skipped_deadline=c.get('skipped_deadline', 0))
    inc = None
    if c.get('evaluations', 0) < 0.5 * scaled(NCASES[tier]):
        inc = f"only {c.get('evaluations', 0)} programs ran before the deadline"
    elif cov['coo_truly_sparse'] < 50 or cov['csr_checked'] < 50:
        inc = 'too few truly sparse / CSR cases'
    elif cov['fem']['coo'] < 20:
        inc = 'too few FEM integrals'
    return dict(coverage=cov, inconclusive=inc)
