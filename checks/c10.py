"""C10 -- Topology operations conserve the domain.

Monitor shape: conservation ledgers and closure identities evaluated on the real nutils
objects after EVERY step of a random operation history (vlib.topogen), so intermediates are
checked as well as results:

(a) refinement      : children's measures (and first moments) sum to the parent's, element by element
                      (parent found with transforms.index_with_tail); total volume conserved
(b) trim            : vol(pos) + vol(base - pos) == vol(base) element by element, and independently
                      vol(trim(ls)) + vol(trim(-ls)) == vol(base) with the same maxrefine/ndivisions;
                      the two 'trimmed' boundary groups carry the same measure and first moment and
                      opposite  int n dS  and  int x (x) n dS ;  pos | neg restores the base
(c) boundary closure: int_{dT} n dS == 0   and   int_{dT} x.n dS - int_{interfaces} [[x]].n dS == dim * vol
                      (the interface term vanishes unless the mesh is periodic)
(d) interfaces      : transform and opposite of every interface resolve (index_with_tail) to two
                      DIFFERENT elements of the topology; [[x]] == 0 (periodic: 0 or +-period);
                      face-measure ledger  sum_e |de| == |dT| + 2 |interfaces| ; for conforming meshes the
                      connectivity table is symmetric, lists the same element pairs as the interfaces and
                      pairs faces with coinciding centroids
(e) selections      : take/compress/slice/group/subset/minus/union/intersection: the elements of the result
                      are exactly the elements of the index-set model (found with transforms.index), with
                      equal measure and first moment each: nothing lost, duplicated or overlapping.
(f) element closure : every element is closed by its own edges: int_{de} n dS == 0 and int_{de} x.n dS == dim * vol(e)
                      (for trimmed elements: the simplices of the mosaic fill the hull formed by its edges); together with
                      the ledgers this splits (c) into "elements are sound" and "boundary + interfaces are assembled soundly".

Exceptions are never verdicts: documented refusals (NotImplementedError, ValueError, KeyError, NotImplemented) and the
AttributeErrors nutils raises for unsupported combinations (refining a Mosaic element, topologies without a connectivity table)
are counted per signature; anything else raised inside a monitor is counted as monitor_error and makes the run inconclusive
above 2 % of the histories.  Open ledger entries are matched by exact-accounting predicates (known_mechanism, known_retrim).
"""

import json, time, traceback
import numpy
from vlib.runner import Result, rng_for
from vlib import tolerance, topogen

PROPERTY = 'C10'
LEVEL = 'exploration'
RULE = ('random histories from vlib.topogen: base mesh (line, rectilinear incl. periodic and non-uniform, tensor product of lines, '
        'unitsquare square/triangle/mixed/multipatch, perturbed Kuhn simplex meshes 2-D/3-D, multipatch 2-D/3-D) under an affine or '
        'quadratic geometry map, followed by 1-6 operations out of refine, refined_by(random subset, preferring cut elements), '
        'take/compress/getitem, slice, group, subset, minus, union, intersection, hierarchical intersection, product with a line, '
        'trim(plane/sphere/product/quadric level set through vertices, sub-vertices, nearly tangent, missing; maxrefine 0-3), boundary, '
        'interfaces; 3-D sampled sparsely. All monitors run after every applied step. non-trivial = at least one operation applied and at '
        'least two monitor evaluations on a derived topology; distinct = hash of the JSON history.')
ASSUMPTIONS = ['Gauss quadrature of the degree chosen per geometry (2 affine map, 4 bilinear multipatch or quadratic map) is exact for J, n J, x.n J and x J; '
               'scalar surface measures under the quadratic map (not polynomial) are taken in the root geometry',
               'transforms.index / index_with_tail are used to map elements of a derived topology to their ancestors (C11 checks those)',
               'overlap/duplication is decided by the element index model plus per-element measure and first moment instead of a probe grid',
               'exceptions raised by nutils while applying an operation (NotImplementedError, ValueError, KeyError, TypeError for NotImplemented, '
               'and AttributeError for trimmed (Mosaic) elements that cannot be refined / topologies without a connectivity table) are refusals: counted, never violations',
               'envelope: periodic axes have >= 3 elements (with 1 element nutils omits the self-interface in trimmed topologies, with 2 its interfaces '
               'raise "repeating an element is not allowed"); ndivisions in {4, 8, 16}; level sets never vanish identically on an element edge/face '
               'inside which they change sign (then trim(f) and trim(-f) both keep the zero edge: the trim(-f) comparison is skipped and counted)',
               'trimmed-boundary groups are compared piece by piece; unmatched pieces that belong to an element with a degenerate (zero/full volume) mosaic, '
               'which Reference.slice documents, are counted as slivers, any other unmatched piece is a violation',
               '1-D simplex meshes (mesh.simplex with line elements) are not generated: SimplexTopology.boundary asserts "duplicate nodes" for them']
import os
# C10_NCASES / C10_BUDGET: development overrides only (planted-break runs on a loaded machine)
NCASES = {'quick': int(os.environ.get('C10_NCASES', 500)), 'thorough': int(os.environ.get('C10_NCASES', 5000))}
MINCASES = {'quick': 300, 'thorough': 2000}   # below this many histories the run is inconclusive (deadline hit on a loaded machine)
BUDGET_S = {'quick': int(os.environ.get('C10_BUDGET', 100)), 'thorough': int(os.environ.get('C10_BUDGET', 1500))}
CHUNK = 10
EVERY3D = {'quick': 10, 'thorough': 5}
KNOWN_FIXED1 = 'C10-refined-trimmed-simplex-boundary'   # fixed in /repo (Updim.swapdown accepts SimplexChild): regression reproducer only
KNOWN = 'C10-refined-trimmed-childface-boundary'   # fixed in /repo (63900a9): regression reproducer only, nothing is suppressed under it
KNOWN2 = 'C10-retrimmed-3d-mosaic-inconsistent'
KNOWN3 = 'C10-degenerate-mosaic-child-not-closed'

# AttributeErrors that are nutils' way of saying "not supported" on the pinned tree
UNSUPPORTED = ("'MosaicReference' object has no attribute", "'OwnChildReference' object has no attribute", "'WithChildrenReference' object has no attribute",
               "'EmptyLike' object has no attribute", "object has no attribute 'connectivity'", "object has no attribute 'transforms'",
               "object has no attribute 'space'", 'unsupported ischeme for EmptyLike',
               'duplicate nodes')   # last one: SimplexTopology.boundary of a 1-D simplex topology (boundary of a boundary) asserts


def plan(tier, seed):
    from vlib.runner import scaled
    n = scaled(NCASES[tier])   # VERIF_SCALE: development aid only
    return [dict(start=i, stop=min(n, i + CHUNK)) for i in range(0, n, CHUNK)]


def gen_case(seed, i, tier):
    rng = rng_for(seed, 'c10', i)
    ndims = 3 if i % EVERY3D[tier] == EVERY3D[tier] - 1 else None
    return topogen.gen_history(rng, tier, ndims=ndims)


# ------------------------------------------------------------------ measurements

class Unavailable(Exception):
    pass


def unsupported(e):
    return topogen.is_refusal(e) or (type(e) in (AttributeError, Exception, AssertionError) and any(s in str(e) for s in UNSUPPORTED))


def monitor_refusal(e):
    """What a successfully constructed topology may answer when asked for its boundary / interfaces / integrals."""
    if isinstance(e, NotImplementedError):
        return True
    if type(e) in (AttributeError, Exception) and any(s in str(e) for s in UNSUPPORTED):
        return True
    if isinstance(e, ValueError) and ('0D topology' in str(e) or 'Cannot unambiguously compute the normal' in str(e)):
        return True
    return False


class Bench:
    """Cache of integrals per (topology, geometry) within one history."""

    def __init__(self, history, res):
        self.deg = topogen.gauss_degree(history)
        self.res = res
        self.cache = {}
        self.pin = []
        self.periodic = bool(history['mesh'].get('periodic')) or any(op.get('op') == 'mul' and op.get('periodic') for op in history['ops'])
        self.xmax = 1.
        self.quad = history['geom']['kind'] == 'quad'
        # period of every root-geometry coordinate (0 = not periodic); a mul operation appends a coordinate
        ticks = topogen.mesh_ticks(history['mesh'])
        per = history['mesh'].get('periodic')
        axes = ([0] if per is True else list(per or [])) if history['mesh']['kind'] in ('line', 'rect', 'tensor') else []
        self.periods = [float(t[-1] - t[0]) if k in axes else 0. for k, t in enumerate(ticks)]
        self.periods += [float(op['n']) if op.get('periodic') else 0. for op in history['ops'] if op.get('op') == 'mul']

    def _get(self, what, topo, geom, fn):
        key = (what, id(topo), id(geom))
        if key not in self.cache:
            self.pin.append((topo, geom))
            try:
                self.cache[key] = fn()
            except Exception as e:
                manifold = getattr(topo, 'ndims', 0) < geom.shape[0]
                if not (monitor_refusal(e) or (manifold and unsupported(e))):
                    raise
                self.res.count('unavailable/' + what)
                self.res.add('unavailable_signatures', what + ': ' + topogen.signature(e))
                self.cache[key] = None
        return self.cache[key]

    def vol(self, topo, geom):
        from nutils import function

        def fn():
            J = function.J(geom)
            self.res.count('integrals')
            try:
                ve, me = topo.integrate_elementwise([J, geom * J], degree=self.deg)
                return dict(vol=float(ve.sum()), mom=me.sum(0), vol_e=numpy.asarray(ve), mom_e=numpy.asarray(me))
            except NotImplementedError:
                v, m = topo.integrate([J, geom * J], degree=self.deg)
                return dict(vol=float(v), mom=numpy.asarray(m), vol_e=None, mom_e=None)
        return self._get('vol', topo, geom, fn)

    def bnd(self, topo, geom, geom0):
        from nutils import function

        def fn():
            B = topo.boundary
            J = function.J(geom)
            Js = function.J(geom0) if self.quad else J   # scalar surface measure: not polynomial under the quadratic map
            D = geom.shape[0]
            self.res.count('integrals')
            if len(B) == 0:
                return dict(n=0, area=0., z=numpy.zeros(D), flux=0., full=topo.ndims == D, topo=B)
            if topo.ndims == D:
                n = function.normal(geom)
                z, flux, area = B.integrate([n * J, (geom @ n) * J, Js], degree=self.deg)
                return dict(n=len(B), area=float(area), z=numpy.asarray(z), flux=float(flux), full=True, topo=B)
            area = B.integrate(Js, degree=self.deg)
            return dict(n=len(B), area=float(area), full=False, topo=B)
        return self._get('bnd', topo, geom, fn)

    def itf(self, topo, geom, geom0):
        from nutils import function

        def fn():
            I = topo.interfaces
            J = function.J(geom)
            Js = function.J(geom0) if self.quad else J
            D = geom.shape[0]
            self.res.count('integrals')
            out = dict(n=len(I), topo=I, area=0., jump2=0., jumpn=0., jumps=numpy.zeros((0, D)))
            if len(I) == 0:
                return out
            jx = function.jump(geom)
            if topo.ndims == D:
                n = function.normal(geom)
                j2, area, jn = I.integrate([(jx @ jx) * J, Js, (jx @ n) * J], degree=self.deg)
                out.update(jumpn=float(jn))
            else:
                j2, area = I.integrate([(jx @ jx) * J, Js], degree=self.deg)
            out.update(area=float(area), jump2=float(j2))
            if self.periodic:
                out['jumps'] = I.sample('gauss', 1).eval(function.jump(geom0))
            return out
        return self._get('itf', topo, geom, fn)

    def edges(self, topo, geom, geom0):
        """per element: measure, int n dS and int x.n dS over the element's own boundary (all non-empty edges of its reference)."""
        from nutils import function, topology, types

        def fn():
            refs = topo.references.edges
            sel = types.frozenarray([i for i, r in enumerate(refs) if r], dtype=int)
            tr = topo.transforms.edges(topo.references)[sel]
            if topo.ndims == 1:
                # side observation (not C10): on the pinned tree function.normal over 0-D UniformDerivedTransforms.edges() of a uniform 1-D
                # topology evaluates to +1 at both ends of every element; the same chains as PlainTransforms give the outward +-1
                from nutils import transformseq, transform
                tr = transformseq.PlainTransforms(tuple(transform.canonical(t) for t in tr), tr.todims, tr.fromdims)
            E = topology.TransformChainsTopology(topo.space, refs.take(sel), tr, tr)
            D = geom.shape[0]
            full = topo.ndims == D
            n = len(topo)
            offsets = numpy.cumsum([0] + [r.nedges for r in topo.references])
            owner = numpy.searchsorted(offsets, numpy.asarray(sel), side='right') - 1
            out = dict(topo=E, sel=numpy.asarray(sel), owner=owner, full=full, m_el=numpy.zeros(n), z_el=numpy.zeros((n, D)), f_el=numpy.zeros(n))
            if len(E):
                self.res.count('integrals')
                J = function.J(geom)
                Js = function.J(geom0) if self.quad else J
                if full:
                    nrm = function.normal(geom)
                    m, z, f = E.integrate_elementwise([Js, nrm * J, (geom @ nrm) * J], degree=self.deg)
                    numpy.add.at(out['z_el'], owner, z)
                    numpy.add.at(out['f_el'], owner, f)
                else:
                    m = E.integrate_elementwise(Js, degree=self.deg)
                numpy.add.at(out['m_el'], owner, m)
                out['m_edge'] = numpy.asarray(m)
            out['total'] = float(out['m_el'].sum())
            return out
        return self._get('edges', topo, geom, fn)


def parents(prev, new, exact):
    """index in prev of (the ancestor of) every element of new; raises Unavailable / ValueError."""
    try:
        pt, nt = prev.transforms, new.transforms
    except (AttributeError, NotImplementedError) as e:
        raise Unavailable(str(e))
    if exact:
        return numpy.array([pt.index(t) for t in nt], dtype=int), None
    out, tails = [], []
    for t in nt:
        i, tail = pt.index_with_tail(t)
        out.append(i)
        tails.append(len(tail))
    return numpy.array(out, dtype=int), numpy.array(tails, dtype=int)


# ------------------------------------------------------------------ monitors

class Monitors:

    def __init__(self, history, res):
        self.h = history
        self.res = res
        self.bench = Bench(history, res)
        self.problems = []   # (monitor, detail)
        self.marginal = 0

    # -- comparison helpers
    def cmp(self, monitor, what, obs, ref, scale):
        v, det = tolerance.compare(numpy.asarray(obs, dtype=float), numpy.asarray(ref, dtype=float), scale=scale, check_kind=False)
        self.res.count('comparisons')
        if v == tolerance.MARGINAL:
            self.res.count('marginal')
            self.res.note(f'marginal {monitor} {what}: {det}')
        elif v == tolerance.VIOLATION:
            self.problems.append((monitor, f'{what}: observed {numpy.asarray(obs).tolist()!r:.300} expected {numpy.asarray(ref).tolist()!r:.300} ({det})'))
        return v == tolerance.PASS

    def fail(self, monitor, detail):
        self.problems.append((monitor, detail))

    def scale(self, *vals):
        return max([1.] + [abs(float(v)) for v in vals]) * max(1., self.bench.xmax)

    # -- (a)
    def refinement(self, step):
        prev, new, geom = step.prev, step.topo, self.mgeom(step)
        vp, vn = self.bench.vol(prev, geom), self.bench.vol(new, geom)
        if vp is None or vn is None:
            return
        self.res.count('monitor/refine_total')
        s = self.scale(vp['vol'])
        self.cmp('refinement conserves volume', f'vol after {step.op["op"]}', vn['vol'], vp['vol'], s)
        self.cmp('refinement conserves volume', f'first moment after {step.op["op"]}', vn['mom'], vp['mom'], s)
        if vp['vol_e'] is None or vn['vol_e'] is None:
            return
        try:
            par, tails = parents(prev, new, exact=False)
        except Unavailable:
            self.res.count('unavailable/parents')
            return
        except ValueError as e:
            self.fail('refinement conserves elements', f'an element of the refined topology has no ancestor in the unrefined one: {e}')
            return
        self.res.count('monitor/refine_elementwise')
        self.res.count('elements_refined', int((tails > 0).sum()))
        acc = numpy.bincount(par, weights=vn['vol_e'], minlength=len(prev))
        self.cmp('refinement conserves elements', 'children measures summed per parent', acc, vp['vol_e'], s)
        accm = numpy.stack([numpy.bincount(par, weights=vn['mom_e'][:, k], minlength=len(prev)) for k in range(vn['mom_e'].shape[1])], 1)
        self.cmp('refinement conserves elements', 'children first moments summed per parent', accm, vp['mom_e'], s)
        want = step.info.get('indices')
        if step.op['op'] == 'refined_by' and want is not None:
            refined = numpy.unique(par[tails > 0])
            # elements whose reference has only empty children cannot show up; all others must be exactly the requested ones
            if not set(refined.tolist()) <= set(int(i) for i in want):
                self.fail('refinement conserves elements', f'refined_by({list(map(int, want))}) refined other elements: {refined.tolist()}')
        if step.op['op'] == 'hinter':
            want = set(map(int, step.info['ia'])) | set(map(int, step.info['ib']))
            refined = set(numpy.unique(par[tails > 0]).tolist())
            if not refined <= want:
                self.fail('refinement conserves elements', f'intersection of refined_by({sorted(want)}) topologies refined other elements: {sorted(refined)}')

    # -- (e)
    def selection(self, step):
        op = step.op['op']
        prev, geom, info = step.prev, self.mgeom(step), step.info
        new = info.get('result', step.topo)
        n = len(prev)
        expected = None
        if op in ('take', 'subset'):
            expected = numpy.asarray(info['indices'])
        elif op == 'minus':
            expected = numpy.setdiff1d(numpy.arange(n), info['indices'])
        elif op == 'union':
            expected = numpy.union1d(info['ia'], info['ib'])
        elif op == 'inter':
            expected = numpy.intersect1d(info['ia'], info['ib'])
        elif op == 'slice' and info.get('shape') is not None and int(numpy.prod(info['shape'])) == n:
            expected = numpy.arange(n).reshape(info['shape'])[tuple(info['slices'])].ravel()
        vp = self.bench.vol(prev, geom)
        if vp is None:
            return
        if expected is not None and len(new) != len(expected):
            self.fail('selection ledger', f'{op}: result has {len(new)} elements, the index model {len(expected)}')
            return
        if len(new) == 0:
            self.res.count('monitor/selection_empty')
            return
        vn = self.bench.vol(new, geom)
        if vn is None:
            return
        s = self.scale(vp['vol'])
        self.res.count('monitor/selection_total')
        if expected is not None and vp['vol_e'] is not None:
            self.cmp('selection ledger', f'{op}: measure of result vs sum over the index model', vn['vol'], vp['vol_e'][expected].sum(), s)
            self.cmp('selection ledger', f'{op}: first moment of result vs index model', vn['mom'], vp['mom_e'][expected].sum(0), s)
        elif vn['vol'] > vp['vol'] + 1e-9 * s:
            self.cmp('selection ledger', f'{op}: measure of a sub-topology exceeds the measure of the topology', vn['vol'], vp['vol'], s)
        if vp['vol_e'] is None or vn['vol_e'] is None:
            return
        try:
            par, _ = parents(prev, new, exact=True)
        except Unavailable:
            self.res.count('unavailable/parents')
            return
        except ValueError as e:
            self.fail('selection ledger', f'{op}: an element of the result is not an element of the operand: {e}')
            return
        self.res.count('monitor/selection_elementwise')
        if len(set(par.tolist())) != len(par):
            self.fail('selection ledger', f'{op}: duplicated elements in the result: {sorted(par.tolist())}')
            return
        if expected is not None and sorted(par.tolist()) != sorted(int(i) for i in expected):
            self.fail('selection ledger', f'{op}: result holds elements {sorted(par.tolist())}, index model {sorted(int(i) for i in expected)}')
            return
        self.cmp('selection ledger', f'{op}: per-element measure', vn['vol_e'], vp['vol_e'][par], s)
        self.cmp('selection ledger', f'{op}: per-element first moment', vn['mom_e'], vp['mom_e'][par], s)

    # -- (b)
    def mgeom(self, step):
        """geometry used for the ledgers of this step: the root geometry on manifolds under the quadratic map (surface measure not polynomial)"""
        return step.geom0 if (self.bench.quad and step.topo.ndims < step.geom.shape[0]) else step.geom

    def _zero(self, D):
        return dict(vol=0., mom=numpy.zeros(D), vol_e=numpy.zeros(0), mom_e=numpy.zeros((0, D)))

    def trim(self, step):
        info, geom, geom0 = step.info, self.mgeom(step), step.geom0
        base, pos, name = info['base'], info['pos'], info['name']
        D = geom.shape[0]
        vb = self.bench.vol(base, geom)
        if vb is None:
            return
        s = self.scale(vb['vol'])
        vpos = self.bench.vol(pos, geom) if len(pos) else self._zero(D)
        self.res.count('monitor/trim_partition')
        self.res.add('levelset_tags', step.op['levelset'].get('tag', '?'))
        self.res.count(f'trim_maxrefine/{info["maxrefine"]}')
        ncut = len(topogen.cut_elements(pos))
        self.res.count('trim_cut_elements', ncut)
        self.res.count('trims_with_cut' if ncut else 'trims_without_cut')
        parts = []
        # complement as nutils defines it
        neg = None
        try:
            neg = base - pos if len(pos) else base
            parts.append(('base - pos', neg))
            info['neg'] = neg
        except Exception as e:
            if not unsupported(e):
                raise
            self.res.count('unavailable/complement')
        # complement by trimming with the negated level set, same maxrefine / ndivisions
        try:
            neg2 = base.trim(-info['levelset'], maxrefine=info['maxrefine'], ndivisions=info['ndivisions'], name=name)
            self.res.count('monitor/negated_trim')
            info['neg2'] = neg2
            if neg is not None and len(neg2) == len(neg) and tuple(neg2.references) == tuple(neg.references) and \
                    (len(neg) == 0 or tuple(neg2.transforms) == tuple(neg.transforms)):
                self.res.count('negated_trim_identical_to_complement')   # same elements, same references: nothing new to integrate
            elif self.degenerate_levelset(base, info):
                # the level set vanishes on >= 2 vertices of an element in which it also changes sign: nutils keeps the zero edge on both sides
                self.res.count('negated_trim_skipped_degenerate_levelset')
            else:
                self.res.count('negated_trim_differs_from_complement')
                parts.append(('trim(-levelset)', neg2))
        except Exception as e:
            if not unsupported(e):
                raise
            self.res.count('unavailable/negated_trim')
        for label, N in parts:
            vN = self.bench.vol(N, geom) if len(N) else self._zero(D)
            if vN is None or vpos is None:
                continue
            self.cmp('trim partitions the measure', f'vol(pos) + vol({label}) vs vol(base)', vpos['vol'] + vN['vol'], vb['vol'], s)
            self.cmp('trim partitions the measure', f'first moments of pos + {label} vs base', vpos['mom'] + vN['mom'], vb['mom'], s)
            if vb['vol_e'] is not None and vpos['vol_e'] is not None and vN['vol_e'] is not None:
                try:
                    acc = numpy.zeros(len(base))
                    accm = numpy.zeros((len(base), D))
                    for T, v in (pos, vpos), (N, vN):
                        if len(T):
                            par, _ = parents(base, T, exact=True)
                            numpy.add.at(acc, par, v['vol_e'])
                            numpy.add.at(accm, par, v['mom_e'])
                    self.res.count('monitor/trim_elementwise')
                    self.cmp('trim partitions the measure', f'per element: pos + {label} vs base', acc, vb['vol_e'], s)
                    self.cmp('trim partitions the measure', f'per element first moment: pos + {label} vs base', accm, vb['mom_e'], s)
                except Unavailable:
                    self.res.count('unavailable/parents')
                except ValueError as e:
                    self.fail('trim partitions the measure', f'an element of a trimmed part is not an element of the base: {e}')
            # the cut, seen from both sides.  Only for the first cut of a history: in a nested SubsetTopology nutils moves faces that an earlier
            # trim/subset already exposed (neighbour partially present) from the old group into the new one (labelling only; closure is still
            # demanded by (c)), so the groups of a second cut are not comparable piece by piece.
            if len(pos) and len(N):
                if self._nested(base):
                    self.res.count('cut_comparison_skipped_nested_subset')
                else:
                    self.cut(base, pos, N, label, name, geom, geom0, s)
            # union restores the base
            if len(pos) and len(N) and label == 'base - pos':
                try:
                    U = pos | N
                    self.res.count('monitor/trim_union')
                    if len(U) != len(base):
                        self.fail('trim partitions the measure', f'pos | ({label}) has {len(U)} elements, base has {len(base)}')
                    elif U is not base:
                        vU = self.bench.vol(U, geom)
                        if vU is not None:
                            self.cmp('trim partitions the measure', f'vol(pos | {label}) vs vol(base)', vU['vol'], vb['vol'], s)
                except Exception as e:
                    if not unsupported(e):
                        raise
                    self.res.count('unavailable/trim_union')

    @staticmethod
    def _nested(topo):
        from nutils import topology
        seen, stack = set(), [topo]
        while stack:
            T = stack.pop()
            if id(T) in seen:
                continue
            seen.add(id(T))
            if isinstance(T, topology.SubsetTopology):
                return True
            stack += [x for x in (getattr(T, 'basetopo', None), getattr(T, 'parent', None)) if x is not None]
            stack += list(getattr(T, '_topos', ()))
        return False

    def degenerate_levelset(self, base, info):
        try:
            smp = base.sample('vertex', info['maxrefine'])
            lv = smp.eval(info['levelset'])
            for k in range(len(base)):
                l = lv[smp.getindex(k)]
                if (l == 0).all() or ((l == 0).sum() >= 2 and (l > 0).any() and (l < 0).any()):
                    return True   # an element inside the zero set is kept by trim(f) and by trim(-f)
            return False
        except Exception as e:
            self.res.add('unavailable_signatures', 'levels: ' + topogen.signature(e))
            return True

    def cut_integrals(self, part, name, geom, geom0):
        from nutils import function
        D = geom.shape[0]
        full = part.ndims == D

        def fn():
            g = part.boundary.get_groups(name)
            J = function.J(geom)
            Js = function.J(geom0) if self.bench.quad else J
            funcs = [Js, geom * Js]
            if full:
                n = function.normal(geom)
                funcs += [n * J, geom[:, None] * n[None, :] * J]
            root = geom0 * Js   # position in root coordinates: single-valued up to a period, used to match pieces across a periodic seam
            if len(g):
                self.res.count('integrals')
                return len(g), [numpy.asarray(v) for v in g.integrate(funcs, degree=self.bench.deg)], g, funcs, root
            return 0, [numpy.zeros(()), numpy.zeros(D)] + ([numpy.zeros(D), numpy.zeros((D, D))] if full else []), g, funcs, root
        return self.bench._get('cut:' + name, part, geom, fn)

    def cut_pieces(self, part, c):
        """per piece of the group: (measure, centroid, remaining integrals..., degenerate owner?)"""
        n, vals, g, funcs, root = c
        if not n:
            return []
        self.res.count('integrals')
        ev = [numpy.asarray(v) for v in g.integrate_elementwise(list(funcs) + [root], degree=self.bench.deg)]
        c0 = ev.pop()
        refs = part.references
        out = []
        for k, t in enumerate(g.transforms):
            own = int(part.transforms.index_with_tail(t)[0])
            a = float(ev[0][k])
            out.append(dict(a=a, c=ev[1][k] / a if a else ev[1][k], c0=c0[k] / a if a else c0[k], vals=[v[k] for v in ev],
                            degenerate=_degenerate(refs[own]), own=own))
        return out

    def cut_match(self, pos, neg, cp, cn, sc):
        """match the pieces of the two groups by position; returns (sums over matched pieces of pos, of neg, unmatched pieces).
        Reference.slice documents that a mosaic may have zero or full volume (binning of edge intersections): then one part keeps the whole
        (child) element with a sliver of its original face relabelled as 'trimmed' while the zero-volume counterpart is dropped from the
        other part.  Such unmatched pieces, owned by an element with a degenerate mosaic, are not part of the shared cut; any other unmatched
        piece is reported."""
        pp, pn = self.cut_pieces(pos, cp), self.cut_pieces(neg, cn)
        tol = 1e-7 * max(1., self.bench.xmax)
        used = set()
        sums = [[numpy.zeros_like(numpy.asarray(v, dtype=float)) for v in cp[1]] for _ in range(2)]
        unmatched = []
        periods = numpy.array((self.bench.periods + [0.] * len(pp[0]['c0']))[:len(pp[0]['c0'])]) if pp else numpy.zeros(0)

        def same_place(p, q):
            # root coordinates, modulo the period along periodic axes: a face on the periodic seam sits at y=0 seen from one element and
            # at y=period seen from its neighbour (the mapped geometry is double-valued there)
            d = numpy.abs(p['c0'] - q['c0'])
            d = numpy.where(periods > 0, numpy.minimum(d, numpy.abs(d - periods)), d)
            return d.max() <= tol

        for p in pp:
            best = None
            for j, q in enumerate(pn):
                if j not in used and same_place(p, q) and abs(p['a'] - q['a']) <= 1e-7 * max(1., p['a']):
                    best = j
                    break
            if best is None:
                unmatched.append(('pos', p))
            else:
                used.add(best)
                for acc, piece in (sums[0], p), (sums[1], pn[best]):
                    for x, v in zip(acc, piece['vals']):
                        x += v
        unmatched += [('neg', q) for j, q in enumerate(pn) if j not in used]
        return sums[0], sums[1], unmatched

    def cut(self, base, pos, neg, label, name, geom, geom0, s):
        D = geom.shape[0]
        full = pos.ndims == D
        cp, cn = self.cut_integrals(pos, name, geom, geom0), self.cut_integrals(neg, name, geom, geom0)
        if cp is None or cn is None:
            return
        vp, vn = cp[1], cn[1]
        self.res.count('monitor/trim_cut')
        if cp[0] or cn[0]:
            self.res.count('monitor/trim_cut_nonempty')
        sc = self.scale(s, vp[0], vn[0])
        m = 'trimmed boundaries share the cut'
        if tolerance.compare(numpy.asarray(vp[0], dtype=float), numpy.asarray(vn[0], dtype=float), scale=sc, check_kind=False)[0] != tolerance.PASS:
            try:
                vp, vn, unmatched = self.cut_match(pos, neg, cp, cn, sc)
            except (Unavailable, ValueError, AttributeError) as e:
                unmatched = None
            if unmatched:
                self.res.count('trims_with_cut_slivers')
                self.res.count('cut_sliver_pieces', len(unmatched))
                odd = [(side, p) for side, p in unmatched if not p['degenerate']]
                if odd:
                    side, p = odd[0]
                    self.fail(m, f'group {name!r}: {len(odd)} piece(s) of one part have no counterpart in the other ({label}) and do not belong to an element with a '
                                 f'degenerate mosaic, e.g. in {side}: measure {p["a"]:.6g} at {numpy.round(p["c"], 5).tolist()} (element {p["own"]})')
                    return
        self.cmp(m, f'measure of group {name!r}: pos vs {label}', vp[0], vn[0], sc)
        if full:
            self.cmp(m, f'int n dS over group {name!r}: pos vs -({label})', vp[2], -vn[2], sc)
        if not self.bench.periodic:   # x is double-valued on a periodic seam
            self.cmp(m, f'first moment of group {name!r}: pos vs {label}', vp[1], vn[1], sc)
            if full:
                self.cmp(m, f'int x (x) n dS over group {name!r}: pos vs -({label})', vp[3], -vn[3], sc)

    # -- (c) + (d)
    def closure_and_interfaces(self, step):
        topo, geom, geom0 = step.topo, self.mgeom(step), step.geom0
        D = geom.shape[0]
        v = self.bench.vol(topo, geom)
        if v is None:
            return
        conn = self.connectivity_table(topo, geom, geom0) if topo.ndims >= 1 else None
        if self.problems:
            return
        b = self.bench.bnd(topo, geom, geom0) if topo.ndims >= 1 else None
        i = self.bench.itf(topo, geom, geom0) if topo.ndims >= 1 else None
        s = self.scale(v['vol'], b['area'] if b else 0., i['area'] if i else 0.)
        if b is not None and b['full']:
            self.res.count('monitor/closure_normal')
            self.cmp('boundary closure', 'int n dS over the boundary', b['z'], numpy.zeros(D), s)
            if i is not None:
                self.res.count('monitor/closure_flux')
                self.cmp('boundary closure', 'int x.n dS - int [[x]].n dS vs dim*vol', b['flux'] - i['jumpn'], D * v['vol'], s)
        if i is None:
            return
        self.res.count('monitor/interfaces')
        self.res.count('interfaces_seen', i['n'])
        if not self.bench.periodic:
            self.cmp('interfaces', 'int |[[x]]|^2 dS', i['jump2'], 0., s)
        elif len(i['jumps']):
            self.periodic_jumps(i['jumps'], step)
        # (i) resolution to two different elements
        I = i['topo']
        pairs = None
        if i['n'] and hasattr(topo, 'transforms') and hasattr(I, 'transforms'):
            pairs = []
            tr = topo.transforms
            for k, (a, o) in enumerate(zip(I.transforms, I.opposites)):
                try:
                    ia, io = tr.index_with_tail(a)[0], tr.index_with_tail(o)[0]
                except ValueError as e:
                    self.fail('interfaces', f'interface {k}: transform/opposite does not resolve to an element of the topology ({e})')
                    return
                if ia == io:
                    self.fail('interfaces', f'interface {k}: transform and opposite resolve to the same element {ia}')
                    return
                pairs.append((min(ia, io), max(ia, io)))
            self.res.count('monitor/interfaces_resolved')
            self.res.count('interfaces_resolved', len(pairs))
        # (iii) face-measure ledger
        if b is not None and hasattr(topo, 'transforms'):
            e = self.bench.edges(topo, geom, geom0)
            if e is not None:
                self.res.count('monitor/face_ledger')
                self.cmp('face-measure ledger', 'sum_e |de| vs |dT| + 2 |interfaces|', e['total'], b['area'] + 2 * i['area'], s)
                if e['full'] and v['vol_e'] is not None:
                    # (f) every element is closed by its own edges (trimmed elements: the mosaic's simplices fill the hull of its edges)
                    self.res.count('monitor/element_closure')
                    self.cmp('element closure', 'int n dS over the boundary of each element', e['z_el'], numpy.zeros_like(e['z_el']), s)
                    self.cmp('element closure', 'int x.n dS over the boundary of each element vs dim*vol(element)', e['f_el'], D * v['vol_e'], s)
        # (iii-b) trimmed topologies: the ledger must close per element, and an interface cannot be larger than what either neighbour keeps
        if b is not None and hasattr(topo, 'transforms') and pairs is not None and len(topogen.cut_elements(topo)):
            e = self.bench.edges(topo, geom, geom0)
            if e is not None and 'm_edge' in e:
                self.trimmed_faces(topo, geom, geom0, b, i, e, pairs, conn, s)
        # (iv) connectivity table against the interfaces
        if pairs is not None and conn is not None:
            self.connectivity_pairs(topo, conn, pairs)

    def trimmed_faces(self, topo, geom, geom0, b, i, e, pairs, conn, s):
        """On a topology with trimmed elements: (1) per element, the measure of its own edges equals the measure of the boundary pieces it owns
        plus the measure of the interfaces it takes part in (so interfaces can neither overlap the boundary nor each other, and compensating
        errors between elements are excluded); (2) the interfaces between two elements are not larger than the part of the shared face that
        EITHER of them keeps (the interface is the intersection of both kept parts); counts the faces whose two neighbours keep different parts."""
        from nutils import function
        from collections import defaultdict
        Js = function.J(geom0 if self.bench.quad else geom)
        B, I = b['topo'], i['topo']
        n = len(topo)
        tr = topo.transforms
        acc = numpy.zeros(n)
        self.res.count('integrals', 2)
        if len(B):
            for t, m in zip(B.transforms, B.integrate_elementwise(Js, degree=self.bench.deg)):
                acc[tr.index_with_tail(t)[0]] += m
        ipair = defaultdict(float)
        if len(I):
            for (ia, io), m in zip(pairs, I.integrate_elementwise(Js, degree=self.bench.deg)):
                acc[ia] += m
                acc[io] += m
                ipair[(ia, io)] += float(m)
        self.res.count('monitor/trimmed_element_face_ledger')
        self.cmp('face-measure ledger', 'per element of a trimmed topology: |de| vs its boundary pieces + its interfaces', e['m_el'], acc, s)
        if conn is None or self.bench.periodic:
            return
        offsets = numpy.cumsum([0] + [r.nedges for r in topo.references])
        where = {int(g): k for k, g in enumerate(e['sel'])}
        medge = lambda ie, k: float(e['m_edge'][where[int(offsets[ie] + k)]]) if int(offsets[ie] + k) in where else 0.
        tol = 1e-9 * s
        for ie, row in enumerate(conn):
            for k, je in enumerate(row):
                je = int(je)
                if je <= ie:
                    continue
                ks = [kk for kk, ii in enumerate(conn[je]) if int(ii) == ie]
                if len(ks) != 1 or sum(1 for ii in row if int(ii) == je) != 1:
                    continue   # doubly connected pair: ambiguous
                ma, mb = medge(ie, k), medge(je, ks[0])
                self.res.count('trimmed_faces_examined')
                if abs(ma - mb) > tol:
                    self.res.count('trimmed_faces_different_parts')   # the two neighbours keep different parts of their shared face
                    self.res.count('trimmed_faces_smaller_on_lower' if ma < mb else 'trimmed_faces_smaller_on_higher')
                got = ipair.get((ie, je), 0.)
                if got > min(ma, mb) + max(tol, 1e-5 * s * 0):
                    if tolerance.compare(numpy.asarray(got), numpy.asarray(min(ma, mb)), scale=s, check_kind=False)[0] == tolerance.VIOLATION:
                        self.fail('interfaces', f'interface between elements {ie} and {je} has measure {got:.9g}, more than the part of the shared face kept by '
                                                f'{"the former" if ma < mb else "the latter"} ({ma:.9g} / {mb:.9g}): not the intersection of both kept parts')
                        return

    def periodic_jumps(self, jumps, step):
        ticks = topogen.mesh_ticks(self.h['mesh'])
        periods = [t[-1] - t[0] for t in ticks]
        for op in self.h['ops'][:step.index]:
            if op['op'] == 'mul':
                periods.append(float(op['n']))
        periods = numpy.array(periods[:jumps.shape[1]] + [0.] * (jumps.shape[1] - len(periods)))
        self.res.count('monitor/periodic_jumps')
        a = numpy.abs(jumps)
        bad = (a > 1e-7) & (numpy.abs(a - periods[None, :]) > 1e-7)
        if bad.any():
            self.fail('interfaces', f'[[x]] on an interface is neither 0 nor a period: {jumps[bad.any(1)][:3].tolist()} periods {periods.tolist()}')

    def connectivity_table(self, topo, geom, geom0):
        """(iv) self-consistency of the connectivity table, independent of boundary/interfaces: shape, range, symmetry; for trimmed
        topologies the table must be the base table renumbered; for conforming untrimmed meshes paired faces have coinciding centroids."""
        from nutils import topology
        try:
            conn = topo.connectivity
            refs = topo.references
        except (AttributeError, NotImplementedError):
            self.res.count('unavailable/connectivity')
            return None
        n = len(topo)
        self.res.count('monitor/connectivity')
        if len(conn) != n:
            self.fail('connectivity', f'connectivity table has {len(conn)} rows for {n} elements')
            return None
        for ie, row in enumerate(conn):
            if len(row) != refs[ie].nedges:
                self.fail('connectivity', f'row {ie} has {len(row)} entries for {refs[ie].nedges} edges')
                return None
            for je in row:
                je = int(je)
                if je >= n or je < -1:
                    self.fail('connectivity', f'row {ie} refers to element {je} of {n}')
                    return None
                if je >= 0 and ie not in conn[je]:
                    self.fail('connectivity', f'not symmetric: {ie} lists {je} but {je} lists {list(map(int, conn[je]))}')
                    return None
        S = topo
        while isinstance(S, topology.WithGroupsTopology):
            S = S.basetopo
        if isinstance(S, topology.SubsetTopology):
            try:
                bconn = S.basetopo.connectivity
                bidx = [int(S.basetopo.transforms.index(t)) for t in S.transforms]
            except (AttributeError, NotImplementedError, ValueError):
                bconn = None
            if bconn is not None:
                self.res.count('monitor/connectivity_subset_model')
                renum = {b: k for k, b in enumerate(bidx)}
                for ie, b in enumerate(bidx):
                    want = [renum.get(int(j), -1) for j in bconn[b]]
                    got = [int(j) for j in conn[ie]]
                    if got[:len(want)] != want or any(j != -1 for j in got[len(want):]):
                        self.fail('connectivity', f'element {ie} (base element {b}): table row {got}, base table renumbered {want}')
                        return None
        if len(topogen.cut_elements(topo)) == 0 and not self.bench.periodic and hasattr(topo, 'transforms'):
            self.face_centroids(topo, geom, geom0, conn)
        return conn

    def connectivity_pairs(self, topo, conn, pairs):
        from collections import Counter
        refs = topo.references
        cpairs = Counter()
        for ie, row in enumerate(conn):
            for k, je in enumerate(row):
                je = int(je)
                if je >= 0 and refs[ie].edge_refs[k]:
                    cpairs[(min(ie, je), max(ie, je))] += 1
        ipairs = Counter(pairs)
        self.res.count('monitor/connectivity_vs_interfaces')
        if not set(ipairs) <= set(cpairs):
            self.fail('connectivity', f'interfaces between element pairs that the connectivity table does not list: {sorted(set(ipairs) - set(cpairs))[:5]}')
            return
        if len(topogen.cut_elements(topo)) == 0:
            # conforming, untrimmed: every interior face is listed once from either side
            want = Counter({k: 2 * c for k, c in ipairs.items()})
            if want != cpairs:
                diff = sorted((set(want) | set(cpairs)), key=str)
                diff = [(k, want.get(k, 0), cpairs.get(k, 0)) for k in diff if want.get(k, 0) != cpairs.get(k, 0)]
                self.fail('connectivity', f'connectivity table and interfaces disagree (pair, 2*interfaces, table entries): {diff[:5]}')

    def face_centroids(self, topo, geom, geom0, conn):
        e = self.bench.edges(topo, geom, geom0)
        if e is None or not len(e['topo']):
            return
        smp = e['topo'].sample('gauss', 1)
        x = smp.eval(geom)
        if len(x) != len(e['sel']):
            return
        self.res.count('monitor/connectivity_centroids')
        offsets = numpy.cumsum([0] + [r.nedges for r in topo.references])
        where = {int(g): k for k, g in enumerate(e['sel'])}
        for ie, row in enumerate(conn):
            for k, je in enumerate(row):
                je = int(je)
                if je <= ie:
                    continue
                ks = [kk for kk, ii in enumerate(conn[je]) if int(ii) == ie]
                a = where.get(int(offsets[ie] + k))
                if a is None:
                    continue
                cands = [where.get(int(offsets[je] + kk)) for kk in ks]
                d = [numpy.abs(x[a] - x[c]).max() for c in cands if c is not None]
                if d and min(d) > 1e-7 * max(1., self.bench.xmax):
                    self.fail('connectivity', f'edge {k} of element {ie} is paired with element {je} but no face of {je} that lists {ie} has the same centroid (distance {min(d):.3g})')
                    return


# ------------------------------------------------------------------ known mechanism

def _simplex_base(ref):
    from nutils import element
    while hasattr(ref, 'baseref'):
        ref = ref.baseref
    return isinstance(ref, element.SimplexReference) and ref.ndims >= 1


def known_mechanism(mon, history, step, monitors):
    """Predicate for the open finding C10-refined-trimmed-childface-boundary (what is left of C10-refined-trimmed-simplex-boundary after
    Updim.swapdown learned about SimplexChild).  All of:
    * only boundary closure / the face ledger (which contains the boundary) fail;
    * the history has a trim/subset/minus followed later by refined_by/hinter/refine;
    * the failing topology is a HierarchicalTopology H over a SubsetTopology S;
    * the deficits  int_dS - int_dH  of (measure, n, x.n) equal, to rounding, the sum over exactly those pieces of dS
      that (i) belong to an element of S that H refined and (ii) whose chain below the element contains ScaledUpdim(child, E) with E the
      child's own face (SimplexEdge / TensorEdge1 / TensorEdge2): a child face exposed because the cut coincides with it.  SimplexEdge.swapdown
      gives up on (SimplexChild, SimplexEdge) pairs that are interior to the parent instead of forming ScaledUpdim, and TensorEdge.swapdown
      mistakes the inner ScaledUpdim fallback of a nested tensor edge for a successful swap; and that sum is not zero.
    Anything else stays a plain violation (in particular lost generic cut edges, the fixed finding).  Returns (bool, explanation)."""
    from nutils import topology, transform, function
    if not monitors or not all(m in ('boundary closure', 'face-measure ledger') for m in monitors):
        return False, 'other monitors failed'
    kinds = [op['op'] for op in history['ops'][:step.index]]
    cutters = [k for k, o in enumerate(kinds) if o in ('trim', 'subset', 'minus')]
    if not cutters or not any(o in ('refined_by', 'hinter', 'refine') for o in kinds[cutters[0] + 1:]):
        return False, 'no trim followed by a hierarchical refinement in the history'
    H = step.topo
    if type(H) is not topology.HierarchicalTopology:
        return False, 'failing topology is not hierarchical'
    S = H.basetopo
    while isinstance(S, topology.WithGroupsTopology):
        S = S.basetopo
    if not isinstance(S, topology.SubsetTopology):
        return False, 'hierarchical topology is not based on a trimmed topology'
    geom, geom0 = mon.mgeom(step), step.geom0
    D = geom.shape[0]
    if H.ndims != D:
        return False, 'manifold'
    bH, bS = mon.bench.bnd(H, geom, geom0), mon.bench.bnd(S, geom, geom0)
    if bH is None or bS is None:
        return False, 'boundary unavailable'
    SB = bS['topo']
    J = function.J(geom)
    Js = function.J(geom0) if mon.bench.quad else J
    n = function.normal(geom)
    ae, ze, fe = SB.integrate_elementwise([Js, n * J, (geom @ n) * J], degree=mon.bench.deg)
    unrefined = set(int(k) for k in H._indices_per_level[0])
    pa, pz, pf, owners = 0., numpy.zeros(D), 0., set()
    for b, chain in enumerate(SB.transforms):
        own, tail = S.transforms.index_with_tail(chain)
        if own in unrefined:
            continue
        children = None
        for t in tail:
            kids = []
            while type(t) is transform.ScaledUpdim:   # ScaledUpdim(c0, ScaledUpdim(c1, E)): face E of the grandchild c0.c1
                kids.append(t.trans1)
                t = t.trans2
            if kids and isinstance(t, (transform.SimplexEdge, transform.TensorEdge1, transform.TensorEdge2)):
                children = kids
        if children is None:
            continue
        # the face is lost once H has refined down to (or beyond) the child whose face it is
        try:
            lost = len(H.transforms.index_with_tail(tuple(S.transforms[own]) + tuple(children))[1]) == 0
        except ValueError:
            lost = True
        if lost:
            pa += ae[b]
            pz += ze[b]
            pf += fe[b]
            owners.add(int(own))
    if not owners or pa <= 0:
        return False, 'no refined element owns an exposed child face'
    s = mon.scale(bS['area'], bH['area'])
    ok = all(tolerance.compare(numpy.asarray(o, dtype=float), numpy.asarray(r, dtype=float), scale=s, check_kind=False)[0] == tolerance.PASS
             for o, r in ((bS['area'] - bH['area'], pa), (bS['z'] - bH['z'], pz), (bS['flux'] - bH['flux'], pf)))
    if not ok:
        return False, f'boundary deficit {bS["area"] - bH["area"]:.6g} is not the measure {pa:.6g} of the exposed child faces of the refined elements {sorted(owners)}'
    return True, f'boundary lacks exactly the exposed child faces (measure {pa:.6g}) of the hierarchically refined elements {sorted(owners)} of the trimmed topology'


def _has_retrimmed(ref):
    from nutils import element
    if isinstance(ref, element.MosaicReference):
        return isinstance(ref.baseref, element.MosaicReference) or _has_retrimmed(ref.baseref)
    if isinstance(ref, element.WithChildrenReference):
        return any(_has_retrimmed(c) for c in ref.child_refs)
    return False


def _retrimmed(topo):
    """elements whose reference (or, for maxrefine >= 1, one of its children) is a mosaic of a mosaic: cut a second time at the same level"""
    return {i for i, r in enumerate(topo.references) if _has_retrimmed(r)}


def _element_defects(mon, topo, geom, geom0):
    """indices of the elements that are not closed by their own edges (outside the pass band), or None if not computable"""
    v, e = mon.bench.vol(topo, geom), mon.bench.edges(topo, geom, geom0)
    if v is None or e is None or v['vol_e'] is None or not e['full']:
        return None
    D = geom.shape[0]
    tol = 1e-9 * mon.scale(v['vol'])
    bad = (numpy.abs(e['z_el']).max(1) > tol) | (numpy.abs(e['f_el'] - D * v['vol_e']) > tol)
    return set(numpy.nonzero(bad)[0].tolist())


def known_retrim(mon, history, step, monitors):
    """Predicate for the open finding C10-retrimmed-3d-mosaic-inconsistent.  All of:
    * the failing step is a trim of a 2-D or 3-D topology (first seen in 3-D; in 2-D it needs a saddle of the first level set inside one element),
      and only the trim partition / shared cut / element closure / boundary closure monitors fail;
    * in pos, base-pos and trim(-levelset) every element that is not closed by its own edges is a 3-D mosaic of a mosaic
      (an element of the base that was already cut at this level and is cut again), and there is at least one;
    * every base element whose measure is not partitioned is the parent of such an element;
    * if boundary closure fails for the result: its boundary integrals equal the sums of the per-element edge integrals (the assembly of
      boundary and interfaces is consistent), so the defect is confined to those elements.
    Returns (bool, explanation)."""
    if step.op['op'] != 'trim':
        return False, 'not a trim'
    allowed = ('trim partitions the measure', 'trimmed boundaries share the cut', 'element closure', 'boundary closure')
    if not monitors or not all(m in allowed for m in monitors):
        return False, 'other monitors failed'
    info = step.info
    geom, geom0 = mon.mgeom(step), step.geom0
    base, pos = info['base'], info['pos']
    if base.ndims < 2 or geom.shape[0] != base.ndims:
        return False, 'not a full-dimensional 2-D/3-D topology'
    vb = mon.bench.vol(base, geom)
    if vb is None or vb['vol_e'] is None:
        return False, 'no element measures'
    tol = 1e-9 * mon.scale(vb['vol'])
    culprits = set()   # base elements that are parents of defective retrimmed elements
    ndefect = uncomputable = 0
    parts = [('pos', pos)] + [(k, info[k]) for k in ('neg', 'neg2') if info.get(k) is not None]
    for label, T in parts:
        if not len(T):
            continue
        bad = _element_defects(mon, T, geom, geom0)
        if bad is None:
            # nutils cannot even integrate over the edges of this part ("unsupported ischeme for EmptyLike" inside a retrimmed 3-D element):
            # fall back to the structural condition for this part: its retrimmed elements are the suspects
            bad = _retrimmed(T)
            uncomputable += 1
        if not bad <= _retrimmed(T):
            return False, f'{label} has defective elements that are not retrimmed mosaics: {sorted(bad - _retrimmed(T))[:5]}'
        par, _ = parents(base, T, exact=True)
        culprits |= {int(par[i]) for i in bad}
        ndefect += len(bad)
    if not ndefect:
        return False, 'no defective retrimmed element'
    vpos = mon.bench.vol(pos, geom) if len(pos) else None
    for label, T in parts[1:]:
        acc = numpy.zeros(len(base))
        for X in (pos, T):
            if len(X):
                vX = mon.bench.vol(X, geom)
                par, _ = parents(base, X, exact=True)
                numpy.add.at(acc, par, vX['vol_e'])
        off = set(numpy.nonzero(numpy.abs(acc - vb['vol_e']) > tol)[0].tolist())
        if not off <= culprits:
            return False, f'measure not partitioned (pos + {label}) on base elements {sorted(off - culprits)[:5]} that have no defective retrimmed child'
    if 'boundary closure' in monitors:
        T = step.topo
        b, i, e = mon.bench.bnd(T, geom, geom0), mon.bench.itf(T, geom, geom0), mon.bench.edges(T, geom, geom0)
        if b is None or i is None or e is None:
            return False, 'assembly not computable'
        s = mon.scale(b['area'], i['area'])
        ok = numpy.abs(e['z_el'].sum(0) - b['z']).max() <= 1e-9 * s and abs(e['f_el'].sum() - (b['flux'] - i['jumpn'])) <= 1e-9 * s
        if not ok:
            return False, 'boundary integrals differ from the summed element edge integrals'
    return True, f'{ndefect} element(s) cut a second time (mosaic of a mosaic, children of base elements {sorted(culprits)}) are not closed by their own edges; everything else is consistent'


def _degenerate(ref):
    """reference tree contains a mosaic with zero volume or with the full volume of its base (Reference.slice: "the resulting mosaic may
    have a volume that is equal to zero or self"): a sliver produced by the binning of edge intersections"""
    from nutils import element
    if isinstance(ref, element.MosaicReference):
        v, vb = float(ref.volume), float(ref.baseref.volume)
        return abs(v) <= 1e-14 or abs(v - vb) <= 1e-14 * max(1., abs(vb)) or _degenerate(ref.baseref)
    if isinstance(ref, element.WithChildrenReference):
        return any(_degenerate(c) for c in ref.child_refs)
    return False


def known_sliver(mon, history, step, monitors):
    """Predicate for the open finding C10-degenerate-mosaic-child-not-closed.  All of:
    * only boundary closure / element closure fail;
    * every element that is not closed by its own edges is a WithChildrenReference (trim with maxrefine >= 1) that contains a degenerate
      mosaic child (zero volume, or the full volume of the child with a sliver of an edge cut off), and there is at least one;
    * the boundary integrals equal the sums of the per-element edge integrals (boundary and interfaces are assembled consistently), so
      the whole closure defect sits in those elements.
    Returns (bool, explanation)."""
    from nutils import element
    if not monitors or not all(m in ('boundary closure', 'element closure') for m in monitors):
        return False, 'other monitors failed'
    T = step.topo
    geom, geom0 = mon.mgeom(step), step.geom0
    if T.ndims != geom.shape[0] or not hasattr(T, 'transforms'):
        return False, 'not applicable'
    bad = _element_defects(mon, T, geom, geom0)
    if not bad:
        return False, 'no element with an open hull'
    refs = T.references
    odd = [i for i in bad if not (isinstance(refs[i], element.WithChildrenReference) and _degenerate(refs[i]))]
    if odd:
        return False, f'elements {sorted(odd)[:5]} are not closed by their edges but contain no degenerate mosaic child'
    b, i, e = mon.bench.bnd(T, geom, geom0), mon.bench.itf(T, geom, geom0), mon.bench.edges(T, geom, geom0)
    if b is None or i is None or e is None:
        return False, 'assembly not computable'
    s = mon.scale(b['area'], i['area'])
    if not (numpy.abs(e['z_el'].sum(0) - b['z']).max() <= 1e-9 * s and abs(e['f_el'].sum() - (b['flux'] - i['jumpn'])) <= 1e-9 * s
            and abs(e['total'] - (b['area'] + 2 * i['area'])) <= 1e-9 * s):
        return False, 'boundary integrals differ from the summed element edge integrals'
    return True, f'the hull of {len(bad)} trimmed element(s) {sorted(bad)[:6]} with a degenerate (zero- or full-volume) mosaic child is not closed; boundary and interfaces are assembled consistently'


def _ghost(ref):
    """a reference that SubsetTopology drops (zero volume) although it still carries non-empty edges: a zero-volume sliver mosaic"""
    return ref is not None and abs(float(ref.volume)) <= 1e-14 and any(float(e.volume) > 0 for e in ref.edge_refs)


def known_ghost_neighbour(mon, history, step, monitors):
    """Second face of the open finding C10-degenerate-mosaic-child-not-closed, at topology level.  All of:
    * only boundary closure / the face ledger fail, every element is closed by its own edges;
    * the failing topology is a SubsetTopology S; the element faces that are neither in S.boundary nor in S.interfaces (found by matching
      face centroids and measures) all belong to an element whose neighbour in the base topology is a zero-volume mosaic with a non-empty
      edge sliver: SubsetTopology drops that neighbour (bool(ref) is its volume) but SubsetTopology.boundary still subtracts its edge from
      the exposed face;
    * the closure and ledger deficits equal the sums over exactly those faces.
    Returns (bool, explanation)."""
    from nutils import topology, function
    if not monitors or not all(m in ('boundary closure', 'face-measure ledger') for m in monitors):
        return False, 'other monitors failed'
    S = step.topo
    while isinstance(S, topology.WithGroupsTopology):
        S = S.basetopo
    if not isinstance(S, topology.SubsetTopology):
        return False, 'not a trimmed topology'
    T = step.topo
    geom, geom0 = mon.mgeom(step), step.geom0
    D = geom.shape[0]
    if T.ndims != D:
        return False, 'manifold'
    bad = _element_defects(mon, T, geom, geom0)
    if bad is None or bad:
        return False, 'elements are not closed by their own edges'
    b, i, e = mon.bench.bnd(T, geom, geom0), mon.bench.itf(T, geom, geom0), mon.bench.edges(T, geom, geom0)
    if b is None or i is None or e is None:
        return False, 'assembly not computable'
    J = function.J(geom)
    Js = function.J(geom0) if mon.bench.quad else J
    n = function.normal(geom)

    def pieces(X):
        if not len(X):
            return []
        a, c, z, f = X.integrate_elementwise([Js, geom * Js, n * J, (geom @ n) * J], degree=mon.bench.deg)
        return [(float(ai), ci / ai if ai else ci, zi, float(fi)) for ai, ci, zi, fi in zip(a, c, z, f)]
    pe, pb, pi = pieces(e['topo']), pieces(b['topo']), pieces(i['topo'])
    tol = 1e-7 * max(1., mon.bench.xmax)
    listed = [(a, c) for a, c, _, _ in pb + pi]
    try:
        bconn = S.basetopo.connectivity
        bidx = [int(S.basetopo.transforms.index(t)) for t in S.transforms]
    except Exception:
        return False, 'base connectivity unavailable'
    offsets = numpy.cumsum([0] + [r.nedges for r in T.references])
    za, zz, zf, owners = 0., numpy.zeros(D), 0., set()
    for k, (a, c, z, f) in enumerate(pe):
        if any(abs(a - a2) <= 1e-7 * max(1., a) and numpy.abs(c - c2).max() <= tol for a2, c2 in listed):
            continue
        own = int(e['owner'][k])
        iedge = int(e['sel'][k] - offsets[own])
        row = bconn[bidx[own]]
        j = int(row[iedge]) if iedge < len(row) else -1
        if j < 0 or not _ghost(S.refs[j]):
            return False, f'face {iedge} of element {own} is in neither boundary nor interfaces and its base neighbour is not a zero-volume sliver'
        za, zz, zf = za + a, zz + z, zf + f
        owners.add(own)
    if not owners:
        return False, 'no unlisted face'
    s = mon.scale(b['area'], i['area'])
    v = mon.bench.vol(T, geom)
    ok = abs(e['total'] - (b['area'] + 2 * i['area']) - za) <= 1e-9 * s and numpy.abs(b['z'] + zz).max() <= 1e-9 * s \
        and abs((b['flux'] - i['jumpn']) + zf - D * v['vol']) <= 1e-9 * s
    if not ok:
        return False, 'deficits are not the sums over the unlisted faces'
    return True, f'faces (measure {za:.6g}) of elements {sorted(owners)[:6]} towards a dropped zero-volume sliver neighbour are missing from the boundary; everything else is consistent'


# ------------------------------------------------------------------ one history

def evaluate(history, res):
    """Build the history and run all monitors after every step.
    Returns (failing step index or None, [(monitor, detail)], mechanism or None)."""
    with topogen.quiet():
        try:
            topo, geom, steps = topogen.build(history)
        except Exception as e:
            res.count('mesh_construction_failed')
            res.note('mesh construction failed: ' + topogen.signature(e) + ' ' + json.dumps(history['mesh'])[:200])
            return None, [], None
        mon = Monitors(history, res)
        try:
            mon.bench.xmax = float(numpy.abs(steps[0].topo.sample('bezier', 2).eval(steps[0].geom)).max()) + 4.
        except Exception:
            mon.bench.xmax = 30.
        prev_geom = steps[0].geom
        for step in steps:
            kind = step.op['op']
            step_prev_geom, prev_geom = prev_geom, step.geom
            if kind != 'mesh':
                res.count(f'ops/{kind}/{step.status}')
                if step.status == 'rejected':
                    res.count('rejected_operations')
                    res.add('refusal_signatures', f'{kind} on {type(step.prev).__name__}: {step.reason}')
                elif step.status == 'error':
                    known = any(s in step.reason for s in UNSUPPORTED)
                    res.count('unsupported_operations' if known else 'operation_errors')
                    res.add('unsupported_signatures' if known else 'operation_error_signatures', f'{kind} on {type(step.prev).__name__}: {step.reason}')
                    if not known:
                        res.note(f'operation error: {kind} on {type(step.prev).__name__}: {step.reason} :: {json.dumps(history)[:300]}')
                elif step.status == 'skipped':
                    res.count('skipped_operations')
                if step.status in ('rejected', 'error') or (step.status == 'skipped' and 'result' not in step.info):
                    continue
            res.count('steps_monitored')
            res.add('topology_types', type(step.topo).__name__)
            try:
                if kind in ('refine', 'refined_by', 'hinter') and step.status == 'applied':
                    mon.refinement(step)
                elif kind in ('take', 'slice', 'group', 'subset', 'minus', 'union', 'inter'):
                    mon.selection(step)
                elif kind == 'trim':
                    mon.trim(step)
                elif kind == 'mul':
                    vp, vn = mon.bench.vol(step.prev, step_prev_geom), mon.bench.vol(step.topo, step.geom)
                    if vp is not None and vn is not None:
                        res.count('monitor/product')
                        mon.cmp('product measure', 'vol(A x line(n)) vs n vol(A)', vn['vol'], vp['vol'] * step.op['n'], mon.scale(vn['vol']))
                if step.status == 'applied' and not step.info.get('result_empty') and (kind == 'mesh' or step.topo is not step.prev):
                    mon.closure_and_interfaces(step)
            except Exception as e:
                if unsupported(e):
                    res.count('unavailable/monitor')
                    res.add('unavailable_signatures', f'{kind}: ' + topogen.signature(e))
                else:
                    res.count('monitor_errors')
                    res.add('monitor_error_signatures', f'{kind} -> {type(step.topo).__name__}: ' + topogen.signature(e))
                    res.note(f'monitor error after {kind}: {topogen.signature(e)} :: {traceback.format_exc()[-300:]} :: {json.dumps(history)[:300]}')
                    return None, [], None
            if mon.problems:
                mech, why = None, ''
                for fid, pred in (KNOWN2, known_retrim), (KNOWN3, known_sliver), (KNOWN3, known_ghost_neighbour):
                    try:
                        known, why = pred(mon, history, step, [m for m, _ in mon.problems])
                    except Exception as e:
                        known, why = False, 'predicate could not be evaluated: ' + topogen.signature(e)
                    if known:
                        mech = fid
                        break
                mon.problems = [(m, d + (f' [{why}]' if mech else '')) for m, d in mon.problems]
                return step.index, mon.problems, mech
        res.count('histories_clean')
    return None, [], None


def shrink(history, monitors, deadline):
    """Drop operations while a violation of the same monitor(s) remains (1-minimal w.r.t. dropping single operations)."""
    best = history
    changed = True
    while changed and time.time() < deadline:
        changed = False
        for k in reversed(range(len(best['ops']))):
            if time.time() > deadline:
                break
            cand = dict(best, ops=best['ops'][:k] + best['ops'][k + 1:])
            if not cand['ops']:
                continue
            try:
                idx, probs, _ = evaluate(cand, Result())
            except Exception:
                continue
            if idx is not None and set(m for m, _ in probs) & set(monitors):
                best, changed = cand, True
                break
    return best


def nontrivial(res_before, res_after):
    return res_after - res_before


def run_case(seed, i, tier, res, deadline=None):
    history = gen_case(seed, i, tier)
    return execute(dict(index=i, history=history), res, deadline)


def execute(case, res, deadline=None):
    history = case['history']
    res.count('evaluations')
    res.count(f'dims/{history["ndims"]}')
    res.count('mesh/' + topogen.mesh_label(history['mesh']))
    res.count('geom/' + history['geom']['kind'])
    if history.get('scenario'):
        res.count('scenario/' + history['scenario'])
    before = dict(res.counters)
    idx, probs, mech = evaluate(history, res)
    applied = sum(res.counters.get(f'ops/{k}/applied', 0) - before.get(f'ops/{k}/applied', 0) for k in topogen.OP_KINDS)
    monitored = sum(v - before.get(k, 0) for k, v in res.counters.items() if k.startswith('monitor/'))
    if applied >= 1 and monitored >= 2:
        res.add('distinct', topogen.history_hash(history))
    if idx is None:
        return case
    monitors = sorted(set(m for m, _ in probs))
    small = history
    if idx < len(history['ops']):
        small = history = dict(history, ops=history['ops'][:idx])   # operations after the failing step play no role
    if mech is None and len(history['ops']) > 1 and (deadline is None or time.time() + 12 < deadline):
        small = shrink(history, monitors, time.time() + 8)   # unexplained: delta-debug, then classify the shrunk case
    if small is not history:
        idx2, probs2, mech2 = evaluate(small, Result())
        if idx2 is not None:
            idx, probs, mech = idx2, probs2, mech2
        else:
            small = history
    res.count('violating_histories')
    if mech:
        res.count('known_finding_histories')
        res.count('known_finding/' + mech)
    vcase = dict(index=case.get('index'), history=small, step=idx, original_ops=topogen.history_kinds(history))
    seen = set()
    for m, d in probs:
        if m in seen:
            continue
        seen.add(m)
        res.violation(m, vcase, f'after step {idx} ({small["ops"][idx - 1]["op"] if idx else "mesh"}): {d}', mechanism=mech)
    return case


def run_units(units, ctx):
    res = Result()
    t_end = ctx.deadline
    for u in units:
        for i in range(u['start'], u['stop']):
            if ctx.expired():
                res.count('cases_skipped_deadline')
                continue
            t0 = time.time()
            try:
                case = run_case(ctx.seed, i, ctx.tier, res, t_end)
            except Exception as e:
                res.count('harness_exceptions')
                res.note(f'harness exception in case {i}: {traceback.format_exc()[-600:]}')
                continue
            res.maximum('slowest_case_s', round(time.time() - t0, 2))
            if i % 211 == 0:
                res.sample(case)
    return res


def replay(case):
    res = Result()
    idx, probs, mech = evaluate(case['history'], res)
    return [dict(monitor=m, mechanism=mech, case=case, detail=d) for m, d in probs]


# ------------------------------------------------------------------ ledger reproducer

def _repro_history(mesh, ls):
    return dict(version=1, ndims=mesh['ndims'], mesh=mesh, geom=dict(kind='identity'),
                ops=[dict(op='trim', levelset=ls, maxrefine=1, ndivisions=8, name='trimmed', side='+'), dict(op='refined_by', frac=1., seed=0, prefer='cut')])


def _run_repro(h):
    r = Result()
    idx, probs, mech = evaluate(h, r)
    ok = not (r.counters.get('monitor_errors') or r.counters.get('mesh_construction_failed')) and r.counters.get('monitor/closure_normal')
    return ok, idx, probs, mech, r


def repro_refined_trimmed_simplex():
    """FIXED finding (regression monitor): mesh.line(4).trim(x-1.3, maxrefine=1).refined_by(cut element) and the same on a triangle mesh with an
    oblique plane lost the cut edges of the refined elements from the boundary; the structured 2-D counterpart was and is clean."""
    line = _repro_history(dict(kind='line', ndims=1, n=4, periodic=False), dict(kind='plane', normal=[1.], offset=1.3, tag='repro'))
    ls2 = dict(kind='plane', normal=[1., .3], offset=.45, tag='repro')
    tri = _repro_history(dict(kind='unitsquare', ndims=2, etype='triangle', n=3), ls2)
    sq = _repro_history(dict(kind='unitsquare', ndims=2, etype='square', n=3), ls2)
    bad = []
    for name, h in ('line', line), ('triangle', tri), ('square', sq):
        ok, idx, probs, mech, r = _run_repro(h)
        if not ok:
            return None, f'monitors did not run on the {name} reproducer: {r.notes[:1]}'
        closure = [d for m, d in probs if m == 'boundary closure']
        if name == 'square' and probs:
            return None, 'structured 2-D counterpart fails: ' + '; '.join(f'{m}: {d}' for m, d in probs)[:300]
        if closure:
            bad.append(f'{name}: {closure[0][:160]}')
        elif probs:
            return None, f'{name} reproducer fails differently: ' + '; '.join(f'{m}: {d}' for m, d in probs)[:300]
    if bad:
        return True, 'trim then refined_by(cut elements) loses cut edges from the boundary: ' + ' | '.join(bad)
    return False, 'boundaries of the hierarchically refined trimmed line and triangle meshes are closed'


def repro_refined_trimmed_childface():
    """FIXED finding (regression monitor): one cube, trim(0.5 - z, maxrefine=1) (the cut coincides with the child faces z = 0.5), refined_by([0]): the boundary lacks the four
    exposed child faces (int n dS = (0, 0, -1)); same for one line element cut at its midpoint and a triangle cut along a child edge;
    the x-face of the cube and a 2-D square are fine."""
    def hist(mesh, normal):
        return _repro_history(mesh, dict(kind='plane', normal=normal, offset=-.5, tag='repro'))
    cases = [('cube z<.5', hist(dict(kind='rect', ndims=3, shape=[1, 1, 1], periodic=[]), [0., 0., -1.]), True),
             ('line x<.5', hist(dict(kind='line', ndims=1, n=2, periodic=False), [-1.]), True),
             ('triangle x<.5', hist(dict(kind='unitsquare', ndims=2, etype='triangle', n=1), [-1., 0.]), True),
             ('square x<.5', hist(dict(kind='rect', ndims=2, shape=[1, 1], periodic=[]), [-1., 0.]), False)]
    bad, clean = [], []
    for name, h, expect in cases:
        ok, idx, probs, mech, r = _run_repro(h)
        if not ok:
            return None, f'monitors did not run on the {name} reproducer: {r.notes[:1]}'
        closure = [d for m, d in probs if m == 'boundary closure']
        if probs and not closure:
            return None, f'{name} fails differently: ' + '; '.join(f'{m}: {d}' for m, d in probs)[:300]
        if probs and not expect:
            return None, f'{name} (clean before the repair) fails: ' + probs[0][1][:200]
        if closure:
            bad.append(f'{name}: {closure[0][:140]}')
        else:
            clean.append(name)
    if bad:
        return True, 'exposed child faces of hierarchically refined trimmed elements are missing from the boundary: ' + ' | '.join(bad)
    return False, f'boundaries of hierarchically refined elements cut along child faces are closed ({clean})'


def repro_retrimmed_3d_mosaic():
    """one cube, trimmed by the product of two oblique planes (maxrefine 0), the complement trimmed again by a plane (maxrefine 0):
    vol(pos) + vol(base - pos) != vol(base); nutils' own Reference.check_edges reports the divergence failure for pos."""
    history = dict(version=1, ndims=3, mesh=dict(kind='rect', ndims=3, shape=[2, 1, 1], periodic=[]), geom=dict(kind='identity'),
                   ops=[dict(op='slice', ranges=[[0.34, 1.0], [0.25, 1.0], [0.25, 1.0]]),
                        dict(op='trim', levelset=dict(kind='product', planes=[dict(kind='plane', normal=[-0.45857182684234904, 0.10460597148587386, 0.8824791614287373], offset=-0.3539658553564752),
                                                                              dict(kind='plane', normal=[0.4712051227388746, 0.6909674169629693, 0.5482059476147302], offset=1.4294286983850455)], tag='repro'),
                             maxrefine=0, ndivisions=8, name='trim1', side='-'),
                        dict(op='trim', levelset=dict(kind='plane', normal=[0.20262794816285154, 0.597952009213375, -0.7754968145008724], offset=0.03850833414300592, tag='repro'),
                             maxrefine=0, ndivisions=8, name='trim2', side='-')])
    r = Result()
    idx, probs, mech = evaluate(history, r)
    if r.counters.get('monitor_errors') or r.counters.get('mesh_construction_failed') or r.counters.get('monitor/trim_partition', 0) < 2:
        return None, f'monitors did not run on the reproducer: {r.notes[:1]}'
    part = [d for m, d in probs if m == 'trim partitions the measure']
    if part and mech == KNOWN2:
        return True, 'cube.trim(plane*plane, maxrefine=0) complement .trim(plane, maxrefine=0): ' + part[0][:330]
    if probs:
        return None, 'reproducer fails differently: ' + '; '.join(f'{m}: {d}' for m, d in probs)[:400]
    return False, 'retrimmed 3-D element is partitioned exactly'


def repro_degenerate_mosaic_child():
    """perturbed triangle mesh of [0,3]^2, one trim (plane x + y/2 = 2.5, maxrefine=1, ndivisions=3), complement base - pos: one refined
    child is cut so close to its vertex that the binning leaves a full-volume mosaic in pos and a zero-volume mosaic in the complement,
    whose kept edge sliver stays in the parent's edge while its closing faces are dropped: the boundary of the complement is not closed."""
    history = dict(version=1, ndims=2, mesh=dict(kind='simplex', ndims=2, n=3, seed=1836087547, amp=0.25), geom=dict(kind='identity'),
                   ops=[dict(op='trim', levelset=dict(kind='plane', normal=[1.0, 0.5], offset=2.5, tag='repro'), maxrefine=1, ndivisions=3, name='trim1', side='-')])
    r = Result()
    idx, probs, mech = evaluate(history, r)
    if r.counters.get('monitor_errors') or r.counters.get('mesh_construction_failed') or not r.counters.get('monitor/closure_normal'):
        return None, f'monitors did not run on the reproducer: {r.notes[:1]}'
    closure = [d for m, d in probs if m == 'boundary closure']
    if closure and mech == KNOWN3:
        return True, 'triangles.trim(x+y/2-2.5, maxrefine=1, ndivisions=3), complement: ' + closure[0][:330]
    if probs:
        return None, 'reproducer fails differently: ' + '; '.join(f'{m}: {d}' for m, d in probs)[:400]
    return False, 'complement of the trimmed triangle mesh is closed'


REPRODUCERS = {KNOWN_FIXED1: repro_refined_trimmed_simplex, KNOWN: repro_refined_trimmed_childface, KNOWN2: repro_retrimmed_3d_mosaic,
              KNOWN3: repro_degenerate_mosaic_child}


# ------------------------------------------------------------------ finalize

def finalize(m, tier, seed):
    c = m.counters
    ops = {}
    for k, v in c.items():
        if k.startswith('ops/'):
            _, kind, status = k.split('/')
            ops.setdefault(kind, {})[status] = v
    cov = dict(evaluations=c.get('evaluations', 0), distinct_nontrivial=len(m.sets.get('distinct', ())), rule=RULE, samples=m.samples[:3],
               histories_clean=c.get('histories_clean', 0), violating_histories=c.get('violating_histories', 0),
               known_finding_histories=c.get('known_finding_histories', 0),
               steps_monitored=c.get('steps_monitored', 0), integrals=c.get('integrals', 0), comparisons=c.get('comparisons', 0), marginal=c.get('marginal', 0),
               operations=ops, rejected_operations=c.get('rejected_operations', 0), unsupported_operations=c.get('unsupported_operations', 0),
               operation_errors=c.get('operation_errors', 0), skipped_operations=c.get('skipped_operations', 0),
               monitor_errors=c.get('monitor_errors', 0), harness_exceptions=c.get('harness_exceptions', 0),
               refusal_signatures=sorted(m.sets.get('refusal_signatures', ()))[:60], unsupported_signatures=sorted(m.sets.get('unsupported_signatures', ()))[:30],
               operation_error_signatures=sorted(m.sets.get('operation_error_signatures', ()))[:30],
               monitor_error_signatures=sorted(m.sets.get('monitor_error_signatures', ()))[:30],
               unavailable={k[12:]: v for k, v in c.items() if k.startswith('unavailable/')},
               unavailable_signatures=sorted(m.sets.get('unavailable_signatures', ()))[:40],
               monitors={k[8:]: v for k, v in c.items() if k.startswith('monitor/')},
               mesh_kinds={k[5:]: v for k, v in c.items() if k.startswith('mesh/')}, dimensions={k[5:]: v for k, v in c.items() if k.startswith('dims/')},
               geometries={k[5:]: v for k, v in c.items() if k.startswith('geom/')}, topology_types=sorted(m.sets.get('topology_types', ())),
               scenarios={k[9:]: v for k, v in c.items() if k.startswith('scenario/')},
               known_findings={k[14:]: v for k, v in c.items() if k.startswith('known_finding/')},
               negated_trim={k: c.get(k, 0) for k in ('negated_trim_identical_to_complement', 'negated_trim_differs_from_complement', 'negated_trim_skipped_degenerate_levelset')},
               trimmed_faces=dict(examined=c.get('trimmed_faces_examined', 0), different_parts=c.get('trimmed_faces_different_parts', 0),
                                  smaller_on_lower_element=c.get('trimmed_faces_smaller_on_lower', 0), smaller_on_higher_element=c.get('trimmed_faces_smaller_on_higher', 0)),
               cut_slivers=dict(trims=c.get('trims_with_cut_slivers', 0), pieces=c.get('cut_sliver_pieces', 0)),
               trim=dict(maxrefine={k[15:]: v for k, v in c.items() if k.startswith('trim_maxrefine/')}, with_cut_elements=c.get('trims_with_cut', 0),
                         without_cut_elements=c.get('trims_without_cut', 0), cut_elements=c.get('trim_cut_elements', 0),
                         levelset_tags=sorted(m.sets.get('levelset_tags', ()))),
               elements_refined=c.get('elements_refined', 0), interfaces_seen=c.get('interfaces_seen', 0), interfaces_resolved=c.get('interfaces_resolved', 0),
               cases_skipped_deadline=c.get('cases_skipped_deadline', 0), slowest_case_s=m.maxima.get('slowest_case_s'))
    mon = cov['monitors']
    inc = None
    need = ['refine_elementwise', 'selection_elementwise', 'trim_partition', 'trim_elementwise', 'trim_cut_nonempty', 'closure_normal', 'closure_flux',
            'interfaces_resolved', 'face_ledger', 'trimmed_element_face_ledger', 'element_closure', 'connectivity', 'connectivity_centroids', 'connectivity_subset_model', 'connectivity_vs_interfaces',
            'trim_union', 'negated_trim', 'periodic_jumps']
    from vlib.runner import scaled
    floor = scaled(20 if tier == 'quick' else 200)
    opfloor = scaled(3 if tier == 'quick' else 20)
    if cov['evaluations'] < min(scaled(MINCASES[tier]), scaled(NCASES[tier])):
        inc = f"only {cov['evaluations']} of {NCASES[tier]} histories ran before the deadline"
    elif [k for k in need if mon.get(k, 0) < floor]:
        inc = 'monitors barely reached: ' + ', '.join(f'{k}={mon.get(k, 0)}' for k in need if mon.get(k, 0) < floor)
    elif [k for k in topogen.OP_KINDS if ops.get(k, {}).get('applied', 0) < opfloor]:
        inc = 'operation kinds (almost) never applied: ' + ', '.join(k for k in topogen.OP_KINDS if ops.get(k, {}).get('applied', 0) < opfloor)
    elif cov['monitor_errors'] + cov['harness_exceptions'] > 0.02 * cov['evaluations']:
        inc = f"{cov['monitor_errors']} monitor errors / {cov['harness_exceptions']} harness exceptions: {cov['monitor_error_signatures'][:3]}"
    elif cov['marginal'] > 0.005 * max(1, cov['comparisons']):
        inc = f"{cov['marginal']} of {cov['comparisons']} comparisons fell in the marginal band"
    elif sum(cov['scenarios'].values()) < scaled(15 if tier == 'quick' else 100):
        inc = f"periodic-slice scenarios barely sampled: {cov['scenarios']}"
    elif min(cov['trimmed_faces']['smaller_on_lower_element'], cov['trimmed_faces']['smaller_on_higher_element']) < scaled(4 if tier == 'quick' else 40):
        inc = f"trimmed faces whose two neighbours keep different parts barely reached: {cov['trimmed_faces']}"
    elif cov['dimensions'].get('3', 0) < scaled(10):
        inc = '3-D histories barely sampled'
    return dict(coverage=cov, inconclusive=inc)
