"""C02 — Optimised code generation is a faithful translation of the expression.

Oracle: the shadow numpy interpreter of the generating recipe.  Every program is
compiled and run under a matrix of compile configurations (_simplify, _optimize,
cache_const_intermediates, stats, maxprocs, NUTILS_DEBUG=evalf assertions); every
output is compared in structure, shape, dtype kind and value.  With the observer
hook (NUTILS_VERIF) the loop-free intermediates of the raw compile are compared
with the shadow value of the same node as well.  Generated scripts are captured
to report which code shapes (in-place add, add.at, nested/fused loops, locks,
first_run caching) were actually exercised.
"""

import traceback, warnings
import numpy
from vlib.runner import Result, rng_for
from vlib import tolerance, evgen, evmon, evfind

PROPERTY = 'C02'
LEVEL = 'exploration'
RULE = ('typed random evaluable DAGs and tuples of them (G-ev; nested/adjacent loops of equal or different lengths, shared subterms between '
        'outputs, scatter/gather chains, stack/concatenate of scattered terms) x compile configurations; non-trivial = >=3 inner nodes; '
        'distinct = SHA-1 of the generated script text')
ASSUMPTIONS = ['shadow numpy interpreter is the reference (self-tested; cross-checked by the raw un-optimised evaluation)',
               'programs whose simplification does not terminate are C01 events and are skipped here (counted)',
               'maxprocs>1 configurations only for programs with an outer loop, sampled']
BUDGET_S = {'quick': 120, 'thorough': 1600}
NCASES = {'quick': 1500, 'thorough': 48000}
CHUNK = 40

# (name, simplify, optimize, cache, stats, nprocs, debug_evalf, ncalls)
CONFIGS = [
    ('raw', False, False, False, None, 1, False, 1),
    ('simplify', True, False, False, None, 1, False, 1),
    ('optimize', False, True, False, None, 1, False, 1),
    ('default', True, True, False, None, 1, False, 1),
    ('cache', True, True, True, None, 1, False, 2),
    ('cache-raw', False, False, True, None, 1, False, 2),
    ('cache-after-failed-call', True, True, True, None, 1, False, -1),   # first call lacks an argument and raises; the next one must be right
    ('stats', True, True, False, 'log', 1, False, 1),
    ('debug', True, True, True, None, 1, True, 1),
    ('debug-raw', False, False, False, None, 1, True, 1),
    ('par3', True, True, True, None, 3, False, 1),
    ('par2-raw', False, False, False, None, 2, False, 1),
]


def plan(tier, seed):
    from vlib.runner import scaled
    n = scaled(NCASES[tier])
    return [dict(start=i, stop=min(n, i + CHUNK)) for i in range(0, n, CHUNK)]


def setup():
    import treelog
    treelog.set(treelog.NullLog()).__enter__()
    evmon.install_step_counter()
    evmon.install_rule_counters()
    evmon.install_script_capture()
    evmon.install_uninitialised_memory_poison()
    warnings.simplefilter('ignore')


OBSERVED = []


def _observer(e, v):
    OBSERVED.append((e, v))


def run_config(cfg, outs, av):
    from nutils import evaluable as ev, parallel, debug_flags
    name, simplify, optimize, cache, stats, nprocs, debug, ncalls = cfg
    old = debug_flags.evalf
    debug_flags.evalf = debug
    try:
        with warnings.catch_warnings():
            warnings.simplefilter('ignore')
            with parallel.maxprocs(nprocs), numpy.errstate(all='ignore'):
                f = ev.compile(outs, _simplify=simplify, _optimize=optimize, cache_const_intermediates=cache, stats=stats)
                r = None
                if ncalls < 0:
                    ncalls = 1
                    for drop in sorted(av)[:2]:
                        try:
                            f({k: v for k, v in av.items() if k != drop})
                        except Exception:
                            pass
                for _ in range(ncalls):
                    r = f(av)
                return r
    finally:
        debug_flags.evalf = old


def check_case(case, seed_key, res, tier):
    from nutils import evaluable as ev
    res.count('evaluations')
    evmon.reset_steps()
    try:
        with evmon.wall(30):
            built, outs = evgen.build(case)
            simp = tuple(o.simplified for o in outs)
    except (AssertionError, ValueError, TypeError, IndexError):
        res.count('rejected_constructions')
        return
    except (evmon.StepBudget, evmon.WallNominate, RecursionError, Exception) as e:
        res.count('skipped_c01_event')   # simplification itself misbehaves: C01's event, not C02's
        return
    rng = rng_for(*seed_key, 'args')
    r = evgen.in_domain_args(case, rng)
    if r is None:
        res.count('out_of_domain')
        return
    av, _, _ = r
    ref, allvals, scale = evgen.shadow(case, av, want_nodes=True)
    hasloop = any(d['op'] in ('loop_sum', 'loop_concat') for d in case['nodes'])
    if evgen.ninner(case) >= 3:
        nontrivial = True
    else:
        nontrivial = False
    nscripts0 = len(evmon.SCRIPT_HASHES)
    for cfg in CONFIGS:
        name = cfg[0]
        if cfg[5] > 1 and not (hasloop and seed_key[-1] % 3 == 0):
            continue
        if name in ('cache-raw', 'debug-raw', 'optimize') and seed_key[-1] % 2:
            continue
        res.count('config/' + name)
        evmon.reset_steps()
        del OBSERVED[:]
        observe = name == 'raw' and ev._verif_observers is not None
        if observe:
            ev._verif_observers.append(_observer)
        try:
            with evmon.wall(60):
                got = run_config(cfg, outs, av)
        except evmon.WallNominate:
            res.count('inconclusive_wall')
            continue
        except evmon.StepBudget as e:
            res.violation('optimisation pass exceeds the rewrite budget', pack(case, av, name), str(e) + ' | hot rules: ' + ','.join(evmon.hot_rules()))
            return
        except Exception as e:
            tb = traceback.format_exc()
            res.violation('compile or execution raised', pack(case, av, name), f'config {name}: {type(e).__name__}: {str(e)[:300]}\n{tb[-700:]}',
                          mechanism=evfind.classify_c02(case, name, e, tb))
            return
        finally:
            if observe:
                ev._verif_observers.remove(_observer)
        # ---- structure
        if not isinstance(got, tuple) or len(got) != len(ref):
            res.violation('result structure differs', pack(case, av, name), f'config {name}: got {type(got).__name__} of length {len(got) if hasattr(got, "__len__") else "?"}, expected tuple of {len(ref)}')
            return
        for j, (g, rf) in enumerate(zip(got, ref)):
            if not isinstance(g, numpy.ndarray) and not numpy.isscalar(g):
                res.violation('result is not an array', pack(case, av, name), f'config {name}: output {j} is {type(g).__name__}')
                return
            v, det = tolerance.compare(g, rf, scale)
            res.count('compare/' + v)
            if v == tolerance.VIOLATION:
                # re-run the same configuration: a mismatch that does not reproduce is recorded as such (with the case), not alarmed
                try:
                    again = run_config(cfg, outs, av)
                    v2, det2 = tolerance.compare(again[j], rf, scale)
                except Exception as e:
                    v2, det2 = tolerance.VIOLATION, f'second run raised {type(e).__name__}'
                if v2 != tolerance.VIOLATION:
                    res.count('nonreproducible_mismatch')
                    try:
                        ref2, _ = evgen.shadow(case, av)
                        shadow_stable = all(numpy.array_equal(a, b, equal_nan=True) if a.dtype.kind in 'fc' else numpy.array_equal(a, b) for a, b in zip(ref, ref2))
                    except Exception:
                        shadow_stable = None
                    res.note(f'NON-REPRODUCIBLE mismatch config {name} output {j}: {det} | shadow recomputation equal: {shadow_stable} | case index {seed_key[-1]} | ' + evgen.skeleton(case)[:200])
                    res.sample(dict(nonreproducible=True, config=name, index=seed_key[-1], desc=evgen.describe(case), detail=det), cap=6)
                    continue
                res.violation('compiled function returns a different value', pack(case, av, name), f'config {name}: output {j}: {det}',
                              mechanism=evfind.classify_c02(case, name, None, det))
                return
        # ---- intermediates (raw config): every loop-free recipe node that materialised
        if observe:
            byid = {}
            for e, v in OBSERVED:
                byid.setdefault(id(e), (e, v))
            nobs = 0
            for i, b in enumerate(built):
                d = case['nodes'][i]
                if d['loops'] or id(b) not in byid or (i, ()) not in allvals:
                    continue
                e, v = byid[id(b)]
                nobs += 1
                vv, det = tolerance.compare(v, allvals[(i, ())], scale)
                if vv == tolerance.VIOLATION:
                    res.violation('intermediate value differs', pack(case, av, name), f'node n{i} ({d["op"]}): {det}')
                    return
            res.count('intermediate_observations', nobs)
    new = len(evmon.SCRIPT_HASHES) - nscripts0
    if nontrivial:
        res.count('nontrivial_cases')


def pack(case, av, cfg):
    return dict(case=case, args={k: evgen.encode(v) for k, v in av.items()}, config=cfg, desc=evgen.describe(case))


def gen_case(seed, i):
    rng = rng_for(seed, 'c02', i)
    nloops = int(rng.choice([0, 1, 1, 2, 2, 3]))
    return evgen.generate(rng, size=int(rng.integers(5, 26)), profile=str(rng.choice(['all', 'all', 'float'])), nloops=nloops)


def run_units(units, ctx):
    evgen.self_test()
    setup()
    res = Result()
    for u in units:
        for i in range(u['start'], u['stop']):
            if ctx.expired():
                res.count('skipped_deadline')
                continue
            case = gen_case(ctx.seed, i)
            check_case(case, (ctx.seed, 'c02', i), res, ctx.tier)
            if i % 499 == 0:
                res.sample(dict(index=i, desc=evgen.describe(case)))
    res.count('poisoned_allocations', evmon.POISON_COUNT[0])
    for h in evmon.SCRIPT_HASHES:
        res.add('scripts', h)
    for k, v in evmon.SCRIPT_FEATURES.items():
        res.count('feature/' + k, v)
    for k, v in evmon.RULES_FIRED.items():
        if k.endswith('._optimized_for_numpy'):
            res.count('optrule_fired/' + k, v)
    return res


def replay(case):
    evgen.self_test()
    setup()
    res = Result()
    if 'reproducer' in case:
        return []
    check_case(case['case'], (0, 'replay', 0), res, 'thorough')
    return res.violations


REPRODUCERS = evfind.C02_REPRODUCERS


def finalize(m, tier, seed):
    c = m.counters
    cov = dict(evaluations=c.get('evaluations', 0), distinct_nontrivial=len(m.sets.get('scripts', ())), rule=RULE, samples=m.samples[:4],
               programs_nontrivial=c.get('nontrivial_cases', 0), configs={k[7:]: v for k, v in c.items() if k.startswith('config/')},
               comparisons={k[8:]: v for k, v in c.items() if k.startswith('compare/')},
               distinct_scripts=len(m.sets.get('scripts', ())), script_features={k[8:]: v for k, v in c.items() if k.startswith('feature/')},
               optimisation_rules_fired={k[14:]: v for k, v in c.items() if k.startswith('optrule_fired/')},
               intermediate_observations=c.get('intermediate_observations', 0), skipped_c01_event=c.get('skipped_c01_event', 0),
               out_of_domain=c.get('out_of_domain', 0), rejected_constructions=c.get('rejected_constructions', 0),
               inconclusive_wall=c.get('inconclusive_wall', 0), skipped_deadline=c.get('skipped_deadline', 0),
               nonreproducible_mismatch=c.get('nonreproducible_mismatch', 0), poisoned_allocations=c.get('poisoned_allocations', 0))
    inc = None
    from vlib.runner import scaled
    if cov['evaluations'] < 0.5 * scaled(NCASES[tier]):
        inc = f"only {cov['evaluations']} programs ran before the deadline"
    elif cov['intermediate_observations'] == 0:
        inc = 'observer hook never fired (NUTILS_VERIF guard off or hook missing)'
    elif not all(cov['script_features'].get(k) for k in ('iadd_out', 'add_at', 'for', 'first_run')):
        inc = 'generated scripts never showed one of: in-place add, add.at, loops, first_run caching'
    elif cov['nonreproducible_mismatch']:
        inc = f"{cov['nonreproducible_mismatch']} mismatch(es) did not reproduce on an immediate second run (nondeterminism in the harness or the library; see notes)"
    elif cov['configs'].get('par3', 0) < 5:
        inc = 'parallel configuration barely exercised'
    return dict(coverage=cov, inconclusive=inc)
