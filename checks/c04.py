"""C04 — Symbolic derivatives equal the true derivatives.

Oracle independent of nutils' evaluation: the Jacobian of the SHADOW numpy
function of the generating recipe, by 6th-order central differences at two step
sizes (the two must agree, else the point is noise and is skipped); points where
any stencil point leaves the domain or crosses a kink of abs/sign/min/max/mod/
comparisons (detected by a discrete branch trace of the shadow) are skipped and
counted.  The real `evaluable.derivative(expr, arg)` is evaluated raw and through
the default pipeline.  Second derivatives are checked as derivatives of the
(already verified) first derivative.  Integer/boolean expressions must have an
identically zero derivative of the right shape.
"""

import traceback, warnings
import numpy
from vlib.runner import Result, rng_for, scaled
from vlib import tolerance, evgen, evmon

PROPERTY = 'C04'
LEVEL = 'exploration'
RULE = ('G-ev programs (float/complex valued, compositions through Inflate/Take/LoopSum/Polyval/Legendre/Power/Inverse/Determinant/Product/'
        'Choose/Ravel/einsum/FEM-assembly composites, shared subterms) x every real argument they depend on; non-trivial = >=3 inner nodes and a '
        'non-zero reference Jacobian; distinct = (operator skeleton, argument)')
ASSUMPTIONS = ['reference Jacobian = 6th-order central differences of the shadow numpy function, accepted only if step sizes 1e-2 and 5e-3 agree to 1e-7 relative',
               'points within 3h of a kink (branch trace changes across the stencil) are excluded by construction',
               'pass <= 1e-6*scale, violation >= 1e-4*scale']
BUDGET_S = {'quick': 110, 'thorough': 1500}
NCASES = {'quick': 1800, 'thorough': 50000}
CHUNK = 30
H1, H2 = 1e-2, 5e-3
W = numpy.array([-1., 9., -45., 0., 45., -9., 1.]) / 60.


def plan(tier, seed):
    n = scaled(NCASES[tier])
    units = [dict(kind='gev', start=i, stop=min(n, i + CHUNK)) for i in range(0, n, CHUNK)]
    nc = scaled(400 if tier == 'quick' else 12000)
    units += [dict(kind='custom', start=i, stop=min(nc, i + 25)) for i in range(0, nc, 25)]
    return units


def custom_case(seed, i, res):
    """user-defined operations (function.Custom.partial_derivative plumbing) composed with numpy-API operations"""
    from nutils import function
    from vlib import c04_custom as cc
    rng = rng_for(seed, 'c04custom', i)
    n = int(rng.integers(1, 4))
    tree = cc.gen_tree(rng, int(rng.integers(1, 4)), n)
    ops = custom_case.ops = getattr(custom_case, 'ops', None) or cc.make_ops()
    u, w = function.Argument('u', (n,)), function.Argument('w', (n,))
    uv, wv = rng.uniform(-1.2, 1.2, size=n), rng.uniform(-1.2, 1.2, size=n)
    case = dict(custom=tree, n=n, index=i, u=uv.tolist(), w=wv.tolist())
    res.count('custom/cases')
    f = cc.build(tree, ops, u, w)
    if not isinstance(f, function.Array) or not cc.uses(tree):
        res.count('custom/trivial')
        return case
    val = function.eval(f, arguments=dict(u=uv, w=wv))
    refval = cc.ref(tree, uv, wv)
    scale = max(1., float(numpy.abs(refval).max()))
    if tolerance.compare(val, refval, scale)[0] == tolerance.VIOLATION:
        res.violation('user-defined operation evaluates to a different value', case, f'{val} != {refval}')
        return case
    for name, x0, other in (('u', uv, wv), ('w', wv, uv)):
        if name not in f.arguments:
            continue
        D = function.eval(function.derivative(f, name), arguments=dict(u=uv, w=wv))
        Jref = cc.fd((lambda x: cc.ref(tree, x, other)) if name == 'u' else (lambda x: cc.ref(tree, other, x)), x0)
        sc = max(1., float(numpy.abs(Jref).max()), scale)
        res.count('custom/jacobians_compared')
        if numpy.abs(Jref).max() > 1e-9:
            res.count('custom/jacobians_nonzero')
            res.add('distinct', 'custom:' + repr(_skel(tree)) + name)
        v, det = tolerance.compare(D, Jref, sc, rtol_pass=1e-6, rtol_viol=1e-4)
        if v == tolerance.VIOLATION:
            res.violation('derivative of a user-defined operation differs from the Jacobian of its numpy meaning', case, f'd/d{name}: {det}')
            return case
    return case


def _skel(tree):
    return [tree[0]] + [_skel(x) for x in tree[1:] if isinstance(x, list) and x and isinstance(x[0], str)]


def setup():
    import treelog
    treelog.set(treelog.NullLog()).__enter__()
    evmon.install_step_counter()
    evmon.install_rule_counters()
    warnings.simplefilter('ignore')


class Skip(Exception):
    pass


def fd_jacobian(fun, x, h):
    """fun: array -> array.  6th order central differences.  Returns J with shape out.shape + x.shape."""
    base_trace = []
    f0 = fun(x, base_trace)
    J = numpy.zeros(f0.shape + x.shape, dtype=complex if f0.dtype.kind == 'c' else float)
    for idx in numpy.ndindex(*x.shape):
        acc = 0
        for k, w in zip(range(-3, 4), W):
            if w == 0:
                continue
            xp = x.copy()
            xp[idx] += k * h
            tr = []
            fk = fun(xp, tr)
            if tr != base_trace:
                raise Skip('kink')
            acc = acc + w * fk
        J[(Ellipsis,) + idx] = acc / h
    return J, f0


def reference_jacobian(case, av, name, outidx):
    def fun(x, trace):
        a = dict(av)
        a[name] = x
        try:
            outs, _ = evgen.shadow(case, a, trace=trace, kink=4 * H1)
        except evgen.OutOfDomain:
            raise Skip('domain')
        return numpy.asarray(outs[outidx])
    x = av[name].astype(float)
    J1, f0 = fd_jacobian(fun, x, H1)
    J2, _ = fd_jacobian(fun, x, H2)
    scale = max(1., float(numpy.abs(J1).max()) if J1.size else 1., float(numpy.abs(f0).max()) if f0.size else 1.)
    if J1.size and numpy.abs(J1 - J2).max() > 1e-7 * scale:
        raise Skip('fd-noise')
    return J2, scale


def check_case(case, seed_key, res, tier):
    from nutils import evaluable as ev
    res.count('evaluations')
    evmon.reset_steps()
    try:
        with evmon.wall(30):
            built, outs = evgen.build(case)
    except (AssertionError, ValueError, TypeError, IndexError):
        res.count('rejected_constructions')
        return
    except (evmon.StepBudget, evmon.WallNominate, RecursionError, Exception):
        res.count('skipped_c01_event')
        return
    rng = rng_for(*seed_key, 'args')
    r = evgen.in_domain_args(case, rng)
    if r is None:
        res.count('out_of_domain')
        return
    av, ref, _ = r
    argnodes = {d['p']['name']: (i, d) for i, d in enumerate(case['nodes']) if d['op'] == 'arg'}
    for j, o in enumerate(outs):
        okind = case['nodes'][case['outputs'][j]]['kind']
        names = sorted(a.name for a in o.arguments if isinstance(a, ev.Argument))
        for name in names:
            ai, ad = argnodes[name]
            if ad['kind'] != 'f' or 'range' in ad['p']:
                continue
            target = built[ai]
            res.count('pairs')
            # ---- the real symbolic derivative
            try:
                with evmon.wall(20 if tier == 'quick' else 60):
                    D = ev.derivative(o, target)
            except evmon.WallNominate:
                res.count('inconclusive_wall')
                continue
            except (evmon.StepBudget, RecursionError) as e:
                res.count('skipped_c01_event')
                continue
            except NotImplementedError as e:
                res.count('refused_not_implemented')      # documented refusal, e.g. 'derivative not defined for Mod'
                res.add('refusals', str(e)[:80])
                continue
            except Exception as e:
                tb = traceback.format_exc()
                if 'caught in a loop' in str(e):
                    res.count('skipped_c01_event')
                    continue
                res.violation('derivative() raised', pack(case, av, name, j), f'{type(e).__name__}: {str(e)[:300]}\n{tb[-700:]}')
                return
            expshape = tuple(case['nodes'][case['outputs'][j]]['shape']) + tuple(ad['shape'])
            if D.ndim != len(expshape) or D.dtype != o.dtype:
                res.violation('derivative has wrong ndim/dtype', pack(case, av, name, j), f'ndim {D.ndim} (expected {len(expshape)}), dtype {D.dtype.__name__} (expected {o.dtype.__name__})')
                return
            vals = {}
            for cfg, simplify, optimize in (('raw', False, False), ('default', True, True)):
                try:
                    with evmon.wall(20 if tier == 'quick' else 60):
                        vals[cfg] = numpy.asarray(evmon.evaluate(D, av, simplify=simplify, optimize=optimize))
                except evmon.WallNominate:
                    res.count('inconclusive_wall')
                except (evmon.StepBudget, RecursionError):
                    res.count('skipped_c01_event')
                except Exception as e:
                    if 'caught in a loop' in str(e):
                        res.count('skipped_c01_event')
                        continue
                    res.violation('evaluating the derivative raised', pack(case, av, name, j), f'{cfg}: {type(e).__name__}: {str(e)[:300]}')
                    return
            if not vals:
                continue
            for cfg, v in vals.items():
                if v.shape != expshape:
                    res.violation('derivative has wrong shape', pack(case, av, name, j), f'{cfg}: {v.shape}, expected expr.shape+arg.shape = {expshape}')
                    return
            if okind in 'bi':
                res.count('integer_expressions')
                for cfg, v in vals.items():
                    if v.size and numpy.abs(v).max() != 0:
                        res.violation('derivative of an integer/boolean expression is not zero', pack(case, av, name, j), f'{cfg}: max |D| = {numpy.abs(v).max()}')
                        return
                continue
            # ---- reference Jacobian from the shadow
            try:
                Jref, scale = reference_jacobian(case, av, name, j)
            except Skip as s:
                res.count('skipped/' + str(s))
                continue
            res.count('jacobians_compared')
            res.count('jacobian_entries', int(Jref.size))
            nz = bool(Jref.size and numpy.abs(Jref).max() > 1e-9)
            if nz:
                res.count('jacobians_nonzero')
                if evgen.ninner(case) >= 3:
                    res.add('distinct', evgen.skeleton(case)[:400] + '|' + name + '|' + str(j))
            for cfg, v in vals.items():
                if cfg == 'raw' and v.dtype.kind in 'fc' and not numpy.isfinite(v).all() and 'default' not in vals:
                    # the standard pipeline did not finish within its logical/wall budget (explosive simplification: C01's business), so
                    # whether the non-finite entries are 0*log(0) terms that it removes cannot be told: no verdict on this pair
                    res.count('raw_nonfinite_default_unavailable')
                    continue
                if cfg == 'raw' and v.dtype.kind in 'fc' and not numpy.isfinite(v).all() and 'default' in vals and numpy.isfinite(vals['default']).all():
                    # the un-simplified derivative expression contains 0*log(negative)-like terms that the standard pipeline removes;
                    # the property is about the derivative as evaluated by the standard pipeline
                    res.count('raw_nonfinite_default_finite')
                    continue
                verdict, det = tolerance.compare(v, Jref.astype(v.dtype) if v.dtype.kind != 'c' and Jref.dtype.kind != 'c' else Jref, scale, rtol_pass=1e-6, rtol_viol=1e-4, check_kind=False)
                res.count('compare/' + verdict)
                if verdict == tolerance.VIOLATION:
                    res.violation('symbolic derivative differs from the Jacobian of the numpy meaning', pack(case, av, name, j), f'{cfg}: d(output {j})/d({name}): {det}',
                                  mechanism=classify(case, av, v))
                    return
            for d in case['nodes']:
                res.count('op/' + (d['op'] + (':' + d['p']['f'] if 'f' in d['p'] else '')))
            # ---- second derivative: derivative of the (verified) first derivative, FD of nutils' own first derivative
            if tier == 'thorough' and seed_key[-1] % 3 == 0 and Jref.size <= 64:
                for name2 in names:
                    a2i, a2d = argnodes[name2]
                    if a2d['kind'] != 'f' or 'range' in a2d['p'] or int(numpy.prod(a2d['shape'] or [1])) > 6:
                        continue
                    try:
                        with evmon.wall(60):
                            D2 = ev.derivative(D, built[a2i])
                            v2 = numpy.asarray(evmon.evaluate(D2, av, simplify=True, optimize=True))
                            f1 = ev.compile(D)

                            def fun(x, trace, _n=name2):
                                a = dict(av)
                                a[_n] = x
                                try:
                                    evgen.shadow(case, a, trace=trace, kink=4 * H1)
                                except evgen.OutOfDomain:
                                    raise Skip('domain')
                                with numpy.errstate(all='ignore'):
                                    return numpy.asarray(f1(a))
                            J1, _ = fd_jacobian(fun, av[name2].astype(float), H1)
                            J2, _ = fd_jacobian(fun, av[name2].astype(float), H2)
                    except Skip as s:
                        res.count('skipped2/' + str(s))
                        continue
                    except (evmon.WallNominate, evmon.StepBudget, RecursionError):
                        res.count('skipped_c01_event')
                        continue
                    except NotImplementedError as e:
                        res.count('refused_not_implemented')      # explicit refusal (no derivative is produced), e.g. 'derivative not defined for PolyGrad'
                        res.add('refusals', 'second: ' + str(e)[:80])
                        continue
                    except Exception as e:
                        if 'caught in a loop' in str(e):
                            continue
                        res.violation('second derivative raised', pack(case, av, name, j), f'{type(e).__name__}: {str(e)[:300]}')
                        return
                    if not (numpy.isfinite(J1).all() and numpy.isfinite(J2).all()):
                        # the FIRST derivative is non-finite at a stencil point: no reference for the second (the first-derivative monitor owns that event)
                        res.count('skipped2/first-derivative-nonfinite-on-stencil')
                        continue
                    sc2 = max(1., scale, float(numpy.abs(J1).max()) if J1.size else 1.)
                    if J1.size and numpy.abs(J1 - J2).max() > 1e-6 * sc2:
                        res.count('skipped2/fd-noise')
                        continue
                    res.count('second_derivatives_compared')
                    verdict, det = tolerance.compare(v2, J2, sc2, rtol_pass=1e-5, rtol_viol=1e-3, check_kind=False)
                    if verdict == tolerance.VIOLATION:
                        res.violation('second derivative differs from the derivative of the first', pack(case, av, name, j), f'd2(output {j})/d({name})d({name2}): {det}',
                                      mechanism=classify(case, av, v2))
                        return


DET_SINGULAR = 'C04-determinant-derivative-singular'


def classify(case, av, v):
    """known mechanism: Determinant._derivative = det * inverse^T is NaN where the matrix is singular (det itself is smooth there).
    Predicate: the wrong result is NON-FINITE and some determinant node of the case has a (numerically) singular operand at this assignment."""
    if numpy.isfinite(v).all():
        return None
    try:
        _, allvals, _ = evgen.shadow(case, av, want_nodes=True)
    except Exception:
        return None
    for (i, env), val in allvals.items():
        d = case['nodes'][i]
        if d['op'] == 'detinv' and d['p']['f'] == 'det':
            for (i2, env2), m in allvals.items():
                if i2 == d['args'][0] and m.ndim >= 2 and m.shape[-1] >= 1:
                    with numpy.errstate(all='ignore'):
                        c = numpy.linalg.cond(m)
                    if not numpy.isfinite(c).all() or numpy.max(c) > 1e8:
                        return DET_SINGULAR
    return None


def repro_det_singular():
    from nutils import evaluable as ev
    A = ev.Argument('A', (ev.constant(2), ev.constant(2)), float)
    D = ev.derivative(ev.determinant(A), A)
    with numpy.errstate(all='ignore'), warnings.catch_warnings():
        warnings.simplefilter('ignore')
        r = ev.eval_once(D, arguments=dict(A=numpy.array([[1., 2.], [2., 4.]])))
    ok = numpy.isfinite(r).all() and numpy.allclose(r, [[4., -2.], [-2., 1.]])
    return (not ok), f'd det(A)/dA at the singular A=[[1,2],[2,4]] -> {r.tolist()} (true Jacobian: cofactor matrix [[4,-2],[-2,1]])'


def pack(case, av, name, j):
    return dict(case=case, args={k: evgen.encode(v) for k, v in av.items()}, wrt=name, output=j, desc=evgen.describe(case))


def gen_case(seed, i):
    rng = rng_for(seed, 'c04', i)
    return evgen.generate(rng, size=int(rng.integers(4, 20)), profile=str(rng.choice(['float', 'float', 'all'])), maxdim=2)


def run_units(units, ctx):
    evgen.self_test()
    setup()
    res = Result()
    for u in units:
        for i in range(u['start'], u['stop']):
            if ctx.expired():
                res.count('skipped_deadline')
                continue
            if u.get('kind') == 'custom':
                try:
                    c = custom_case(ctx.seed, i, res)
                    if i % 150 == 0:
                        res.sample(c, cap=5)
                except Exception as e:
                    res.violation('user-defined operation: derivative or evaluation raised', dict(custom_index=i), traceback.format_exc()[-800:])
                continue
            case = gen_case(ctx.seed, i)
            check_case(case, (ctx.seed, 'c04', i), res, ctx.tier)
            if i % 449 == 0:
                res.sample(dict(index=i, desc=evgen.describe(case)))
    for k, v in evmon.RULES_FIRED.items():
        if k.endswith('._derivative'):
            res.count('derivrule/' + k, v)
    return res


def replay(case):
    evgen.self_test()
    setup()
    res = Result()
    if 'case' in case:
        check_case(case['case'], (0, 'replay', 0), res, 'thorough')
    elif 'custom' in case or 'custom_index' in case:
        custom_case(case.get('seed', 0), case.get('index', case.get('custom_index', 0)), res)
    return res.violations


def repro_bool_derivative():
    from nutils import evaluable as ev
    a = ev.Argument('a', (ev.constant(3),), float)
    f = ev.product(ev.Greater(a, ev.zeros_like(a)), 0)
    try:
        D = ev.derivative(f, a)
        r = ev.eval_once(D, arguments=dict(a=numpy.array([1., 2., 3.])))
    except Exception as e:
        return True, f'derivative(all(a > 0), a) raised {type(e).__name__}: {e}'
    return bool(numpy.asarray(r).any()), f'derivative(all(a > 0), a) = {numpy.asarray(r).tolist()}'


def repro_power_repeated():
    from nutils import evaluable as ev
    a = ev.Argument('a', (ev.constant(3),), float)
    av = dict(a=numpy.array([0., 1., 2.]))
    bad = []
    for p, order, expect in ((1., 2, 0.), (2., 3, 0.), (2., 2, 2.)):
        d = ev.Power(a, ev.InsertAxis(ev.constant(p), ev.constant(3)))
        for _ in range(order):
            d = ev.derivative(d, a)
        with numpy.errstate(all='ignore'), warnings.catch_warnings():
            warnings.simplefilter('ignore')
            r = numpy.asarray(ev.eval_once(d, arguments=av))
        diag = r[(numpy.arange(3),) * r.ndim]
        if not numpy.isfinite(r).all() or not numpy.allclose(diag, expect):
            bad.append(f'd^{order}(a**{p:g})/da^{order} at a=[0,1,2] -> diagonal {diag.tolist()} (expected {expect:g})')
    return bool(bad), '; '.join(bad) or 'repeated derivatives of a**1 and a**2 (broadcast constant exponent) are finite and right at a=0'


REPRODUCERS = {'C04-power-repeated-derivative-nan-at-zero': repro_power_repeated, DET_SINGULAR: repro_det_singular, 'C04-bool-int-expression-derivative-raises': repro_bool_derivative}


def finalize(m, tier, seed):
    c = m.counters
    cov = dict(evaluations=c.get('evaluations', 0), distinct_nontrivial=len(m.sets.get('distinct', ())), rule=RULE, samples=m.samples[:4],
               pairs=c.get('pairs', 0), jacobians_compared=c.get('jacobians_compared', 0), jacobians_nonzero=c.get('jacobians_nonzero', 0),
               jacobian_entries=c.get('jacobian_entries', 0), integer_expressions=c.get('integer_expressions', 0),
               second_derivatives_compared=c.get('second_derivatives_compared', 0),
               comparisons={k[8:]: v for k, v in c.items() if k.startswith('compare/')},
               skipped={k[8:]: v for k, v in c.items() if k.startswith('skipped/')}, skipped_second={k[9:]: v for k, v in c.items() if k.startswith('skipped2/')},
               derivative_rules_fired={k[10:]: v for k, v in c.items() if k.startswith('derivrule/')},
               operator_kinds_under_derivative=len([k for k in c if k.startswith('op/')]),
               skipped_c01_event=c.get('skipped_c01_event', 0), out_of_domain=c.get('out_of_domain', 0), inconclusive_wall=c.get('inconclusive_wall', 0),
               skipped_deadline=c.get('skipped_deadline', 0), refused_not_implemented=c.get('refused_not_implemented', 0), refusals=sorted(m.sets.get('refusals', ())),
               raw_nonfinite_default_finite=c.get('raw_nonfinite_default_finite', 0), raw_nonfinite_default_unavailable=c.get('raw_nonfinite_default_unavailable', 0),
               custom_operations={k[7:]: v for k, v in c.items() if k.startswith('custom/')},
               not_covered=['function.derivative of general function arrays (lowering, replace, linearize) is exercised by C13; here function.Custom operations only'])
    inc = None
    if cov['evaluations'] < 0.5 * scaled(NCASES[tier]):
        inc = f"only {cov['evaluations']} programs ran before the deadline"
    elif cov['jacobians_nonzero'] < 0.1 * cov['evaluations']:
        inc = 'too few non-zero Jacobians compared'
    elif cov['custom_operations'].get('jacobians_nonzero', 0) < 20:
        inc = 'too few user-defined-operation Jacobians compared'
    elif len(cov['derivative_rules_fired']) < 25:
        inc = f"only {len(cov['derivative_rules_fired'])} _derivative rules exercised"
    return dict(coverage=cov, inconclusive=inc)
