"""C19 — Expression strings mean their index-notation reading.

Monitor shape: two oracles around the real `'expr' @ ns` / `ns.attr_ij = 'expr'`
of nutils.expression_v2 and nutils.expression_v1.

(1) generator oracle: random syntax trees are rendered to strings following the
    documented grammar and evaluated independently with numpy.einsum on the
    numpy values of the namespace variables (per sample point for namespaces
    with a geometry: analytic gradients of polynomial fields, opposite-side
    values for jump/mean); nutils must accept the string and return the same
    array (values, shape, axis order: alphabetical for `@`, attribute order for
    assignment).
(2) reference recogniser (vlib/c19_rec.py, v2 grammar; vlib/c19_v1.py lexical
    rules for v1): every generated string and a sample of its single-character
    corruptions is classified valid(value) / invalid / unclassified; invalid
    strings must be rejected with the module's ExpressionSyntaxError (or the
    documented AttributeError on the assignment side) and never evaluate;
    valid ones must evaluate to the recogniser's value; for unclassified ones
    only "no undocumented exception type escapes from the expression module"
    is demanded.
"""

import re, json, hashlib, traceback
import numpy
from vlib.runner import Result, rng_for
from vlib import tolerance
from vlib import c19_core as core, c19_gen as gen, c19_rec as rec, c19_v1 as v1

PROPERTY = 'C19'
LEVEL = 'exploration'
RULE = ('random namespaces (3-8 variables of ndim 0-3, axis lengths 2-4, functions generating 0-2 axes; 30% with a geometry: '
        'interior / boundary / interface sample of an affinely mapped rectilinear mesh with polynomial and piecewise constant fields); '
        '4 random syntax trees per namespace (depth <= 5: numbers, variables with indices / numerals / traces, products, one fraction, '
        '+/-, scopes, ^int and ^(scalar), calls with generated axes, gradients, normals, jump/mean/opposite; v1: also _,i gradients, n_i, '
        'delta/$, stacks, multi-argument / generating / consuming calls) rendered to strings; each string is evaluated through `@` and through '
        'attribute assignment with permuted indices and compared with numpy.einsum on the tree; then index / name edits on the tree, '
        're-use of an already summed index outside the expression, and N single-character corruptions (delete / insert / replace / '
        'transpose over the grammar alphabet plus the names in use) are classified by an independent recogniser (v2: from the string '
        'alone; v1: index analyser with length unification on edited trees, lexical rules on corrupted strings) and compared with the '
        'outcome of nutils. non-trivial = at least 2 operators (products, sums, fractions, powers, '
        'calls, traces, numerals, jump/mean); distinct = SHA-1 of (version, string)')
ASSUMPTIONS = ['numpy.einsum on the namespace values is the reference meaning of an index-notation tree',
               'floats compared with vlib.tolerance inside a comparison domain (finite, |intermediates| < 1e6, denominators and bases of '
               'negative powers away from 0, non-integer powers of positive bases); integer^negative-integer is excluded (numpy refuses it)',
               'where the module docstring is silent (exponent forms other than int / parenthesised scope, numbers such as 1e3 / 01 / 1., '
               'upper case indices, trailing underscore) strings are unclassified and only the exception-type clause is checked',
               'extra / leading / trailing spaces are read as a single separator (pinned by the repository tests)',
               'exceptions raised outside the expression modules (nutils.function refusing an argument) are counted, not judged',
               'v1 character corruptions are classified only by lexical rules (unbalanced brackets, unknown symbols); everything else in v1 '
               'is unclassified (substitutions, ?argument shape inference, omitted indices); v1 rule violations are exercised through '
               'index / name edits on generated trees, which the v1 index analyser classifies with certainty',
               'v1 documented refusals other than ExpressionSyntaxError (SyntaxError "no longer supported", NotImplementedError, ValueError '
               'raised explicitly by Namespace / _eval_ast, TypeError of a called function for a wrong signature) are counted, not judged']
import os
BUDGET_S = {'quick': int(os.environ.get('C19_BUDGET_QUICK', 85)), 'thorough': int(os.environ.get('C19_BUDGET_THOROUGH', 1300))}
NCASES = {'quick': 510, 'thorough': 9000}
NBASE = 4
NCORR = {'quick': 24, 'thorough': 40}
NMUT = {'quick': 8, 'thorough': 12}
CHUNK = 10
V1_EVERY = 3       # every third case uses expression_v1


def plan(tier, seed):
    n = NCASES[tier]
    return [dict(start=i, stop=min(n, i + CHUNK)) for i in range(0, n, CHUNK)]


# ---------------------------------------------------------------- running nutils

def where(e):
    tb = traceback.extract_tb(e.__traceback__)
    fr = tb[-1]
    return fr.filename.rsplit('/', 1)[-1], fr.name, fr.lineno


def in_expression_module(e):
    return where(e)[0] in ('expression_v1.py', 'expression_v2.py')


ATTR = 'Rz'


def run_nutils(R, s, mode, idx=None):
    """mode '@' | 'set' | 'eval' (v1 eval_<idx>). Returns ('accepted', array) or ('rejected', kind, detail, exc)."""
    ns = R.ns
    try:
        if mode == '@':
            arr = s @ ns
        elif mode == 'set':
            try:
                setattr(ns, ATTR + ('_' + idx if idx else ''), s)
                arr = getattr(ns, ATTR)
            finally:
                try:
                    delattr(ns, ATTR)
                except AttributeError:
                    pass
        else:
            arr = getattr(ns, 'eval_' + idx)(s)
    except R.err as e:
        return 'rejected', 'syntax-error', str(e).split('\n')[0], e
    except Exception as e:
        f, fn, ln = where(e)
        kind = type(e).__name__
        if kind == 'AttributeError' and mode == 'set' and fn == '__setattr__':
            return 'rejected', 'attribute-error', str(e).split('\n')[0], e
        return 'rejected', kind, '{} at {}:{}:{}: {}'.format(kind, f, fn, ln, str(e).split('\n')[0][:200]), e
    if R.version == 1 and not hasattr(arr, 'shape'):
        from nutils import function
        arr = function.Array.cast(arr)     # v1 returns plain python numbers for constant expressions
    return 'accepted', arr


def judge_exception(R, kind, detail, exc, s):
    """For a rejection that is not the module's syntax error: ('ok', tag) | ('violation', mechanism)."""
    if kind in ('syntax-error', 'attribute-error'):
        return 'ok', kind
    if R.version == 1:
        return v1.judge_exception(R, kind, detail, exc, s, where(exc), in_expression_module(exc))
    if not in_expression_module(exc):
        return 'ok', 'outside-module/' + kind
    if kind == 'TypeError' and 'is not callable' in str(exc) and where(exc)[1] == 'call' and calls_noncallable(R, s):
        return 'violation', 'C19-v2-call-noncallable-typeerror'
    return 'violation', None


def calls_noncallable(R, s):
    """Structural predicate of C19-v2-call-noncallable-typeerror: a non-callable namespace attribute is followed
    (after optional `_indices`) by an opening parenthesis, i.e. nutils reads it as the name of a function call."""
    for name, value in vars(R.ns).items():
        if callable(value):
            continue
        if re.search(r'(^|[\s()\[\]{}^+\-/])' + re.escape(name) + r'(_[^(]*)?\(', s):
            return True
    return False


# ---------------------------------------------------------------- corruptions

EXTRANEOUS = '<>,?:$#=;'


def alphabet(R, s):
    names = ''.join(list(R.leaf) + list(R.spec['funcs']) + list(R.opaque)) + 'sincoexpabqrt'
    if R.version == 1:
        names += 'nδ$d'
    return names


def corrupt(s, rng, n, R):
    grammar = ' ' * 4 + '0123459' + '._^+-/()[]{}' * 2 + '__'
    if R.version == 1:
        grammar += ',;:<>?=,;<>' + 'δ$n'
    names = alphabet(R, s)
    letters = ''.join(sorted(set(ch for ch in s if 'a' <= ch <= 'z'))) + 'ijk'
    out = {}
    tries = 0
    while len(out) < n and tries < 6 * n:
        tries += 1
        k = int(rng.integers(4))
        r = rng.random()
        if r < .4:
            ch = grammar[int(rng.integers(len(grammar)))]
        elif r < .62:
            ch = letters[int(rng.integers(len(letters)))]
        elif r < .8:
            ch = s[int(rng.integers(len(s)))]
        elif r < .95:
            ch = names[int(rng.integers(len(names)))]
        else:
            ch = (EXTRANEOUS + 'IJ')[int(rng.integers(len(EXTRANEOUS) + 2))]
        if k == 0:
            p = int(rng.integers(len(s)))
            c, kind = s[:p] + s[p + 1:], 'delete'
        elif k == 1:
            p = int(rng.integers(len(s) + 1))
            c, kind = s[:p] + ch + s[p:], 'insert'
        elif k == 2:
            p = int(rng.integers(len(s)))
            c, kind = s[:p] + ch + s[p + 1:], 'replace'
        else:
            if len(s) < 2:
                continue
            p = int(rng.integers(len(s) - 1))
            c, kind = s[:p] + s[p + 1] + s[p] + s[p + 2:], 'transpose'
        if c != s and c not in out:
            out[c] = kind
    return list(out.items())


# ---------------------------------------------------------------- classification (v2)

def classify_v2(s, R, res):
    """('valid', ref, letters, dom, tree) | ('invalid', why) | ('unclassified', why)"""
    try:
        tree = rec.parse(s)
        letters, shape, summed = core.analyse(tree, R)
        ref, out, dom = core.reference(tree, R)
    except core.Invalid as e:
        return ('invalid', str(e))
    except core.Unclassified as e:
        return ('unclassified', str(e))
    except RecursionError:
        return ('unclassified', 'recursion limit in the reference recogniser')
    return ('valid', ref, out, dom, tree)


def normalise(tree):
    """Canonical form for comparing the generator's tree with the recogniser's parse."""
    if not isinstance(tree, list):
        return tree
    if tree and tree[0] == 'prod' and len(tree[1]) == 1:
        return normalise(tree[1][0])
    if tree and tree[0] == 'frac':
        return ['frac', normalise(tree[1]), normalise(tree[2])]
    return [normalise(t) for t in tree]


def sha(*parts):
    return hashlib.sha1('\x00'.join(parts).encode()).hexdigest()[:14]


class Pending:
    """Accepted arrays whose values are compared after one batched evaluation."""

    def __init__(self, R, res):
        self.R, self.res, self.items = R, res, []

    def add(self, arr, ref, dom, case, what):
        if tuple(arr.shape) != tuple(ref.shape[1:]):
            self.res.violation('shape / axis order', case, '{}: nutils shape {} != expected {}'.format(what, tuple(arr.shape), tuple(ref.shape[1:])))
            return
        if not dom.ok:
            self.res.count('v{}/value-comparisons-skipped-outside-domain'.format(self.R.version))
            return
        self.items.append((arr, ref, dom, case, what))

    def flush(self):
        items, self.items = self.items, []
        if not items:
            return
        R, res = self.R, self.res
        try:
            with numpy.errstate(all='ignore'):
                vals = R.evaluate_nutils([it[0] for it in items])
        except Exception:
            vals = []
            for it in items:
                try:
                    with numpy.errstate(all='ignore'):
                        vals.append(R.evaluate_nutils([it[0]])[0])
                except Exception as e:
                    vals.append(e)
        for (arr, ref, dom, case, what), val in zip(items, vals):
            if isinstance(val, Exception):
                if in_expression_module(val):
                    res.violation('evaluation of an accepted valid expression raised', case, '{}: {}: {}'.format(what, type(val).__name__, str(val)[:300]))
                else:
                    res.count('v{}/evaluation-refused-outside-module/{}'.format(R.version, type(val).__name__))
                continue
            res.count('v{}/value-comparisons'.format(R.version))
            verdict, detail = tolerance.compare(val, ref, scale=dom.scale, check_kind=False)
            if verdict == tolerance.MARGINAL:
                res.count('v{}/marginal'.format(R.version))
            elif verdict == tolerance.VIOLATION:
                i = numpy.unravel_index(numpy.argmax(numpy.abs(numpy.asarray(val, float) - ref)), ref.shape) if val.shape == ref.shape and ref.size else ()
                res.violation('value differs from index-notation reading', case,
                              '{}: {}; e.g. at {} nutils={} expected={}'.format(what, detail, i, val[i] if i != () else val, ref[i] if i != () else ref))


# ---------------------------------------------------------------- one case = one namespace

def case_config(seed, index):
    rng = rng_for(seed, 'c19', index)
    version = 1 if index % V1_EVERY == V1_EVERY - 1 else 2
    r = rng.random()
    if version == 2:
        mode = None if r < .76 else 'interior' if r < .86 else 'boundary' if r < .92 else 'interfaces'
    else:
        mode = None if r < .64 else 'interior' if r < .84 else 'boundary'
    return rng, version, mode


def run_case(seed, index, tier, res):
    rng, version, mode = case_config(seed, index)
    spec = core.gen_nsspec(rng, mode, version)
    R = core.Realised(spec, version)
    res.count('namespaces')
    res.count('namespaces/v{}/{}'.format(version, mode or 'constant'))
    base = dict(seed=seed, index=index, tier=tier, version=version, geometry=mode)
    pend = Pending(R, res)
    for k in range(NBASE):
        brng = rng_for(seed, 'c19', index, 'base', k)
        if version == 2:
            base_v2(R, brng, tier, res, pend, dict(base, k=k))
        else:
            v1.base_v1(R, brng, tier, res, pend, dict(base, k=k), HOOKS)
        if len(pend.items) > 60:
            pend.flush()
    pend.flush()
    return R


def base_v2(R, rng, tier, res, pend, case0):
    G = gen.Gen(rng, R, maxdepth=4, version=2)
    try:
        tree, free = G.expression()
    except RuntimeError:
        res.count('generator-discards')
        return
    s = gen.render(tree, rng)
    case = dict(case0, string=s, kind='generated')
    res.count('evaluations')
    res.count('v2/generated')
    nops = gen.count_ops(tree)
    if nops >= 2:
        res.add('distinct', sha('2', s))
    for kd in gen.kinds(tree):
        res.count('constructs/v2/' + kd)
    res.maximum('max-string-length', len(s))
    # --- self-checks of the harness (never reported as nutils violations)
    try:
        letters, shape, summed = core.analyse(tree, R)
        assert set(letters) == set(free) and len(letters) == len(free)
        ptree = rec.parse(s)
        if normalise(ptree) != normalise(tree):
            raise AssertionError('recogniser parse differs from generating tree: {} vs {}'.format(ptree, tree))
        ref, out, dom = core.reference(tree, R)
    except core.Unclassified as e:
        # the generated tree left the modelled domain (e.g. integer ^ negative integer, which numpy refuses): not used
        res.count('generator-discards')
        res.count('v2/generator-discards-unmodelled')
        return
    except Exception as e:
        res.count('harness-selfcheck-failures')
        res.note('self-check failed for {!r}: {}: {}'.format(s, type(e).__name__, str(e)[:300]))
        return
    if index_sample(case0):
        res.sample(dict(version=2, geometry=case0['geometry'], string=s, free_indices=out, shape=list(ref.shape[1:]), in_domain=dom.ok))
    # --- oracle 1: '@'
    o = run_nutils(R, s, '@')
    if o[0] != 'accepted':
        res.violation('valid generated string rejected', dict(case, mode='@'), '{!r} @ ns: {}'.format(s, o[2]))
    else:
        res.count('v2/generated/accepted')
        pend.add(o[1], ref, dom, dict(case, mode='@'), '{!r} @ ns'.format(s))
    # --- oracle 1: assignment with permuted attribute indices
    perm = ''.join(out[i] for i in rng.permutation(len(out))) if out else ''
    o = run_nutils(R, s, 'set', perm)
    if o[0] != 'accepted':
        res.violation('valid generated string rejected', dict(case, mode='set', attr=perm), 'ns.{}_{} = {!r}: {}'.format(ATTR, perm, s, o[2]))
    else:
        res.count('v2/assigned')
        refp = numpy.einsum(core.PT + out + '->' + core.PT + perm, ref)
        pend.add(o[1], refp, dom, dict(case, mode='set', attr=perm), 'ns.{}_{} = {!r}'.format(ATTR, perm, s))
    # --- assignment-side corruptions: documented AttributeError
    for bad, why in attr_corruptions(out, rng):
        res.count('v2/attr-corruptions')
        o = run_nutils(R, s, 'set', bad)
        if o[0] == 'accepted':
            res.violation('invalid attribute indices accepted', dict(case, mode='set', attr=bad), 'ns.{}_{} = {!r} accepted ({})'.format(ATTR, bad, s, why))
        elif o[1] != 'attribute-error':
            res.violation('wrong exception type', dict(case, mode='set', attr=bad), 'ns.{}_{} = {!r} ({}): {}'.format(ATTR, bad, s, why, o[2]))
        else:
            res.count('v2/attr-corruptions/attribute-error')
    # --- oracle 2: index / name edits on the tree (rendered, then classified from the string alone) and character corruptions
    seen = {s}
    for _ in range(NMUT[tier]):
        m = v1.mutate(tree, rng, R)
        if m is None:
            continue
        c = gen.render(m[0])
        if c in seen:
            continue
        seen.add(c)
        check_string_v2(R, c, rng, res, pend, dict(case0, string=c, kind='tree-edit', edit='tree-edit', what=m[1], base=s))
    # an index that is already summed inside the expression is used once more outside: documented as invalid
    for c in summed_reuse(tree, summed, G, R, rng):
        if c not in seen:
            seen.add(c)
            check_string_v2(R, c, rng, res, pend, dict(case0, string=c, kind='summed-index-reused', edit='summed-index-reused', base=s))
    for c, ckind in corrupt(s, rng, NCORR[tier], R):
        check_string_v2(R, c, rng, res, pend, dict(case0, string=c, kind='corruption', edit=ckind, base=s))


def summed_reuse_trees(tree, summed, G, R, rng, limit=2):
    out = []
    letters = sorted(summed)
    for i in rng.permutation(len(letters))[:limit]:
        ch = letters[int(i)]
        n = G.len.get(ch)
        names = [name for name in R.leaf if tuple(R.shape(name)) == (n,)]
        if not names:
            continue
        name = names[int(rng.integers(len(names)))]
        out.append(['prod', [['scope', '(', tree], ['var', name, ch]]])
    return out


def summed_reuse(tree, summed, G, R, rng):
    return [gen.render(t) for t in summed_reuse_trees(tree, summed, G, R, rng)]


def index_sample(case0):
    return case0['k'] == 0 and case0['index'] % 41 == 0


def attr_corruptions(out, rng):
    cands = []
    if out:
        cands.append((out + out[0], 'repeated index'))
        cands.append((out[1:], 'missing index'))
        cands.append((out[:-1] + out[-1].upper(), 'upper case index'))
    extra = next(ch for ch in 'zyxwv' if ch not in out)
    cands.append((out + extra, 'extra index'))
    k = int(rng.integers(len(cands)))
    return [cands[k]]


def check_string_v2(R, c, rng, res, pend, case):
    cls = classify_v2(c, R, res)
    res.count('corruptions')
    res.count('v2/corruptions')
    res.count('v2/corruptions/' + case['edit'])
    res.count('v2/class/' + cls[0])
    mode = '@'
    idx = None
    if rng.random() < .2:
        mode = 'set'
        idx = ''.join(cls[2][i] for i in rng.permutation(len(cls[2]))) if cls[0] == 'valid' else ''.join(sorted(set(ch for ch in c if ch in 'ijklm')))[:2]
        idx = idx if cls[0] == 'valid' or rng.random() < .7 else ''
    case = dict(case, mode=mode, attr=idx)
    o = run_nutils(R, c, mode, idx)
    outcome = o[0] if o[0] == 'accepted' else o[1]
    res.count('v2/outcome/{}/{}'.format(cls[0], outcome if outcome in ('accepted', 'syntax-error', 'attribute-error') else 'other-exception'))
    if o[0] == 'rejected':
        verdict, tag = judge_exception(R, o[1], o[2], o[3], c)
        if verdict == 'violation':
            res.violation('undocumented exception type escapes', case, '{!r}: {}'.format(c, o[2]), mechanism=tag)
            return
        res.count('v2/rejections/' + tag)
        if cls[0] == 'valid':
            res.violation('valid string rejected', case, '{!r} is valid by the documented grammar ({}-d, indices {!r}) but nutils raised: {}'.format(c, cls[1].ndim - 1, cls[2], o[2]))
        elif cls[0] == 'invalid' and o[1] == 'attribute-error':
            # the attribute indices offered here are unique lower case letters, so this AttributeError comes from the comparison
            # of the attribute indices with the indices of the *successfully parsed* expression
            res.violation('invalid string silently parsed', case, '{!r} violates a documented rule ({}) but the parser accepted it; the assignment then failed with: {}'.format(c, cls[1], o[2]))
        return
    arr = o[1]
    if cls[0] == 'invalid':
        try:
            val = R.evaluate_nutils([arr])[0].tolist()
        except Exception as e:
            val = 'evaluation raised {}'.format(type(e).__name__)
        res.violation('invalid string silently evaluated', case, '{!r} violates a documented rule ({}) but nutils returned an array of shape {} = {}'.format(
            c, cls[1], tuple(arr.shape), str(val)[:300]))
    elif cls[0] == 'valid':
        ref, out, dom = cls[1], cls[2], cls[3]
        if mode == 'set':
            ref = numpy.einsum(core.PT + out + '->' + core.PT + idx, ref)
        pend.add(arr, ref, dom, case, '{!r} ({})'.format(c, mode))


HOOKS = dict(summed_reuse_trees=summed_reuse_trees, run_nutils=run_nutils, corrupt=corrupt, judge_exception=judge_exception, sha=sha, index_sample=index_sample,
             in_expression_module=in_expression_module, where=where, NCORR=NCORR, ATTR=ATTR)


def run_units(units, ctx):
    import warnings
    warnings.simplefilter('ignore')
    res = Result()
    for u in units:
        for i in range(u['start'], u['stop']):
            if ctx.expired():
                res.count('cases-skipped-deadline')
                continue
            try:
                run_case(ctx.seed, i, ctx.tier, res)
            except Exception:
                res.count('harness-errors')
                res.note('case {} crashed in the harness: {}'.format(i, traceback.format_exc()[-600:]))
    return res


def replay(case):
    import warnings
    warnings.simplefilter('ignore')
    res = Result()
    run_case(case['seed'], case['index'], case.get('tier', 'quick'), res)
    return [v for v in res.violations if v['case'].get('string') == case.get('string') and v['case'].get('mode') == case.get('mode')]


# ---------------------------------------------------------------- ledger reproducers

def repro_v2_call_noncallable():
    from nutils import expression_v2
    ns = expression_v2.Namespace()
    ns.b = 2.
    try:
        'b(b)' @ ns
    except expression_v2.ExpressionSyntaxError as e:
        return False, "'b(b)' @ ns raised ExpressionSyntaxError"
    except Exception as e:
        return True, "ns.b = 2.; 'b(b)' @ ns raised {}: {}".format(type(e).__name__, e)
    return True, "'b(b)' @ ns was accepted"


REPRODUCERS = {'C19-v2-call-noncallable-typeerror': repro_v2_call_noncallable}
REPRODUCERS.update(v1.REPRODUCERS)


# ---------------------------------------------------------------- evidence

def finalize(m, tier, seed):
    c = m.counters

    def sub(prefix):
        return {k[len(prefix):]: v for k, v in sorted(c.items()) if k.startswith(prefix)}
    cov = dict(evaluations=c.get('evaluations', 0), distinct_nontrivial=len(m.sets.get('distinct', ())), rule=RULE, samples=m.samples[:6],
               namespaces=sub('namespaces/'), strings_generated=dict(v2=c.get('v2/generated', 0), v1=c.get('v1/generated', 0)),
               corruptions_tried=c.get('corruptions', 0),
               v2=dict(classified=sub('v2/class/'), nutils_outcome_per_class=sub('v2/outcome/'), edits=sub('v2/corruptions/'),
                       rejections=sub('v2/rejections/'), value_comparisons=c.get('v2/value-comparisons', 0),
                       skipped_outside_domain=c.get('v2/value-comparisons-skipped-outside-domain', 0), marginal=c.get('v2/marginal', 0),
                       assigned=c.get('v2/assigned', 0), attr_corruptions=c.get('v2/attr-corruptions', 0), constructs=sub('constructs/v2/')),
               v1=dict(classified=sub('v1/class/'), nutils_outcome_per_class=sub('v1/outcome/'), edits=sub('v1/corruptions/'),
                       rejections=sub('v1/rejections/'), invalid_tree_edits_rejected_with_other_than_syntax_error=sub('v1/invalid-rejected-with/'),
                       tree_mutations=c.get('v1/tree-mutations', 0), value_comparisons=c.get('v1/value-comparisons', 0),
                       skipped_outside_domain=c.get('v1/value-comparisons-skipped-outside-domain', 0), marginal=c.get('v1/marginal', 0),
                       eval_modes=sub('v1/mode/'), constructs=sub('constructs/v1/')),
               generator_discards=dict(sub('v1/generator-discards-'), no_leaf_or_letters=c.get('generator-discards', 0)), harness_selfcheck_failures=c.get('harness-selfcheck-failures', 0),
               harness_errors=c.get('harness-errors', 0), cases_skipped_deadline=c.get('cases-skipped-deadline', 0),
               max_string_length=m.maxima.get('max-string-length', 0))
    inc = None
    n = NCASES[tier]
    if c.get('harness-errors', 0) or c.get('harness-selfcheck-failures', 0):
        inc = 'harness self-check failed {} time(s) / harness errors {}'.format(c.get('harness-selfcheck-failures', 0), c.get('harness-errors', 0))
    elif c.get('namespaces', 0) < .5 * n:
        inc = 'only {} of {} namespaces ran before the deadline'.format(c.get('namespaces', 0), n)
    elif c.get('v2/class/invalid', 0) < 500 or c.get('v2/class/valid', 0) < 100 or c.get('v2/value-comparisons', 0) < 500:
        inc = 'corruption monitor barely reached (v2 invalid {}, valid {}, value comparisons {})'.format(
            c.get('v2/class/invalid', 0), c.get('v2/class/valid', 0), c.get('v2/value-comparisons', 0))
    elif c.get('v1/value-comparisons', 0) < 150 or c.get('v1/corruptions', 0) < 1000:
        inc = 'v1 monitors barely reached'
    else:
        need = ['var', 'numeral', 'trace', 'product', 'fraction', 'sum', 'leading-minus', 'scope', 'pow-int', 'pow-scoped', 'call', 'call-generated-axes',
                'gradient', 'jump', 'mean', 'number']
        missing = [k for k in need if not c.get('constructs/v2/' + k)]
        need1 = ['v1-gradient', 'v1-surfgrad', 'v1-eye', 'v1-normal', 'v1-stack', 'v1-call', 'v1-call-multiarg', 'call-generated-axes', 'v1-call-consumes', 'product', 'sum', 'fraction', 'pow-int', 'trace', 'numeral']
        missing += [k for k in need1 if not c.get('constructs/v1/' + k)]
        if missing:
            inc = 'constructs never generated: ' + ', '.join(missing)
        elif (c.get('v2/marginal', 0) + c.get('v1/marginal', 0)) > .005 * max(1, c.get('v2/value-comparisons', 0) + c.get('v1/value-comparisons', 0)):
            inc = 'too many marginal float comparisons'
    return dict(coverage=cov, inconclusive=inc)
