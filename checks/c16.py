"""C16 — Parallel (fork) evaluation equals serial evaluation.

Monitor shape: runtime monitoring of the real fork/shared-memory machinery under a
perturbed scheduler.  Every program is evaluated under ``parallel.maxprocs(1)`` (reference)
and under ``maxprocs(n)`` for several n and several perturbation seeds, in short-lived
subprocesses (``vlib.c16_child``), with these monitors attached from the harness
(``vlib.c16_trace``; no repository edit):

  result        value under maxprocs(n) == value under maxprocs(1) (ints exact, floats by tolerance);
                a serial LocateError must be a parallel LocateError
  exactly-once  claim log of every parallel.range: each iteration claimed exactly once over all pids
  lockset       Eraser discipline on every write that reaches a shared array allocated by generated code
                (ndarray subclass + traced multiprocessing.Lock), and on the shared claim counter
  ownership     lock-free arrays of Topology._locate: row k only written by the process that claimed k
  visibility    an array written by a worker must be backed by the shared anonymous mmap
  join          on normal return every forked worker has been waited for
  fault         worker raising / SIGKILLed at a claim boundary => the call must raise (own subprocess each)

Schedule perturbation (start barrier + 0-200us jitter around lock operations and between the read
and the write of the claim counter) is what makes concurrency observable at all; distinct
interleavings (per-array pid sequences of the write log) are counted and reported.
"""

import os, sys, json, time, hashlib, tempfile, shutil, subprocess, signal
from vlib.runner import Result, rng_for, worker_env, PY, VERIF

PROPERTY = 'C16'
LEVEL = 'exploration'
RULE = ('random evaluable programs (JSON specs, vlib/c16_programs.py) with 1-3 outer loops of length 2-9 (some with run-time '
        'lengths 0-7): loop_sum / loop_concatenate over Inflate, Diagonalize, outer products, transposes, Add of several loops into one '
        'output, nested inner loops, loops reading the shared result of an earlier loop, variable-length chunks, int and float data, '
        '1-3 outputs sharing loops; modes eval_once / compile + 3 calls / compile-parallel-call-serial; plus topology integrate, '
        'sample.eval, as_coo and locate (with unlocatable targets, skip_missing, maxdist) on line/rectilinear/curved/triangle/mixed '
        'meshes. Each program runs under maxprocs(n), n in {2,3,5,8}, times >=5 perturbation seeds. A program is non-trivial when its '
        'generated script takes locks around shared arrays (or is a parallel locate) AND at least one run showed >=2 processes writing; '
        'distinct = SHA-1 of the generated parallel script(s). Fault experiments: one per subprocess, single victim elected atomically.')
ASSUMPTIONS = ['only schedules actually produced by the perturbation are checked; the lockset discipline generalises over schedules only for the writes observed',
               'the traced allocator/locks replace parallel.shempty and multiprocessing.Lock as seen by generated code; production objects are wrapped, not re-implemented',
               'workers are killed only at claim boundaries, where no nutils lock is held; a hang is reported as inconclusive (bounded progress), never as a violation',
               'Linux fork + anonymous shared mmap; other platforms not covered',
               'O_APPEND single-write event records; per-process order is program order']
BUDGET_S = {'quick': int(os.environ.get('C16_QUICK_BUDGET', 90)), 'thorough': int(os.environ.get('C16_THOROUGH_BUDGET', 1500))}
GRACE_S = 150
ENV = {'NUTILS_VERIF': ''}   # generated code exactly as in production (value-observer hook off)

NS_ALL = [2, 3, 5, 8]
PLAN = {'quick': dict(nprog=72, chunk=4, ntopo=16, tchunk=1, nfault=36, fchunk=3, npseeds=5, nns=2),
        'thorough': dict(nprog=800, chunk=5, ntopo=100, tchunk=2, nfault=600, fchunk=10, npseeds=6, nns=4)}
FAULT_KINDS = ['raise', 'kill', 'kill_before', 'raise', 'kill', 'raise_parent']


def plan(tier, seed):
    p = PLAN[tier]
    by_kind = {}
    for kind, total, chunk in (('ev', p['nprog'], p['chunk']), ('topo', p['ntopo'], p['tchunk']), ('fault', p['nfault'], p['fchunk'])):
        by_kind[kind] = [dict(kind=kind, start=i, stop=min(total, i + chunk)) for i in range(0, total, chunk)]
    # shuffled so that every worker sees every kind of unit early (deadline-robust) for any worker count; the
    # first few units are fixed so that the rarer monitors (faults, locate failure path) are reached first
    units = by_kind['ev'] + by_kind['topo'] + by_kind['fault']
    order = rng_for(seed, 'c16', 'plan').permutation(len(units))
    units = [units[int(k)] for k in order]

    def rank(u):
        if u['kind'] == 'topo' and any(TOPO_OP_OF(i) in ('locate_missing', 'locate') for i in range(u['start'], u['stop'])):
            return 0
        return dict(fault=1, ev=2, topo=3)[u['kind']]
    head = {0: sorted((u for u in units if rank(u) == 0), key=lambda u: TOPO_OP_OF(u['start']) != 'locate_missing')[:3], 1: [u for u in units if rank(u) == 1][:4], 2: [u for u in units if rank(u) == 2][:7]}
    front = []
    for k in range(7):
        for r in (1, 0, 2):
            if k < len(head[r]):
                front.append(head[r][k])
    ids = {id(u) for u in front}
    return front + [u for u in units if id(u) not in ids]


def TOPO_OP_OF(i):
    from vlib import c16_programs as P
    return P.TOPO_OPS[i % len(P.TOPO_OPS)]


def make_spec(seed, kind, i):
    from vlib import c16_programs as P
    rng = rng_for(seed, 'c16', kind, i)
    return P.gen_spec(rng, i) if kind == 'ev' else P.gen_topo_spec(rng, i)


def ns_for(tier, i, kind='ev'):
    if PLAN[tier]['nns'] >= 4:
        return list(NS_ALL) if kind == 'ev' or i % 3 == 0 else [2, 3, 5]
    # quick: two worker counts per program, rotating so that all of {2,3,5,8} are covered; topology calls
    # contain up to 7 parallel loops each (49 forks per call with 8 workers), so 8 is left to the evaluable programs
    pairs = [(2, 5), (3, 8), (2, 3), (3, 5)] if kind == 'ev' else [(2, 3), (3, 5), (2, 5), (2, 3)]
    return list(pairs[i % 4])


def pseeds_for(seed, tier, i):
    base = (seed * 1000003 + i * 101) % (2**31)
    return [base + j for j in range(PLAN[tier]['npseeds'])]


def make_fault_job(seed, i):
    rng = rng_for(seed, 'c16', 'fault', i)
    from vlib import c16_programs as P
    if i % 4 == 3:
        spec = P.gen_topo_spec(rng, int(rng.integers(0, 100)))
        if spec['op'] in ('locate_missing',):
            spec['op'] = 'locate'
    else:
        spec = P.gen_spec(rng, i)
    kind = FAULT_KINDS[i % len(FAULT_KINDS)]
    return dict(mode='fault', case=spec, n=int(rng.choice([2, 3, 5, 8])), pseed=int(rng.integers(0, 2**31)),
                fault=dict(kind=kind, at=int(rng.integers(0, 4))), parent_delay_us=3000)


def _spawn(job, timeout, tmpdir):
    """Runs vlib.c16_child on a job in its own session; kills the whole group on timeout.
    -> ('ok', json) | ('timeout', progress|None) | ('crash', text)"""
    jobfile = os.path.join(tmpdir, 'job.json')
    outfile = os.path.join(tmpdir, 'out.json')
    for f in (outfile, job.get('progress')):
        if f and os.path.exists(f):
            os.unlink(f)
    with open(jobfile, 'w') as f:
        json.dump(job, f)
    env = worker_env(ENV)
    p = subprocess.Popen([PY, '-X', 'faulthandler', '-m', 'vlib.c16_child', jobfile, outfile], env=env, cwd=VERIF,
                         stdout=subprocess.DEVNULL, stderr=subprocess.PIPE, start_new_session=True)
    try:
        _, err = p.communicate(timeout=timeout)
    except subprocess.TimeoutExpired:
        try:
            os.killpg(p.pid, signal.SIGKILL)
        except ProcessLookupError:
            pass
        p.communicate()
        prog = None
        if job.get('progress') and os.path.exists(job['progress']):
            try:
                with open(job['progress']) as f:
                    prog = json.load(f)
            except Exception:
                pass
        return 'timeout', prog
    if p.returncode == 0 and os.path.exists(outfile):
        with open(outfile) as f:
            return 'ok', json.load(f)
    try:  # abnormal exit: make sure none of the child's own forks (same process group) survive
        os.killpg(p.pid, signal.SIGKILL)
    except (ProcessLookupError, PermissionError):
        pass
    return 'crash', f'rc={p.returncode}: ' + err.decode(errors='replace')[-1500:]


def classify_fault(job, status, out, res):
    kind = job['fault']['kind']
    case = dict(fault_job=job)
    res.count('fault_experiments')
    if status == 'timeout':
        res.count('fault/hung')
        res.count(f'fault/{kind}/hung')
        res.add('hung_witnesses', json.dumps(dict(fault=job['fault'], n=job['n'], pseed=job['pseed'], case=job['case']))[:1500])
        return
    if status == 'crash':
        res.count('fault/harness_crash')
        res.note('fault child crashed: ' + str(out)[-400:])
        return
    if out['status'] == 'discarded':
        res.count('fault/discarded')
        return
    for k in ('claim', 'acquire', 'write', 'fork'):
        res.count('fault_ev/' + k, out['stats'].get(k, 0))
    for monitor, detail in out['problems']:
        res.violation(monitor, case, 'during fault experiment: ' + detail)
    if not out['injected']:
        res.count('fault/not_injected')
        if out['outcome'] == 'returned' and out.get('value_vs_serial') == 'violation':
            res.violation('result', case, 'no fault was injected but the value differs from serial: ' + out.get('detail', ''))
        return
    res.count('fault/injected')
    res.count(f'fault/{kind}/{out["outcome"]}')
    res.add('fault_worker_counts', job['n'])
    if out['outcome'] == 'raised':
        res.add('fault_exceptions', out['exception'].split(' out of ')[0][:80])
        if not any('fault' in s for s in res.samples):
            res.sample(dict(fault=job['fault'], n=job['n'], case=job['case'], outcome='raised', exception=out['exception'], claim_sequences=out['claim_sequence']))
    else:
        res.violation('fault', case, f'worker fault {job["fault"]} was injected ({out["faults"]}) but the call RETURNED a value '
                      f'(vs serial: {out.get("value_vs_serial")} {out.get("detail", "")}); claims={out["claim_sequence"]}')


def run_units(units, ctx):
    parts = []
    res = Result()
    tmpdir = tempfile.mkdtemp(prefix='c16w-')
    p = PLAN[ctx.tier]
    try:
        for u in units:
            if ctx.expired():
                res.count('units_skipped_deadline')
                res.count('units_skipped_deadline/' + u['kind'])
                continue
            if u['kind'] in ('ev', 'topo'):
                # one short-lived child per unit; its progress file makes a hang attributable to one run
                cases = []
                for i in range(u['start'], u['stop']):
                    spec = make_spec(ctx.seed, u['kind'], i)
                    spec['ns'] = ns_for(ctx.tier, i, u['kind'])
                    spec['pseeds'] = pseeds_for(ctx.seed, ctx.tier, i)
                    cases.append(spec)
                job = dict(mode='batch', cases=cases, deadline=ctx.deadline, progress=os.path.join(tmpdir, 'progress.json'))
                nruns = sum(len(s['ns']) * len(s['pseeds']) for s in cases)
                status, out = _spawn(job, max(60, ctx.time_left() + 120), tmpdir)
                res.count('planned_runs', nruns)
                if status == 'ok':
                    parts.append(out)
                elif status == 'timeout':
                    res.count('batch_hung')
                    res.add('hung_witnesses', json.dumps(out)[:1500])
                else:
                    res.count('batch_crashed')
                    res.note('child crashed: ' + str(out)[-400:])
            else:
                for i in range(u['start'], u['stop']):
                    if ctx.expired():
                        res.count('faults_skipped_deadline')
                        continue
                    job = make_fault_job(ctx.seed, i)
                    status, out = _spawn(job, min(180, max(45, ctx.time_left() + 100)), tmpdir)
                    classify_fault(job, status, out, res)
    finally:
        shutil.rmtree(tmpdir, ignore_errors=True)
    parts.append(res.to_json())
    return Result.merge(parts)


def replay(case):
    """Re-run a recorded case (spec, n) under 8 perturbation seeds, or a fault job 3 times."""
    tmpdir = tempfile.mkdtemp(prefix='c16r-')
    res = Result()
    try:
        if 'fault_job' in case:
            for k in range(3):
                job = dict(case['fault_job'], pseed=case['fault_job']['pseed'] + k)
                status, out = _spawn(job, 180, tmpdir)
                classify_fault(job, status, out, res)
            return res.violations
        pseeds = [case["pseed"] + k for k in range(8)]
        job = dict(mode='batch', cases=[dict(case['spec'], ns=[case['n']], pseeds=pseeds)], deadline=time.time() + 600)
        status, out = _spawn(job, 600, tmpdir)
        if status == 'ok':
            return out['violations']
        return [dict(monitor='replay', mechanism=None, case=case, detail=f'replay child {status}: {out}')] if status == 'timeout' else []
    finally:
        shutil.rmtree(tmpdir, ignore_errors=True)


def finalize(m, tier, seed):
    c = m.counters
    p = PLAN[tier]
    ev = {k[3:]: v for k, v in c.items() if k.startswith('ev/')}
    planned = p['npseeds'] * (sum(len(ns_for(tier, i, 'ev')) for i in range(p['nprog'])) + sum(len(ns_for(tier, i, 'topo')) for i in range(p['ntopo'])))
    faults = {k[6:]: v for k, v in c.items() if k.startswith('fault/')}
    inter = len(m.sets.get('interleavings', ()))
    cov = dict(
        evaluations=c.get('evaluations', 0),
        distinct_nontrivial=len(m.sets.get('distinct', ())),
        rule=RULE,
        samples=[x for x in m.samples if 'fault' not in x][:3] + [x for x in m.samples if 'fault' in x][:1],
        planned_runs=planned,
        program_counts=dict(evaluable=c.get('programs/ev', 0), topology=c.get('programs/topo', 0), distinct_scripts=len(m.sets.get('programs_all', ())),
                      discarded={k[10:]: v for k, v in c.items() if k.startswith('discarded/')}),
        topology_ops={k[8:]: v for k, v in c.items() if k.startswith('topo_op/')},
        modes={k[5:]: v for k, v in c.items() if k.startswith('mode/')},
        generator_features={k[8:]: v for k, v in c.items() if k.startswith('feature/')},
        script_features=sorted(m.sets.get('script_features', ())),
        runs_per_worker_count={k[5:]: v for k, v in c.items() if k.startswith('runs/')},
        runs_concurrent=c.get('runs_concurrent', 0),
        runs_concurrent_per_worker_count={k[16:]: v for k, v in c.items() if k.startswith('runs_concurrent/')},
        runs_no_concurrency_observed=c.get('runs_no_concurrency_observed', 0),
        distinct_interleavings=inter,
        max_processes_writing_in_one_run=m.maxima.get('max_pids_writing', 0),
        events_logged=c.get('events', 0),
        events=dict(lock_acquire=ev.get('acquire', 0), lock_acquire_array=ev.get('acquire/array', 0), lock_acquire_range=ev.get('acquire/range', 0),
                    lock_release=ev.get('release', 0), shared_array_writes=ev.get('write', 0),
                    writes_by_op={k[6:]: v for k, v in ev.items() if k.startswith('write/')},
                    parallel_phase_writes=ev.get('parallel_phase_writes', 0), serial_phase_writes=ev.get('serial_phase_writes', 0),
                    claims=ev.get('claim', 0), counter_reads=ev.get('counter_read', 0), counter_writes=ev.get('counter_write', 0),
                    forks=ev.get('fork', 0), shared_allocations=ev.get('alloc_shared', 0), private_allocations=ev.get('alloc_private', 0),
                    ranges_checked=ev.get('ranges_checked', 0), iterations_checked=ev.get('iterations_checked', 0),
                    arrays_lockset_checked=ev.get('arrays_lockset_checked', 0), arrays_ownership_checked=ev.get('arrays_ownership_checked', 0),
                    ownership_writes_checked=ev.get('ownership_writes_checked', 0),
                    nested_lock_acquires=ev.get('nested_acquire', 0), lock_order_edges=ev.get('lock_order_edges', 0),
                    barrier_waits=ev.get('barrier_waits', 0), barrier_complete=ev.get('barrier_complete', 0)),
        instrument_selfcheck=dict(array_modified_without_logged_write=ev.get('array_modified_without_logged_write', 0),
                                  lockset_log_mismatch=ev.get('lockset_log_mismatch', 0), release_without_acquire=ev.get('release_without_acquire', 0),
                                  malformed_event=ev.get('malformed_event', 0), write_to_unknown_array=ev.get('write_to_unknown_array', 0)),
        comparisons=dict(passed=c.get('compare/pass', 0), marginal=c.get('compare/marginal', 0), arrays=c.get('arrays_compared', 0),
                         by_kind={k[14:]: v for k, v in c.items() if k.startswith('compared_kind/')},
                         locate_error_matched=c.get('locate_error_matched', 0), locate_error_message_differs=c.get('locate_error_message_differs', 0)),
        fault_experiments=dict(total=c.get('fault_experiments', 0), outcomes=faults, worker_counts=sorted(m.sets.get('fault_worker_counts', ())),
                               exceptions_seen=sorted(m.sets.get('fault_exceptions', ())),
                               events={k[9:]: v for k, v in c.items() if k.startswith('fault_ev/')}),
        hung=dict(batches=c.get('batch_hung', 0), fault_runs=c.get('fault/hung', 0), witnesses=sorted(m.sets.get('hung_witnesses', ()))[:3]),
        skipped_deadline={k: v for k, v in c.items() if 'skipped_deadline' in k},
    )
    inc = []
    sc = cov['instrument_selfcheck']
    if c.get('batch_crashed') or c.get('fault/harness_crash'):
        inc.append(f"{c.get('batch_crashed', 0)} batch and {c.get('fault/harness_crash', 0)} fault subprocesses crashed outside the monitors")
    if cov['hung']['batches'] or cov['hung']['fault_runs']:
        inc.append(f"bounded progress not established: {cov['hung']['batches']} evaluation(s) and {cov['hung']['fault_runs']} fault run(s) hung "
                   f"(subprocess timeout); witness: {cov['hung']['witnesses'][:1]}")
    floor = dict(quick=dict(runs=60, programs=8, inter=30, faults=6), thorough=dict(runs=1500, programs=150, inter=600, faults=60))[tier]
    if cov['evaluations'] < floor['runs']:
        inc.append(f"only {cov['evaluations']} of {planned} planned runs completed before the deadline (floor {floor['runs']})")
    if not (cov['events']['lock_acquire_array'] and cov['events']['shared_array_writes'] and cov['events']['claims'] and cov['events']['counter_reads']):
        inc.append('a deciding monitor observed no events (lock acquire / shared write / claim / counter access)')
    if cov['runs_concurrent'] < 0.3 * max(1, cov['evaluations']):
        inc.append(f"concurrency observed in only {cov['runs_concurrent']} of {cov['evaluations']} runs")
    if inter < floor['inter']:
        inc.append(f'only {inter} distinct interleavings observed (floor {floor["inter"]})')
    if cov['distinct_nontrivial'] < floor['programs']:
        inc.append(f"only {cov['distinct_nontrivial']} distinct non-trivial programs (floor {floor['programs']})")
    if any(sc.values()):
        inc.append(f'instrument self-check failed: {sc}')
    if cov['comparisons']['marginal'] > 0.005 * max(1, cov['evaluations']):
        inc.append(f"{cov['comparisons']['marginal']} marginal float comparisons")
    inj = faults.get('injected', 0)
    if inj < floor['faults']:
        inc.append(f"only {inj} of {p['nfault']} planned faults were injected (floor {floor['faults']})")
    if not any(k.startswith('raise/') for k in faults):
        inc.append('no worker-exception fault was injected')
    if not any(k.startswith('kill/') or k.startswith('kill_before/') for k in faults):
        inc.append('no worker-kill fault was injected')
    if not cov['comparisons']['locate_error_matched'] or not cov['events']['ownership_writes_checked']:
        inc.append('parallel locate (failure path / ownership monitor) never reached')
    return dict(coverage=cov, inconclusive='; '.join(inc) or None)
