"""C18 — Disk memoisation is transparent and crash-tolerant.

Monitor shape: the uncached callable (cache.disable()) is the executable model.
(A) transparency of cache.function after clean miss / hit / earlier exception,
    for several signature shapes, equivalent bindings and near-colliding keys;
(B) fault enumeration, EXHAUSTIVE per payload: the cache entry is rewritten to
    every prefix of its bytes, to every prefix followed by zero bytes, to every
    prefix of a new entry followed by the tail of an older longer (torn) entry of
    an equal value, to zero bytes / garbage; real writer processes are killed
    inside pickle.dump (os._exit / SIGKILL) and read back, also by a fresh
    interpreter; the fault model (what a killed writer leaves behind) is itself
    validated against real kills before it is enumerated offline;
(C) cache.Recursion subclasses of length 1-3 after arbitrary histories of partial
    runs, real kills and truncations, plus exhaustive truncation of every item
    file at every byte;
(D) real concurrent processes: interval log + offline overlap checker.
"""

import os, json, time, shutil, tempfile, hashlib, subprocess, traceback
import numpy
from vlib.runner import Result, rng_for, scaled

PROPERTY = 'C18'
LEVEL = 'fault_enumeration'
RULE = ('per payload (a memoised call whose result is a scalar / nested container / numpy array / nutils object / solver result, '
        'emitting 0-20 log records, through positional / keyword-only / default / var-keyword signatures) ALL cut points k=0..len(entry) '
        'are enumerated for each fault family: truncation b[:k]; b[:k]+zeros; new[:k]+old[k:j] (second writer killed at k over an '
        'entry torn at j, equal value, different serialisation); plus zero bytes, garbage, real kills inside pickle.dump. A case is the '
        'pair (payload, file content); non-trivial = content is neither empty nor a complete valid entry; distinct = SHA-1 of '
        '(family, content) within a payload, payloads deduplicated by the SHA-1 of their entry bytes. Recursion: random histories '
        '(1-5 partial runs / kills / truncations) and exhaustive (item file, cut point) pairs; concurrency: 4-8 processes x 1-3 keys.')
ASSUMPTIONS = ['the uncached call is the reference (functions used are deterministic, checked by calling them twice uncached)',
               'a killed writer leaves prefix(+old suffix) files: validated against real os._exit/SIGKILL deaths inside pickle.dump on this filesystem; reordering/partial-page effects of a power loss are not producible here',
               'time.monotonic_ns is system-wide (CLOCK_MONOTONIC) so execution intervals of different processes are comparable',
               'entries that unpickle without error to a value of the right structure are outside the property (cannot be told from a valid entry without a checksum)',
               'mesh.parsegmsh not exercised (meshio not installed); a parsegmsh-shaped dict payload is used instead']
_SCALE = float(os.environ.get('C18_BUDGET_SCALE', '1') or 1)     # development knob for an overloaded machine; not used by the harness
BUDGET_S = {'quick': 70 * _SCALE, 'thorough': 1300 * _SCALE}
GRACE_S = 60

FINDING = 'C18-torn-overwrite-unpickle-escapes'

N = {'quick': dict(payloads=32, keys=5, rec=52, recx=6, conc=12, users=3, realkills=1),
     'thorough': dict(payloads=400, keys=45, rec=1400, recx=70, conc=320, users=6, realkills=3)}

CORE = [('scalar', 0), ('scalar', 6), ('scalar', 12), ('scalar', 16), ('scalar', 18), ('scalar', 19), ('scalar', 20),
        ('nested', 1), ('nested', 2), ('nested', 3), ('nested', 4),
        ('array', 0), ('array', 1), ('array', 2), ('array', 3), ('array', 4), ('array', 5), ('arrays', 1), ('arrays', 2), ('bigarray', 0),
        ('arraydata', 0), ('arraydata', 5), ('arraydata', 10), ('frozenarray', 0), ('evaluable', 0), ('evaluable', 1), ('evaluable', 3),
        ('matrix', 0), ('matrix', 3), ('solve', 0), ('solve', 1), ('gmshdict', 0), ('topology', 0), ('topology', 2), ('function', 0),
        ('sample', 1), ('system', 0), ('raise', 0), ('raise-oserror', 1), ('raise-eof', 2)]
KINDS = ['scalar', 'nested', 'array', 'arrays', 'arraydata', 'frozenarray', 'evaluable', 'matrix', 'solve', 'gmshdict', 'topology', 'function',
         'sample', 'system', 'raise', 'nested', 'array', 'scalar']
NLOGS = [0, 1, 0, 3, 20, 0, 2, 7]
SIGNATURES = ['pos', 'kwonly', 'default', 'varkw', 'rich']


# ---------------------------------------------------------------- plan

def payload_spec(tier, seed, i):
    rng = rng_for(seed, 'c18', 'payload', i)
    if i < len(CORE):
        kind, s = CORE[i]
        s = s + 1000 * (seed % 7) if kind in ('nested', 'array', 'arrays') else s
    else:
        kind = KINDS[int(rng.integers(0, len(KINDS)))]
        s = int(rng.integers(0, 10000))
        if i % 200 == 0 and tier == 'thorough':
            kind = 'hugearray'
        elif i % 60 == 0:
            kind = 'bigarray'
    if i == 7 or (i > len(CORE) and i % 41 == 0):     # the function without parameters (its body is fixed)
        return dict(sig='noargs', kind='nested', seed=12345, nlog=2, dress=0)
    return dict(sig=SIGNATURES[(i + seed) % len(SIGNATURES)], kind=kind, seed=int(s), nlog=NLOGS[(i * 3 + seed) % len(NLOGS)], dress=0)


def sizes(tier):
    """case counts of the tier; VERIF_SCALE (development aid, vlib.runner.scaled) shrinks them"""
    return {k: (v if k == 'realkills' else scaled(v)) for k, v in N[tier].items()}


def plan(tier, seed):
    n = sizes(tier)
    groups = dict(
        payload=[dict(u='payload', i=i) for i in range(n['payloads'])],
        users=[dict(u='users', i=i) for i in range(n['users'])],
        keys=[dict(u='keys', i=i) for i in range(n['keys'])],
        rec=[dict(u='rec', start=i, stop=min(n['rec'], i + 8)) for i in range(0, n['rec'], 8)],
        recx=[dict(u='recx', i=i) for i in range(n['recx'])],
        conc=[dict(u='conc', start=i, stop=min(n['conc'], i + 3)) for i in range(0, n['conc'], 3)])
    # big entries first (one of them costs as much as a dozen small ones), then interleave so that round-robin sharding
    # gives every worker a similar mix
    cost = lambda u: {'hugearray': 0, 'bigarray': 1}.get(payload_spec(tier, seed, u['i'])['kind'], 2)
    groups['payload'].sort(key=cost)
    order = ['users', 'payload', 'recx', 'conc', 'rec', 'keys']
    units = []
    while any(groups.values()):
        for k in order:
            if groups[k]:
                units.append(groups[k].pop(0))
    return units


# ---------------------------------------------------------------- worker-side session

class Session:
    def __init__(self, ctx, res):
        self.ctx, self.res = ctx, res
        # tmpfs when available: the enumeration rewrites one small file ~10^5 times (flock and partial writes behave the same)
        base = '/dev/shm' if os.path.isdir('/dev/shm') and os.access('/dev/shm', os.W_OK) else None
        if base:        # a worker killed by the driver cannot clean up: remove what such workers left behind long ago
            for name in os.listdir(base):
                q = os.path.join(base, name)
                try:
                    if name.startswith('c18-') and time.time() - os.path.getmtime(q) > 3 * 3600:
                        shutil.rmtree(q, ignore_errors=True)
                except OSError:
                    pass
        self.root = tempfile.mkdtemp(prefix='c18-', dir=base)
        self.nviol = 0
        self.ntagged = 0
        self.mix_model = None      # outcome of the last real double-kill validation of the prefix+old-suffix model
        self.mix_seen = 0

    def tmp(self):
        return tempfile.mkdtemp(dir=self.root)

    def timeout(self, t):
        """bound a blocking wait by what is left of the worker's budget (the driver kills the worker GRACE_S after the deadline)"""
        left = getattr(self.ctx, 'time_left', None)
        return t if left is None else max(5., min(t, left() + 20.))

    def close(self):
        shutil.rmtree(self.root, ignore_errors=True)

    def violation(self, monitor, case, detail, mechanism=None):
        if mechanism is not None:
            self.ntagged += 1
            keep = self.ntagged <= 6
        else:
            self.nviol += 1
            keep = self.nviol <= 40
        if keep:
            self.res.violation(monitor, case, detail, mechanism)
        else:
            self.res.count('violations_not_recorded_individually' + ('/' + mechanism if mechanism else ''))


def only_file(d):
    fs = [f for f in os.listdir(d) if os.path.isfile(os.path.join(d, f))]
    return os.path.join(d, fs[0]) if len(fs) == 1 else None


def subprocess_job(job, root, timeout=90):
    """fresh interpreter; -> (returncode | 'timeout', output json | None)"""
    from vlib import runner
    jf = tempfile.mktemp(dir=root, suffix='.job.json')
    of = jf + '.out'
    with open(jf, 'w') as f:
        json.dump(job, f)
    try:
        p = subprocess.run([runner.PY, '-m', 'vlib.c18_child', jf, of], cwd=runner.VERIF, env=dict(os.environ), timeout=timeout,
                           stdout=subprocess.PIPE, stderr=subprocess.STDOUT)
        rc = p.returncode
        tail = p.stdout.decode(errors='replace')[-600:]
    except subprocess.TimeoutExpired:
        rc, tail = 'timeout', ''
    out = None
    if os.path.exists(of):
        with open(of) as f:
            out = json.load(f)
    return rc, out, tail


# ---------------------------------------------------------------- (A)+(B): one payload

def check_call(S, case, pl, model, what, expect_executed=None, form=0, fam=None):
    """one memoised call compared with the model -> (Outcome, ok)"""
    from vlib import c18_lib as L
    o = L.observe(lambda: pl.call(form), pl.counter)
    S.res.count('calls')
    probs = L.compare(o, model, what)
    if expect_executed is not None and not probs and o.executed != expect_executed:
        probs.append(f'{what}: wrapped function executed {o.executed} times, expected {expect_executed}')
    for p in probs:
        S.violation('transparency' if fam is None else 'fault:' + fam, dict(case, where=what), p)
    return o, not probs


def run_payload(S, spec, users=False):
    from nutils import cache
    from vlib import c18_lib as L, c18_payloads as P
    import treelog
    res, ctx = S.res, S.ctx
    tier = ctx.tier
    case = dict(unit='users' if users else 'payload', spec=spec, seed=ctx.seed, tier=ctx.tier)
    P.set_variant('short')
    P.set_fail(False)
    try:
        pl = P.Payload(spec)
        with cache.disable():
            model = L.observe(lambda: pl.call(0), pl.counter, keep_raw=True)
            again = L.observe(lambda: pl.call(0), pl.counter)
    except Exception:
        res.count('payload_build_failed')
        res.note('payload build failed: ' + json.dumps(spec) + ' ' + traceback.format_exc()[-300:])
        return
    if L.compare(again, model, 'x') or model.executed != 1:
        res.count('payload_not_deterministic_skipped')
        res.note('payload not deterministic uncached: ' + json.dumps(spec))
        return
    if model.kind == 'value':
        import pickle
        try:
            ok = L.canon(pickle.loads(pickle.dumps(model.raw))) == model.value
        except Exception:
            ok = False
        model.raw = None
        if not ok:
            res.count('payload_canon_not_pickle_invariant_skipped')
            return
    res.count('payloads_started')
    res.count('kind/' + spec['kind'])
    res.count('sig/' + spec['sig'])
    res.count('nlog/%d' % spec['nlog'])
    res.maximum('max_log_records', len(model.logs))

    # ---- (A) transparency
    d = S.tmp()
    with cache.enable(d):
        o, ok = check_call(S, case, pl, model, 'clean miss', expect_executed=1)
        o, ok = check_call(S, case, pl, model, 'clean hit', expect_executed=None if model.kind == 'raise' else 0)
        res.count('A_miss_hit_pairs')
        for form in range(1, len(pl.forms)):
            o, ok = check_call(S, case, pl, model, f'equivalent binding form {form}', form=form)
            res.count('A_equivalent_binding_' + ('hit' if o.executed == 0 else 'executed'))
        with cache.disable():
            with_ctx = L.observe(lambda: _in_context(pl), pl.counter)
        o = L.observe(lambda: _in_context(pl), pl.counter)
        res.count('calls')
        for p in L.compare(o, with_ctx, 'call inside an outer log context'):
            S.violation('transparency', dict(case, where='outer context'), p)
    # earlier exception, then success (transient failure of the wrapped function)
    d2 = S.tmp()
    P.set_fail(True)
    try:
        if not users:
            with cache.disable():
                mfail = L.observe(lambda: pl.call(0), pl.counter)
            with cache.enable(d2):
                check_call(S, case, pl, mfail, 'call that raises (nothing cached yet)', expect_executed=1)
                check_call(S, case, pl, mfail, 'second call that raises', expect_executed=1)
                P.set_fail(False)
                check_call(S, case, pl, model, 'call after an earlier exception', expect_executed=1)
                check_call(S, case, pl, model, 'hit after an earlier exception', expect_executed=None if model.kind == 'raise' else 0)
                res.count('A_after_exception')
    finally:
        P.set_fail(False)
    if model.kind == 'raise':
        res.count('payloads_raising')
        res.count('payloads_completed')
        return
    path = only_file(d)
    if path is None:
        S.violation('transparency', case, f'expected exactly one cache entry, found {os.listdir(d)}')
        return
    new = L.read_file(path)
    res.maximum('max_entry_bytes', len(new))
    L.guard_address_space()
    seen = set()
    stats = dict(trunc=0, zerotail=0, fixed=0, mix=0, realkill=0)

    def fault(content, fam, k, pl_=pl, model_=model, path_=path, case_=case, strict=True, extra=None):
        """rewrite the entry, call, demand the uncached outcome, then demand a hit"""
        L.write_file(path_, content)
        ref = faultnew[0]
        complete = content[:len(ref)] == ref
        if content and not complete:
            seen.add(hashlib.sha1(fam.encode() + b'\0' + content).digest())
        c = dict(case_, family=fam, k=k)
        if extra:
            c.update(extra)
        o = L.observe(lambda: pl_.call(0), pl_.counter)
        res.count('calls')
        res.count('fault_calls/' + fam)
        probs = L.compare(o, model_, f'{fam} k={k}')
        if probs:
            il = L.independent_load(content)
            escaped = o.kind == 'raise' and il[0] == o.exc and o.exc not in L.CAUGHT_BY_DESIGN
            if escaped:
                res.count(f'escapes/{fam}/{o.exc}')
            if not strict and (o.kind == 'raise' or il[0] == 'loads'):
                # bytes that no killed writer can leave behind (zero-filled tail, random garbage): outside the property text
                # (it speaks of kills while writing); what the unpickler makes of them is counted, never a verdict
                res.count(f'out_of_scope/{fam}/' + (f'raised {o.exc}' if o.kind == 'raise' else 'loads as something else'))
                return o
            if escaped and fam == 'mix' and 0 < k < len(faultnew[0]):
                # structural predicate of the known mechanism: prefix of one serialisation + tail of another, and the
                # stock unpickler itself raises this (uncaught) exception type on exactly these bytes
                S.violation('fault:' + fam, c, probs[0] + f' | stock unpickler on these bytes: {il}', mechanism=FINDING)
                res.count('mix_escapes')
            elif o.kind == 'value' and il[0] == 'loads':
                res.count('torn_entry_loaded_as_other_value/' + fam)
                S.violation('fault:' + fam, c, probs[0] + ' | the torn bytes unpickle without error to another value')
            else:
                for p in probs:
                    S.violation('fault:' + fam, c, p + f' | stock unpickler on these bytes: {il}')
            return o
        res.count('fault_outcome/' + ('hit' if o.executed == 0 else 'recomputed'))
        if complete and o.executed != 0:
            S.violation('fault:' + fam, c, f'{fam} k={k}: a complete entry (plus trailing bytes) was not used: wrapped function executed {o.executed} times')
        o3 = L.observe(lambda: pl_.call(0), pl_.counter)
        res.count('calls')
        p3 = L.compare(o3, model_, f'call after {fam} k={k} was repaired')
        if not p3 and o3.executed != 0:
            p3.append(f'after {fam} k={k} and one recomputation the entry is still not usable: wrapped function executed again '
                      f'(file now {len(L.read_file(path_))} bytes, stock unpickler: {L.independent_load(L.read_file(path_))})')
        for p in p3:
            S.violation('fault:' + fam, c, p)
        return o

    faultnew = [new]
    exhaustive = True
    limit = None if not users else (12 if tier == 'quick' else 60)
    with cache.enable(d):
        ks = list(range(len(new) + 1))
        if limit is not None and len(ks) > limit:
            r = rng_for(ctx.seed, 'c18', 'userscuts', spec['seed'])
            ks = sorted({0, len(new), len(new) - 1, *[int(x) for x in r.integers(0, len(new), limit)]})
            exhaustive = False
        heavy = len(new) > 30000
        for k in ks:
            if k % 64 == 0 and ctx.expired():
                exhaustive = False
                break
            fault(new[:k], 'trunc', k)
            stats['trunc'] += 1
            if k < len(new) and not heavy and (tier == 'thorough' or len(new) <= 400):
                fault(new[:k] + bytes(len(new) - k), 'zerotail', k, strict=False)
                stats['zerotail'] += 1
        r = rng_for(ctx.seed, 'c18', 'garbage', spec['seed'], spec['kind'])
        fixed = [('zero1', b'\0'), ('zeros', bytes(len(new))), ('zeros+64', bytes(len(new) + 64)), ('bogus', b'bogus'), ('stop-only', b'.'),
                 ('trailing', new + b'trailing garbage \x80\x04'), ('lastbyte', new[:-1] + b'\xff')]
        for name, content in fixed:
            fault(content, 'fixed:' + name, len(content))
            stats['fixed'] += 1
        for g in range(5):
            n = int(r.integers(1, 2 * len(new) + 2))
            fault(r.integers(0, 256, n, dtype='uint8').tobytes(), 'garbage', n, strict=False)
            stats['fixed'] += 1
        # make sure the directory holds a valid entry again
        fault(new, 'trunc', len(new))

    # ---- real kills of the writer inside pickle.dump (forked children of this worker)
    rk = rng_for(ctx.seed, 'c18', 'realkill', spec['seed'], spec['kind'])
    nreal = N[tier]['realkills'] if not users else 2
    ks = sorted({int(x) for x in rk.integers(0, len(new) + 1, nreal)} | ({len(new) - 1} if tier == 'thorough' else set()))
    for n_, k in enumerate(ks):
        if ctx.expired():
            break
        dk = S.tmp()
        how = 'sigkill' if (n_ + spec.get('_index', 0)) % 2 else 'exit'

        def writer():
            L.install_killer(k, how=how)
            with cache.enable(dk), treelog.set(L.ListLog()):
                pl.call(0)
            return 'survived'
        status, out = L.fork_call(writer, timeout=S.timeout(60))
        pk = only_file(dk)
        if status not in ('exit:137', 'signal:9') or pk is None:
            res.count('realkill_unexpected_status')
            res.note(f'real kill: writer ended with {status} {out} files={os.listdir(dk)}')
            continue
        res.count('real_kills')
        left = L.read_file(pk)
        if left == new[:k]:
            res.count('fault_model_validated/trunc')
        else:
            res.count('fault_model_mismatch/trunc')
            res.note(f'real kill at byte {k} left {len(left)} bytes that are not the {k}-byte prefix of the entry: {spec}')
        with cache.enable(dk):
            o, ok = check_call(S, dict(case, family='realkill', k=k, how=how), pl, model, f'call after the writer was killed ({how}) at byte {k}', expect_executed=1 if k < len(new) else 0, fam='realkill')
            if ok:
                check_call(S, dict(case, family='realkill', k=k, how=how), pl, model, f'hit after repair of a real kill at byte {k}', expect_executed=0, fam='realkill')
        stats['realkill'] += 1
        shutil.rmtree(dk, ignore_errors=True)

    # ---- fresh interpreters: writer killed in a subprocess, reader in another subprocess
    idx = spec.get('_index', 0)
    if not users and not ctx.expired() and idx % (8 if tier == 'thorough' else 6) == 0:
        ds = S.tmp()
        k = int(rk.integers(1, len(new)))
        rc, out, tail = subprocess_job(dict(mode='write_kill', spec=spec, cachedir=ds, k=k, how='sigkill'), S.root, S.timeout(90))
        ps = only_file(ds)
        if rc not in (-9, 137) or ps is None:
            res.count('subprocess_kill_unexpected')
            res.note(f'subprocess writer rc={rc} {tail[-200:]}')
        else:
            res.count('subprocess_kills')
            if L.read_file(ps) == new[:k]:
                res.count('fault_model_validated/trunc-subprocess')
            rc, out, tail = subprocess_job(dict(mode='read', spec=spec, cachedir=ds), S.root, S.timeout(90))
            if rc == 'timeout':
                res.count('subprocess_reader_timeout')
            elif rc != 0 or out is None:
                S.violation('fault:subprocess', dict(case, family='subprocess', k=k), f'reader process failed after a writer was SIGKILLed at byte {k}: rc={rc} {tail}')
            else:
                res.count('subprocess_readers')
                res.count('calls')
                o = L.Outcome.from_json(out)
                probs = L.compare(o, model, f'fresh reader process after SIGKILL of the writer at byte {k}')
                if not probs and o.executed != 1:
                    probs.append(f'fresh reader after SIGKILL at byte {k} executed the function {o.executed} times')
                for p in probs:
                    S.violation('fault:subprocess', dict(case, family='subprocess', k=k), p)
                rc, out, tail = subprocess_job(dict(mode='read', spec=spec, cachedir=ds), S.root, S.timeout(90))
                if rc == 0 and out is not None:
                    res.count('calls')
                    o = L.Outcome.from_json(out)
                    probs = L.compare(o, model, 'second fresh reader process (hit)')
                    if not probs and o.executed != 0:
                        probs.append('second fresh reader executed the function again')
                    for p in probs:
                        S.violation('fault:subprocess', dict(case, family='subprocess', k=k), p)

    # ---- mix family: second writer killed at k over an entry torn at j (equal value, different serialisation)
    mixinfo = None
    if not users and not heavy and not ctx.expired():
        mixinfo = run_mix(S, spec, fault, faultnew, seen, stats)
        if mixinfo and mixinfo.get('incomplete'):
            exhaustive = False

    entry = dict(payload=hashlib.sha1(new).hexdigest()[:12], kind=spec['kind'], sig=spec['sig'], nlog=spec['nlog'], bytes=len(new),
                 cut_points=len(new) + 1, trunc=stats['trunc'], zerotail=stats['zerotail'], other=stats['fixed'], real_kills=stats['realkill'],
                 mix=stats['mix'], mix_bytes=(mixinfo or {}).get('bytes'), distinct=len(seen), exhaustive=bool(exhaustive))
    res.add('utable' if users else 'ptable', json.dumps(entry, sort_keys=True))
    res.count('payloads_completed')
    if exhaustive:
        res.count('payloads_exhaustive')
    shutil.rmtree(d, ignore_errors=True)
    shutil.rmtree(d2, ignore_errors=True)


def _in_context(pl):
    import treelog
    with treelog.context('outer ctx'):
        treelog.info('before')
        v = pl.call(0)
        treelog.info('after')
    return v


def run_mix(S, spec, fault, faultnew, seen, stats):
    from nutils import cache
    from vlib import c18_lib as L, c18_payloads as P
    import treelog
    res, ctx = S.res, S.ctx
    spec2 = dict(spec, dress=1)
    case = dict(unit='payload', spec=spec, dressed=True, seed=ctx.seed, tier=ctx.tier)
    pl = P.Payload(spec2)
    info = dict(bytes=None, incomplete=False)
    plain = faultnew[0]
    try:
        P.set_variant('long')
        with cache.disable():
            mlong = L.observe(lambda: pl.call(0), pl.counter)
        d = S.tmp()
        with cache.enable(d):
            check_call(S, case, pl, mlong, 'clean miss (long serialisation)', expect_executed=1)
        path = only_file(d)
        old = L.read_file(path)
        os.unlink(path)
        P.set_variant('short')
        with cache.disable():
            model = L.observe(lambda: pl.call(0), pl.counter)
        if L.compare(mlong, model, 'x'):
            res.count('mix_variants_not_equal_skipped')
            return info
        with cache.enable(d):
            check_call(S, case, pl, model, 'clean miss (short serialisation)', expect_executed=1)
        new = L.read_file(path)
        if not (len(old) > len(new) and old[:len(new)] != new):
            res.count('mix_same_serialisation_skipped')
            return info
        info['bytes'] = [len(new), len(old)]
        j = len(old) - 1
        kv = max(1, len(new) // 2)
        S.mix_seen += 1
        left2 = pv = None
        if S.mix_model is None or S.mix_seen % 4 == 0:
            S.mix_model, left2, pv = validate_mix_model(S, pl, old, new, j, kv)
        if S.mix_model != 'validated':
            res.count('mix_not_enumerated/' + str(S.mix_model))
            return info
        faultnew[0] = new
        if left2 is not None:       # the real doubly-torn file, read back
            with cache.enable(os.path.dirname(pv)):
                fault(left2, 'mix', kv, pl_=pl, model_=model, path_=pv, case_=case, extra=dict(j=j, real=True))
        js = [j]
        if ctx.tier == 'thorough' and len(old) - len(new) > 3:
            r = rng_for(ctx.seed, 'c18', 'mixj', spec['seed'])
            js += sorted({int(x) for x in r.integers(len(new), len(old) - 1, 2)})
        with cache.enable(d):
            for j in js:
                for k in range(len(new) + 1):
                    if k % 64 == 0 and ctx.expired():
                        info['incomplete'] = True
                        return info
                    fault(new[:k] + old[k:j], 'mix', k, pl_=pl, model_=model, path_=path, case_=case, extra=dict(j=j))
                    stats['mix'] += 1
        return info
    finally:
        P.set_variant('short')
        faultnew[0] = plain


def validate_mix_model(S, pl, old, new, j, kv):
    """two real deaths: writer A (long serialisation) dies at byte j, writer B (short) dies at byte kv.
    -> ('validated' | 'unreachable' | 'mismatch', bytes left, path)"""
    from nutils import cache
    from vlib import c18_lib as L, c18_payloads as P
    import treelog
    res = S.res
    dv = S.tmp()

    def writer(variant, k):
        def run():
            P.set_variant(variant)
            L.install_killer(k, how='exit')
            with cache.enable(dv), treelog.set(L.ListLog()):
                pl.call(0)
            return 'survived'
        return run
    st1, _ = L.fork_call(writer('long', j), timeout=S.timeout(60))
    pv = only_file(dv)
    left1 = L.read_file(pv) if pv else None
    st2, _ = L.fork_call(writer('short', kv), timeout=S.timeout(60))
    left2 = L.read_file(pv) if pv else None
    if 'timeout' in (st1, st2):
        res.count('mix_validation_timeout')
        return None, None, None
    res.count('real_kills', 2)
    if st1 != 'exit:137' or st2 != 'exit:137' or left1 != old[:j]:
        res.count('fault_model_mismatch/mix')
        res.note(f'mix validation: statuses {st1} {st2}, first kill left {None if left1 is None else len(left1)} bytes (expected {j})')
        return 'mismatch', None, None
    if left2 == new[:kv]:
        res.count('mix_unreachable_writer_truncates_first')      # a repaired tree: torn states are pure prefixes
        return 'unreachable', None, None
    if left2 != new[:kv] + old[kv:j]:
        res.count('fault_model_mismatch/mix')
        res.note('mix validation: second kill left bytes that are neither new[:k] nor new[:k]+old[k:j]')
        return 'mismatch', None, None
    res.count('fault_model_validated/mix')
    return 'validated', left2, pv


# ---------------------------------------------------------------- (A) near-colliding keys

def run_keys(S, i):
    from nutils import cache
    from vlib import c18_lib as L, c18_keys as K
    res = S.res
    rng = rng_for(S.ctx.seed, 'c18', 'keys', i)
    calls = K.gen_calls(rng, 40)
    case = dict(unit='keys', index=i, seed=S.ctx.seed, tier=S.ctx.tier)
    d = S.tmp()
    for n, c in enumerate(calls):
        fn = K.make_call(c)
        with cache.disable():
            model = L.observe(fn, K.executions)
        with cache.enable(d):
            o = L.observe(fn, K.executions)
        res.count('calls')
        res.count('keys_calls')
        res.count('keys_' + ('hit' if o.executed == 0 else 'miss'))
        res.add('key_entries', hashlib.sha1(json.dumps(model.value, sort_keys=True).encode()).hexdigest()[:10])
        for p in L.compare(o, model, f'call {n} of a sequence sharing one cache directory: {c}'):
            S.violation('transparency:keys', dict(case, call=c, n=n), p)
    res.count('keys_files', len(os.listdir(d)))
    shutil.rmtree(d, ignore_errors=True)
    # array arguments that differ only in memory layout / share a memory image, one cache directory per family
    for nf, fam in enumerate(K.layout_families(rng)):
        d = S.tmp()
        res.count('layout_families')
        for a in range(len(fam)):
            for b in range(a):
                if K.same_image_other_meaning(fam[a], fam[b]):
                    res.count('layout_pairs_same_image_other_meaning')
                elif L.canon(fam[a]) == L.canon(fam[b]):
                    res.count('layout_pairs_same_meaning_other_layout')
        order = [int(x) for x in rng.permutation(len(fam))]
        order = order + [int(x) for x in rng.permutation(len(fam))]        # second pass: every call is a hit on somebody's entry
        for n, m in enumerate(order):
            arr = fam[m]
            tag = nf % 2
            fn = (lambda: K.f_arr(arr, tag)) if n % 3 else (lambda: K.f_arr(tag=tag, a=arr))
            with cache.disable():
                model = L.observe(fn, K.executions)
            with cache.enable(d):
                o = L.observe(fn, K.executions)
            res.count('calls')
            res.count('layout_calls')
            res.count('layout_' + ('hit' if o.executed == 0 else 'miss'))
            for p in L.compare(o, model, f'array argument (family {nf} member {m}: shape {arr.shape} dtype {arr.dtype.str} strides {arr.strides}) in a directory shared with arrays of other layout'):
                S.violation('transparency:array-layout', dict(case, family=nf, member=m, call_number=n), p)
        shutil.rmtree(d, ignore_errors=True)


# ---------------------------------------------------------------- (C) Recursion

NFULL = 9


def run_rec(S, i):
    from vlib import c18_rec as R
    res = S.res
    rng = rng_for(S.ctx.seed, 'c18', 'rec', i)
    spec = R.gen_spec(rng, tag=i)
    hist = R.gen_history(rng, NFULL)
    case = dict(unit='rec', index=i, spec=spec, history=hist, seed=S.ctx.seed, tier=S.ctx.tier)
    execute_rec(S, case)
    return case


def execute_rec(S, case):
    from vlib import c18_rec as R
    res = S.res
    spec, hist = case['spec'], case['history']
    d = S.tmp()
    res.count('rec_histories')
    res.count('rec_length/%d' % spec['length'])
    res.count('rec_mode/' + spec['mode'])
    res.count('rec_shape/' + ('finite' if spec['nstop'] is not None else 'raising' if spec['raise_at'] is not None else 'infinite'))
    model = R.run(spec, NFULL, None)
    if R.run(spec, NFULL, None)['items'] != model['items']:
        res.count('rec_not_deterministic_skipped')
        return
    probs = []
    for op in hist:
        probs += R.apply_op(spec, op, d, res, timeout=S.timeout(30))
    full = None
    if case.get('index', 1) % 9 == 0 and not S.ctx.expired():
        # the final full run in a fresh interpreter (what the next program start would see)
        rc, full, tail = subprocess_job(dict(mode='rec_run', spec=spec, n=NFULL, cachedir=d), S.root, S.timeout(90))
        if rc == 0 and full is not None:
            res.count('rec_subprocess_full_runs')
        else:
            res.count('rec_subprocess_failed')
            res.note(f'recursion subprocess run rc={rc} {tail[-200:]}')
            full = None
    if full is None:
        full = R.run(spec, NFULL, d)
    res.count('calls', len(hist) + 2)
    probs += R.diff(full, model, f'full run after history {hist}')
    res.count('rec_end/' + model['end'].split(':')[0])
    res.count('rec_items_resumed', full['computed'])
    if not probs:
        again = R.run(spec, NFULL, d)
        probs += R.diff(again, model, 'second full run')
        if not probs and again['computed'] != 0:
            probs.append(f"second full run recomputed {again['computed']} items although every item was stored by the previous run")
    nontrivial = any(op[0] != 'consume' for op in hist) or len(hist) > 1
    if nontrivial:
        res.add('rec_distinct', hashlib.sha1(json.dumps([dict(spec, tag=0), hist], sort_keys=True).encode()).hexdigest()[:12])
    for p in probs:
        S.violation('recursion', case, p)
    shutil.rmtree(d, ignore_errors=True)


def run_recx(S, i):
    """exhaustive: every item file (incl. the stop marker) truncated to every prefix, then a full run"""
    from vlib import c18_rec as R, c18_lib as L
    res, ctx = S.res, S.ctx
    rng = rng_for(ctx.seed, 'c18', 'recx', i)
    spec = R.gen_spec(rng, tag=100000 + i)
    spec['length'] = 1 + i % 3
    spec['coeffs'], spec['init'] = (spec['coeffs'] * 3)[:spec['length']], (spec['init'] * 3)[:spec['length']]
    if i % 4 == 0 and spec['mode'] != 'fib':
        spec['nstop'], spec['raise_at'] = 4, None          # finite: the last file is a stop marker
    nfull = 6
    case = dict(unit='recx', index=i, spec=spec, seed=ctx.seed, tier=ctx.tier)
    d = S.tmp()
    model = R.run(spec, nfull, None)
    first = R.run(spec, nfull, d)
    probs = R.diff(first, model, 'clean first run')
    files = R.item_files(d)
    snap = {p: L.read_file(p) for p in files}
    pairs = 0
    complete = True
    seen = set()
    for fi, path in enumerate(files):
        b = snap[path]
        for k in range(len(b)):
            if k % 32 == 0 and ctx.expired():
                complete = False
                break
            for p, c in snap.items():
                if L.read_file(p) != c:
                    L.write_file(p, c)
            for p in R.item_files(d):
                if p not in snap:
                    os.unlink(p)
            L.write_file(path, b[:k])
            obs = R.run(spec, nfull, d)
            res.count('calls')
            pairs += 1
            if k:
                seen.add((fi, k))
            pr = R.diff(obs, model, f'item file {fi} ({len(b)} bytes) truncated to {k} bytes')
            if not pr:
                again = R.run(spec, nfull, d)
                pr = R.diff(again, model, f'rerun after repair of item file {fi} truncated to {k}')
                if not pr and again['computed'] != 0:
                    pr.append(f'rerun after repair of item file {fi} truncated to {k} recomputed {again["computed"]} items')
            for p in pr[:1]:
                S.violation('recursion:truncation', dict(case, file=fi, k=k), p)
        if not complete:
            break
    for p in probs:
        S.violation('recursion', case, p)
    res.count('recx_pairs', pairs)
    res.add('rxtable', json.dumps(dict(recursion=hashlib.sha1(json.dumps(dict(spec, tag=0), sort_keys=True).encode()).hexdigest()[:12], length=spec['length'], mode=spec['mode'],
                                      files=len(files), bytes=sum(len(b) for b in snap.values()), pairs=pairs, distinct=len(seen), exhaustive=complete,
                                      stop_marker=model['end'] == 'stopped'), sort_keys=True))
    if complete:
        res.count('recx_exhaustive')
    res.count('recx_done')
    shutil.rmtree(d, ignore_errors=True)


# ---------------------------------------------------------------- (D) concurrency

def run_conc(S, i):
    from vlib import c18_conc as C
    res = S.res
    rng = rng_for(S.ctx.seed, 'c18', 'conc', i)
    group = C.gen_group(rng, i)
    case = dict(unit='conc', group=group, seed=S.ctx.seed, tier=S.ctx.tier)
    execute_conc(S, case)


def execute_conc(S, case):
    from vlib import c18_conc as C
    res = S.res
    group = case['group']
    root = S.tmp()
    obs = C.run_group(group, root, S.timeout(90))
    probs, stats = C.check_group(group, obs)
    if stats['timeout']:
        res.count('conc_groups_timeout')
        shutil.rmtree(root, ignore_errors=True)
        return
    res.count('conc_groups')
    res.count('conc_processes', len(group['procs']))
    res.count('conc_executions', stats['executions'])
    res.count('conc_callers_ok', stats['callers_ok'])
    res.count('conc_keys', stats['keys'])
    res.count('conc_groups_with_victim', 1 if stats['victims'] else 0)
    res.count('calls', sum(len(p['order']) for p in group['procs']))
    res.add('conc_distinct', hashlib.sha1(json.dumps(dict(group, seed=0, index=0), sort_keys=True).encode()).hexdigest()[:12])
    # how close did the processes actually get: count callers whose request arrived while another execution was running
    for p in probs:
        S.violation('concurrency', dict(case, records=obs['records'][:12]), p)
    shutil.rmtree(root, ignore_errors=True)


# ---------------------------------------------------------------- protocol

def run_units(units, ctx):
    res = Result()
    S = Session(ctx, res)
    try:
        for u in units:
            if ctx.expired():
                res.count('units_skipped_deadline')
                res.count('units_skipped_deadline/' + u['u'])
                continue
            t0, c0, w0 = time.process_time(), _children_cpu(), time.time()
            try:
                run_unit(S, u)
            except Exception:
                res.count('unit_harness_exceptions')
                res.note('unit ' + json.dumps(u) + ' raised in the harness: ' + traceback.format_exc()[-700:])
            res.count('cpu_ms/' + u['u'], int(1000 * (time.process_time() - t0)))
            res.count('child_cpu_ms/' + u['u'], int(1000 * (_children_cpu() - c0)))
            res.count('wall_ms/' + u['u'], int(1000 * (time.time() - w0)))
    finally:
        S.close()
    return res


def _children_cpu():
    import resource
    r = resource.getrusage(resource.RUSAGE_CHILDREN)
    return r.ru_utime + r.ru_stime


def run_unit(S, u):
    ctx, res = S.ctx, S.res
    kind = u['u']
    if kind == 'payload':
        spec = payload_spec(ctx.tier, ctx.seed, u['i'])
        spec['_index'] = u['i']
        run_payload(S, spec)
        if u['i'] % 11 == 0:
            res.sample(dict(unit='payload', spec=spec, families=['trunc k=0..len', 'zerotail k=0..len-1', 'mix k=0..len (j=len(old)-1)', 'fixed', 'garbage', 'realkill']))
    elif kind == 'users':
        spec = dict(sig=['System.solve', 'System.solve_constraints', 'System.solve'][u['i'] % 3], kind='real', seed=u['i'], nlog=0, dress=0)
        run_payload(S, spec, users=True)
        res.count('users_done')
    elif kind == 'keys':
        run_keys(S, u['i'])
    elif kind == 'rec':
        for i in range(u['start'], u['stop']):
            if ctx.expired():
                res.count('rec_skipped_deadline')
                continue
            case = run_rec(S, i)
            if i % 53 == 0:
                res.sample(case)
    elif kind == 'recx':
        run_recx(S, u['i'])
    elif kind == 'conc':
        for i in range(u['start'], u['stop']):
            if ctx.expired():
                res.count('conc_skipped_deadline')
                continue
            run_conc(S, i)
    else:
        raise ValueError(kind)


class _ReplayCtx:
    def __init__(self, tier='quick', seed=0):
        self.tier, self.seed = tier, seed

    def expired(self):
        return False


def replay(case):
    res = Result()
    S = Session(_ReplayCtx(case.get('tier', 'quick'), case.get('seed', 0)), res)
    try:
        unit = case.get('unit')
        if unit in ('payload', 'users'):
            run_payload(S, case['spec'], users=unit == 'users')
        elif unit == 'rec':
            execute_rec(S, case)
        elif unit == 'recx':
            run_recx(S, case['index'])
        elif unit == 'conc':
            execute_conc(S, case)
        elif unit == 'keys':
            run_keys(S, case['index'])
    finally:
        S.close()
    return res.violations


# ---------------------------------------------------------------- ledger reproducer

def repro_torn_overwrite():
    """Real processes only: writer A dies one byte before the end of its entry; writer B (same key, equal value,
    shorter serialisation) dies in the middle of its own write; a third process asks for the value.  The byte k
    at which B dies is chosen among those for which the stock unpickler raises something else than
    EOFError/UnpicklingError/IndexError on the resulting bytes."""
    from nutils import cache
    from vlib import c18_lib as L, c18_payloads as P
    import treelog
    spec = dict(sig='pos', kind='scalar', seed=16, nlog=1, dress=1)     # the value is the str 'ünïcöde ...' in a list with two equal tuples
    pl = P.Payload(spec)
    root = tempfile.mkdtemp(prefix='c18-repro-', dir='/dev/shm' if os.path.isdir('/dev/shm') and os.access('/dev/shm', os.W_OK) else None)
    try:
        P.set_variant('short')
        with cache.disable():
            model = L.observe(lambda: pl.call(0), pl.counter)
        entry = {}
        for v in ('long', 'short'):
            P.set_variant(v)
            dd = tempfile.mkdtemp(dir=root)
            with cache.enable(dd), treelog.set(L.ListLog()):
                pl.call(0)
            entry[v] = L.read_file(only_file(dd))
        old, new = entry['long'], entry['short']
        j = len(old) - 1
        L.guard_address_space()
        cands = [k for k in range(1, len(new)) if L.independent_load(new[:k] + old[k:j])[0] not in ('loads', 'MemoryError') + L.CAUGHT_BY_DESIGN]
        if not cands:
            return False, 'no cut point makes the stock unpickler raise anything but EOFError/UnpicklingError/IndexError'
        k = cands[len(cands) // 2]
        d = tempfile.mkdtemp(dir=root)

        def writer(variant, kk):
            def run():
                P.set_variant(variant)
                L.install_killer(kk)
                with cache.enable(d), treelog.set(L.ListLog()):
                    pl.call(0)
            return run
        s1, _ = L.fork_call(writer('long', j), timeout=120)
        s2, _ = L.fork_call(writer('short', k), timeout=120)
        if (s1, s2) != ('exit:137', 'exit:137'):
            return None, f'writers ended with {s1}, {s2}'
        left = L.read_file(only_file(d))
        state = 'a pure prefix of the new entry (the writer truncates before dumping)' if left == new[:k] else 'new[:k]+old[k:j]' if left == new[:k] + old[k:j] else 'unexpected bytes'

        def reader():
            P.set_variant('short')
            with cache.enable(d):
                return L.observe(lambda: pl.call(0), pl.counter).to_json()
        s3, out = L.fork_call(reader, timeout=120)
        if out is None:
            return None, f'reader ended with {s3}'
        o = L.Outcome.from_json(out)
        if L.compare(o, model, 'reader'):
            return True, (f'cache.function entry of {len(old)} bytes torn at byte {j} by a killed writer, rewritten by a second writer (equal value, '
                          f'{len(new)}-byte serialisation) killed at byte {k}; the file holds {state}: the next call {o.brief()} instead of recomputing '
                          f'({len(cands)} of {len(new) - 1} cut points k behave like this)')
        return False, f'after two killed writers (j={j}, k={k}) the file holds {state}; the next call recomputed and returned the uncached value'
    finally:
        P.set_variant('short')
        shutil.rmtree(root, ignore_errors=True)


REPRODUCERS = {FINDING: repro_torn_overwrite}
REPRO_TIMEOUT_S = 300


# ---------------------------------------------------------------- finalize

def finalize(m, tier, seed):
    c = m.counters
    n = sizes(tier)

    def table(name):
        rows, seen = [], set()
        for s in sorted(m.sets.get(name, ())):
            e = json.loads(s)
            key = e.get('payload') or e.get('recursion')
            if key in seen:
                continue
            seen.add(key)
            rows.append(e)
        return rows
    pt, ut, rx = table('ptable'), table('utable'), table('rxtable')
    distinct = sum(e['distinct'] for e in pt) + sum(e['distinct'] for e in ut) + sum(e['distinct'] for e in rx) \
        + len(m.sets.get('rec_distinct', ())) + len(m.sets.get('conc_distinct', ())) + len(m.sets.get('key_entries', ()))
    cut_points = sum(e['trunc'] + e['zerotail'] + e['mix'] for e in pt)
    sub = lambda prefix: {k[len(prefix):]: v for k, v in sorted(c.items()) if k.startswith(prefix)}
    cov = dict(
        evaluations=c.get('calls', 0), distinct_nontrivial=distinct, rule=RULE, samples=m.samples[:5],
        exhaustive=bool(pt) and all(e['exhaustive'] for e in pt) and all(e['exhaustive'] for e in rx),
        payloads=dict(planned=n['payloads'], started=c.get('payloads_started', 0), completed=c.get('payloads_completed', 0), raising=c.get('payloads_raising', 0),
                      exhaustive=c.get('payloads_exhaustive', 0), distinct_entries=len(pt), cut_points_enumerated=cut_points,
                      max_entry_bytes=m.maxima.get('max_entry_bytes'), max_log_records=m.maxima.get('max_log_records'),
                      kinds=sub('kind/'), signatures=sub('sig/'), log_records=sub('nlog/'),
                      skipped=dict(build_failed=c.get('payload_build_failed', 0), not_deterministic=c.get('payload_not_deterministic_skipped', 0),
                                   canon_not_pickle_invariant=c.get('payload_canon_not_pickle_invariant_skipped', 0))),
        payload_table=pt,
        real_users=dict(table=ut, done=c.get('users_done', 0), not_covered=['mesh.parsegmsh / mesh.gmsh (meshio not installed)', 'solver._with_solve.solve_withinfo (legacy)']),
        fault_calls=sub('fault_calls/'), fault_outcomes=sub('fault_outcome/'), escapes_by_family_and_type=sub('escapes/'),
        not_producible_by_a_kill_counted_only=sub('out_of_scope/'), torn_entry_loaded_as_other_value=sub('torn_entry_loaded_as_other_value/'),
        fault_model=dict(validated=sub('fault_model_validated/'), mismatch=sub('fault_model_mismatch/'),
                         mix_unreachable_writer_truncates_first=c.get('mix_unreachable_writer_truncates_first', 0), mix_not_enumerated=sub('mix_not_enumerated/'),
                         mix_same_serialisation_skipped=c.get('mix_same_serialisation_skipped', 0)),
        real_kills=dict(forked_writers=c.get('real_kills', 0), subprocess_writers=c.get('subprocess_kills', 0), subprocess_readers=c.get('subprocess_readers', 0),
                        unexpected_status=c.get('realkill_unexpected_status', 0) + c.get('subprocess_kill_unexpected', 0)),
        transparency=dict(miss_hit_pairs=c.get('A_miss_hit_pairs', 0), after_exception=c.get('A_after_exception', 0),
                          equivalent_binding_hit=c.get('A_equivalent_binding_hit', 0), equivalent_binding_executed=c.get('A_equivalent_binding_executed', 0),
                          key_sequences=dict(calls=c.get('keys_calls', 0), hits=c.get('keys_hit', 0), misses=c.get('keys_miss', 0),
                                             distinct_values=len(m.sets.get('key_entries', ())), files=c.get('keys_files', 0)),
                          array_layout=dict(families=c.get('layout_families', 0), calls=c.get('layout_calls', 0), hits=c.get('layout_hit', 0), misses=c.get('layout_miss', 0),
                                            pairs_same_memory_image_other_meaning=c.get('layout_pairs_same_image_other_meaning', 0),
                                            pairs_same_meaning_other_layout=c.get('layout_pairs_same_meaning_other_layout', 0))),
        recursion=dict(histories=c.get('rec_histories', 0), distinct_histories=len(m.sets.get('rec_distinct', ())), ops=sub('rec_ops/'), lengths=sub('rec_length/'),
                       modes=sub('rec_mode/'), shapes=sub('rec_shape/'), ends=sub('rec_end/'), real_kills=c.get('rec_real_kills', 0),
                       kill_not_reached=c.get('rec_kill_not_reached', 0), fresh_interpreter_full_runs=c.get('rec_subprocess_full_runs', 0), files_truncated=c.get('rec_files_truncated', 0), items_resumed=c.get('rec_items_resumed', 0),
                       exhaustive_truncation=dict(recursions=c.get('recx_done', 0), exhaustive=c.get('recx_exhaustive', 0), pairs=c.get('recx_pairs', 0), table=rx)),
        concurrency=dict(groups=c.get('conc_groups', 0), distinct_groups=len(m.sets.get('conc_distinct', ())), processes=c.get('conc_processes', 0),
                         keys=c.get('conc_keys', 0), executions_logged=c.get('conc_executions', 0), caller_results_checked=c.get('conc_callers_ok', 0),
                         groups_with_killed_process=c.get('conc_groups_with_victim', 0)),
        cost_ms=dict(worker_cpu=sub('cpu_ms/'), child_cpu=sub('child_cpu_ms/'), wall=sub('wall_ms/')),
        skipped_deadline=sub('units_skipped_deadline/'), harness_exceptions=c.get('unit_harness_exceptions', 0),
        violations_not_recorded_individually=c.get('violations_not_recorded_individually', 0))
    inc = []
    if cov['harness_exceptions']:
        inc.append(f"{cov['harness_exceptions']} unit(s) raised inside the harness: " + '; '.join(m.notes[:2]))
    done = c.get('payloads_completed', 0)
    if done < 0.9 * n['payloads']:
        inc.append(f"only {done} of {n['payloads']} payloads completed")
    if c.get('payloads_exhaustive', 0) + c.get('payloads_raising', 0) < 0.9 * n['payloads'] - n['users']:
        inc.append(f"only {c.get('payloads_exhaustive', 0)} payloads had all cut points enumerated")
    if c.get('fault_calls/trunc', 0) < scaled(1000):
        inc.append('truncation monitor barely reached')
    if c.get('real_kills', 0) < scaled(20):
        inc.append('too few real kills')
    if c.get('fault_model_validated/trunc', 0) < scaled(10):
        inc.append('prefix fault model not validated against real kills')
    if sum(sub('fault_model_mismatch/').values()):
        inc.append('a real kill left a file the offline fault model does not produce: ' + '; '.join(m.notes[:2]))
    if not (c.get('fault_calls/mix', 0) >= scaled(1000) or (c.get('mix_not_enumerated/unreachable', 0) >= scaled(5) and not c.get('fault_model_validated/mix', 0))):
        inc.append('prefix+old-suffix family neither enumerated nor shown unreachable')
    if c.get('rec_histories', 0) < 0.9 * n['rec'] or c.get('recx_exhaustive', 0) < 0.75 * n['recx']:
        inc.append(f"recursion monitors under-exercised ({c.get('rec_histories', 0)} histories, {c.get('recx_exhaustive', 0)} exhaustive)")
    if c.get('rec_real_kills', 0) < scaled(5) or c.get('rec_items_resumed', 0) < scaled(20):
        inc.append('recursion resume path barely reached')
    if c.get('conc_groups', 0) < 0.9 * n['conc'] or c.get('conc_executions', 0) < c.get('conc_keys', 0) or c.get('conc_callers_ok', 0) < 3 * c.get('conc_groups', 0):
        inc.append('concurrency monitor under-exercised')
    if c.get('users_done', 0) < n['users']:
        inc.append("nutils' own memoised callables not all exercised")
    if c.get('keys_calls', 0) < 30 * n['keys'] or c.get('keys_hit', 0) < 5:
        inc.append('key-collision sequences under-exercised')
    if c.get('layout_pairs_same_image_other_meaning', 0) < 10 * n['keys'] or c.get('layout_hit', 0) < 20 * n['keys']:
        inc.append('array-layout argument pairs under-exercised')
    return dict(coverage=cov, inconclusive='; '.join(inc) or None)
